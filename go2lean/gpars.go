package main

// gpars.go — the pinned helper module github.com/go-pars/pars as regenerated FACTS
// (Gts/Gen/ParsFacts.lean, obligations of C07; expectation Gts/Spec/ParsTable.lean, bridge
// Gts/Bridge/ParsFacts.lean).
//
// Every parser proof rests on the hand-written model Gts/Model/Pars.lean of go-pars v1.1.6.  The source of
// that module is not part of /repo: it lies in the module cache, pinned by /repo/go.mod and go.sum.  This
// generator
//
//   - finds the module directory (flag `-pars <dir>`; default: `go list -m -f {{.Dir}}` run in the
//     repository, offline) and REFUSES when it is missing, when go.mod asks for another version than the one
//     the model was written against, or when go.sum has no line for it;
//   - records the pin: the version, the two go.sum lines and the `h1:` hash of the directory that was
//     actually read (the algorithm of golang.org/x/mod/sumdb/dirhash.Hash1, re-implemented on the
//     standard library), so that the bridge can say "the text these facts were taken from is the text
//     go.sum pins";
//   - collects the INVENTORY of what gts uses of the package: every `pars.X` of a non-test file of the
//     repository (through the file's import name) and every method name of the package that is called on
//     something that is not a package;
//   - closes the inventory under "is mentioned in the body of" inside the package (methods by name), and
//     writes every function, method, variable, constant and type of that closure in the NORMAL FORM of
//     gbreader.go (one line `(indent, kind, text)` per statement, locals `v0, v1, …` in order of
//     declaration, parameters by type, the receiver `recv`, function literals as entries `F/funcN`), in
//     the order files and declarations have in the package;
//   - derives `stateOps`: every operation on the saved positions / the buffer with the innermost header
//     it stands under.
//
// AST only.  A statement or expression form the printer does not know is refused.

import (
	"crypto/sha256"
	"encoding/base64"
	"fmt"
	"go/ast"
	"go/token"
	"io"
	"os"
	"os/exec"
	"path/filepath"
	"sort"
	"strings"
)

const (
	parsModule  = "github.com/go-pars/pars"
	parsVersion = "v1.1.6" // the version Gts/Model/Pars.lean was written against
)

// parsDirFlag: the value of `-pars` ("" = ask `go list`)
var parsDirFlag string

// parsModuleDir: where the source of the pinned module lies
func parsModuleDir(repo string) string {
	dir := parsDirFlag
	if dir == "" {
		cmd := exec.Command("go", "list", "-m", "-f", "{{.Dir}}", parsModule)
		cmd.Dir = repo
		cmd.Env = append(os.Environ(), "GOFLAGS=-mod=mod", "GOPROXY=off", "GOSUMDB=off", "GOTOOLCHAIN=local")
		out, err := cmd.Output()
		if err != nil {
			msg := ""
			if ee, ok := err.(*exec.ExitError); ok {
				msg = strings.TrimSpace(string(ee.Stderr))
			}
			refuse("go-pars: `go list -m %s` in %s failed (%v) %s — the module directory is not known; pass -pars <dir>", parsModule, repo, err, msg)
		}
		dir = strings.TrimSpace(string(out))
		if dir == "" {
			refuse("go-pars: `go list -m %s` in %s names no directory (the module is not in the module cache); pass -pars <dir>", parsModule, repo)
		}
	}
	st, err := os.Stat(dir)
	if err != nil || !st.IsDir() {
		refuse("go-pars: the module directory %s does not exist", dir)
	}
	return dir
}

// parsPin: the version go.mod requires and the go.sum lines of the module
func parsPin(repo string) (version string, sums []string) {
	mod, err := os.ReadFile(filepath.Join(repo, "go.mod"))
	if err != nil {
		refuse("go-pars: %v", err)
	}
	for _, l := range strings.Split(string(mod), "\n") {
		f := strings.Fields(strings.TrimPrefix(strings.TrimSpace(l), "require "))
		if len(f) >= 2 && f[0] == parsModule {
			if version != "" {
				refuse("go-pars: go.mod names %s twice", parsModule)
			}
			version = f[1]
		}
		if len(f) >= 1 && f[0] == "replace" && strings.Contains(l, parsModule) {
			refuse("go-pars: go.mod replaces %s", parsModule)
		}
	}
	if version == "" {
		refuse("go-pars: go.mod does not require %s", parsModule)
	}
	if version != parsVersion {
		refuse("go-pars: go.mod requires %s %s, the model Gts/Model/Pars.lean was written against %s", parsModule, version, parsVersion)
	}
	sum, err := os.ReadFile(filepath.Join(repo, "go.sum"))
	if err != nil {
		refuse("go-pars: %v", err)
	}
	for _, l := range strings.Split(string(sum), "\n") {
		f := strings.Fields(l)
		if len(f) == 3 && f[0] == parsModule {
			sums = append(sums, strings.Join(f, " "))
		}
	}
	if len(sums) == 0 {
		refuse("go-pars: go.sum has no line for %s", parsModule)
	}
	return
}

// parsDirHash: the `h1:` hash of a module directory (dirhash.Hash1: SHA-256 over the lines
// `<sha256 of the file>  <module>@<version>/<path>` of all files in sorted order)
func parsDirHash(dir, version string) string {
	var files []string
	err := filepath.Walk(dir, func(p string, info os.FileInfo, err error) error {
		if err != nil {
			return err
		}
		if info.Mode().IsRegular() {
			rel, rerr := filepath.Rel(dir, p)
			if rerr != nil {
				return rerr
			}
			files = append(files, filepath.ToSlash(rel))
		}
		return nil
	})
	if err != nil {
		refuse("go-pars: %v", err)
	}
	sort.Strings(files)
	h := sha256.New()
	for _, f := range files {
		fh := sha256.New()
		r, err := os.Open(filepath.Join(dir, filepath.FromSlash(f)))
		if err != nil {
			refuse("go-pars: %v", err)
		}
		_, err = io.Copy(fh, r)
		r.Close()
		if err != nil {
			refuse("go-pars: %v", err)
		}
		fmt.Fprintf(h, "%x  %s@%s/%s\n", fh.Sum(nil), parsModule, version, f)
	}
	return "h1:" + base64.StdEncoding.EncodeToString(h.Sum(nil))
}

// ---- the package ------------------------------------------------------------------------------------

type parsDecl struct {
	name  string // F, T.M, a variable, a constant, a type
	kind  string // func | var | const | type
	file  string
	src   *source
	fd    *ast.FuncDecl
	value ast.Expr      // var / const
	spec  *ast.TypeSpec // type
}

type parsPkg struct {
	dir     string
	files   []string
	decls   []*parsDecl // package order: files by name, declarations in source order
	byName  map[string]*parsDecl
	methods map[string][]string // method name -> the `T.M` that have it
}

func parsRecvBase(fd *ast.FuncDecl) string {
	if len(fd.Recv.List) != 1 || len(fd.Recv.List[0].Names) > 1 {
		refuse("go-pars: %s: receiver list", fd.Name.Name)
	}
	base := strings.TrimPrefix(exprString(fd.Recv.List[0].Type), "*")
	if !isVarName(base) {
		refuse("go-pars: %s: receiver type %s", fd.Name.Name, exprString(fd.Recv.List[0].Type))
	}
	return base
}

func parsLoad(dir string) *parsPkg {
	ents, err := os.ReadDir(dir)
	if err != nil {
		refuse("go-pars: %v", err)
	}
	pk := &parsPkg{dir: dir, byName: map[string]*parsDecl{}, methods: map[string][]string{}}
	for _, e := range ents {
		n := e.Name()
		if e.IsDir() || !strings.HasSuffix(n, ".go") || strings.HasSuffix(n, "_test.go") {
			continue
		}
		pk.files = append(pk.files, n)
	}
	sort.Strings(pk.files)
	if len(pk.files) == 0 {
		refuse("go-pars: no Go file in %s", dir)
	}
	add := func(d *parsDecl) {
		if _, dup := pk.byName[d.name]; dup {
			refuse("go-pars: %s declared twice", d.name)
		}
		pk.byName[d.name] = d
		pk.decls = append(pk.decls, d)
	}
	for _, n := range pk.files {
		src, perr := parseSource(filepath.Join(dir, n))
		if perr != nil {
			refuse("go-pars: %v", perr)
		}
		if src.file.Name.Name != "pars" {
			refuse("go-pars: %s is of package %s", n, src.file.Name.Name)
		}
		for _, d := range src.file.Decls {
			switch dd := d.(type) {
			case *ast.FuncDecl:
				if dd.Body == nil {
					refuse("go-pars: %s: %s has no body", n, dd.Name.Name)
				}
				name := dd.Name.Name
				if dd.Recv != nil {
					name = parsRecvBase(dd) + "." + dd.Name.Name
					pk.methods[dd.Name.Name] = append(pk.methods[dd.Name.Name], name)
				}
				add(&parsDecl{name: name, kind: "func", file: n, src: src, fd: dd})
			case *ast.GenDecl:
				for _, sp := range dd.Specs {
					switch s := sp.(type) {
					case *ast.ValueSpec:
						kind := "var"
						if dd.Tok == token.CONST {
							kind = "const"
						}
						if len(s.Values) != len(s.Names) {
							refuse("go-pars: %s: declaration of %s: names and values differ in number", n, s.Names[0].Name)
						}
						for i, id := range s.Names {
							add(&parsDecl{name: id.Name, kind: kind, file: n, src: src, value: s.Values[i]})
						}
					case *ast.TypeSpec:
						add(&parsDecl{name: s.Name.Name, kind: "type", file: n, src: src, spec: s})
					}
				}
			}
		}
	}
	return pk
}

// ---- what gts uses ----------------------------------------------------------------------------------

// parsUsed: the names `pars.X` of the non-test files of the repository and the method names of the
// package that are called on something that is not an imported package
func parsUsed(repo string, pk *parsPkg) (names, methods, files []string) {
	nameSet, methSet := map[string]bool{}, map[string]bool{}
	err := filepath.Walk(repo, func(p string, info os.FileInfo, err error) error {
		if err != nil {
			return err
		}
		base := filepath.Base(p)
		if info.IsDir() {
			if p != repo && (strings.HasPrefix(base, ".") || base == "testdata" || base == "vendor") {
				return filepath.SkipDir
			}
			return nil
		}
		if !strings.HasSuffix(base, ".go") || strings.HasSuffix(base, "_test.go") {
			return nil
		}
		src, perr := parseSource(p)
		if perr != nil {
			return perr
		}
		alias := ""
		pkgs := map[string]bool{}
		for _, im := range src.file.Imports {
			path := strings.Trim(im.Path.Value, "\"`")
			local := path[strings.LastIndex(path, "/")+1:]
			if im.Name != nil {
				local = im.Name.Name
			}
			pkgs[local] = true
			if path == parsModule {
				if local == "." || local == "_" {
					return fmt.Errorf("%s imports %s as %s", p, parsModule, local)
				}
				alias = local
			}
		}
		if alias == "" {
			return nil
		}
		rel, _ := filepath.Rel(repo, p)
		files = append(files, filepath.ToSlash(rel))
		ast.Inspect(src.file, func(x ast.Node) bool {
			switch n := x.(type) {
			case *ast.SelectorExpr:
				if identName(n.X) == alias {
					nameSet[n.Sel.Name] = true
					return false
				}
			case *ast.CallExpr:
				if sel, ok := n.Fun.(*ast.SelectorExpr); ok {
					if id := identName(sel.X); id == "" || !pkgs[id] {
						if _, isMethod := pk.methods[sel.Sel.Name]; isMethod {
							methSet[sel.Sel.Name] = true
						}
					}
				}
			}
			return true
		})
		return nil
	})
	if err != nil {
		refuse("go-pars: %v", err)
	}
	for n := range nameSet {
		names = append(names, n)
	}
	for n := range methSet {
		methods = append(methods, n)
	}
	sort.Strings(names)
	sort.Strings(methods)
	sort.Strings(files)
	return
}

// parsMentions: the package-level names and the method names a declaration mentions
func parsMentions(pk *parsPkg, d *parsDecl) (out []string) {
	var root ast.Node
	switch d.kind {
	case "func":
		root = d.fd
	case "var", "const":
		root = d.value
	case "type":
		root = d.spec
	}
	seen := map[string]bool{}
	ast.Inspect(root, func(x ast.Node) bool {
		switch n := x.(type) {
		case *ast.SelectorExpr:
			// x.M: a method (or field) name; the qualifier is looked at on its own
			if ms, ok := pk.methods[n.Sel.Name]; ok {
				for _, m := range ms {
					if !seen[m] {
						seen[m] = true
						out = append(out, m)
					}
				}
			}
			ast.Inspect(n.X, func(y ast.Node) bool {
				if id, ok := y.(*ast.Ident); ok {
					if _, ok := pk.byName[id.Name]; ok && !seen[id.Name] {
						seen[id.Name] = true
						out = append(out, id.Name)
					}
				}
				return true
			})
			return false
		case *ast.KeyValueExpr:
			// a field name of a struct literal is not a mention
			ast.Inspect(n.Value, func(y ast.Node) bool {
				if id, ok := y.(*ast.Ident); ok {
					if _, ok := pk.byName[id.Name]; ok && !seen[id.Name] {
						seen[id.Name] = true
						out = append(out, id.Name)
					}
				}
				return true
			})
			return false
		case *ast.Ident:
			if _, ok := pk.byName[n.Name]; ok && !seen[n.Name] {
				seen[n.Name] = true
				out = append(out, n.Name)
			}
		}
		return true
	})
	return
}

// parsClosure: the declarations reachable from what gts uses
func parsClosure(pk *parsPkg, names, methods []string) map[string]bool {
	in := map[string]bool{}
	var work []string
	push := func(n string) {
		if _, ok := pk.byName[n]; ok && !in[n] {
			in[n] = true
			work = append(work, n)
		}
	}
	for _, n := range names {
		if _, ok := pk.byName[n]; !ok {
			refuse("go-pars: gts uses pars.%s, which the package does not declare", n)
		}
		push(n)
	}
	for _, m := range methods {
		for _, tm := range pk.methods[m] {
			push(tm)
		}
	}
	for len(work) > 0 {
		n := work[len(work)-1]
		work = work[:len(work)-1]
		for _, m := range parsMentions(pk, pk.byName[n]) {
			push(m)
		}
	}
	return in
}

// ---- printing ---------------------------------------------------------------------------------------

// parameter names by type inside the package (the types are unqualified there)
var parsStems = map[string]string{
	"*State": "state", "*Result": "result", "State": "state", "Parser": "p", "Map": "f", "Position": "pos",
	"io.Reader": "r", "...interface{}": "qq", "...int": "nn", "...byte": "bb", "ascii.Filter": "filter",
	"[]Result": "rr", "rune": "c", "[]rune": "cc", "...rune": "cc",
}

// parsStmtExt: the type switch (`switch v := q.(type)`), which the reader files do not have
func parsStmtExt(p *gbPrinter, sc *gbScope, s ast.Stmt, ind int, out *[]gbLine) bool {
	ts, ok := s.(*ast.TypeSwitchStmt)
	if !ok {
		return false
	}
	if ts.Init != nil {
		p.refuse(s, "type switch with an init statement")
	}
	in := p.open(sc)
	var text string
	guard := func(x ast.Expr) string {
		ta, ok := x.(*ast.TypeAssertExpr)
		if !ok || ta.Type != nil {
			p.refuse(s, "type switch guard")
		}
		return p.expr(sc, ta.X) + ".(type)"
	}
	switch a := ts.Assign.(type) {
	case *ast.ExprStmt:
		text = guard(a.X)
	case *ast.AssignStmt:
		if a.Tok != token.DEFINE || len(a.Lhs) != 1 || len(a.Rhs) != 1 {
			p.refuse(s, "type switch guard")
		}
		g := guard(a.Rhs[0])
		text = p.declare(in, a.Lhs[0].(*ast.Ident)) + " := " + g
	default:
		p.refuse(s, "type switch guard")
	}
	*out = append(*out, gbLine{ind, "typeswitch", text})
	for _, c := range ts.Body.List {
		cc := c.(*ast.CaseClause)
		if cc.List == nil {
			*out = append(*out, gbLine{ind + 1, "default", ""})
		} else {
			ts := make([]string, len(cc.List))
			for i, e := range cc.List {
				if identName(e) == "nil" {
					ts[i] = "nil"
				} else {
					ts[i] = p.typ(e)
				}
			}
			*out = append(*out, gbLine{ind + 1, "case", strings.Join(ts, ", ")})
		}
		p.block(in, cc.Body, ind+2, out)
	}
	return true
}

func parsPrinter(d *parsDecl) *gbPrinter {
	return &gbPrinter{src: d.src, top: d.name, ncount: map[string]int{}, fns: map[int]*gbFn{}, stmtExt: parsStmtExt, stems: parsStems}
}

// parsPrint: one declaration in the normal form (its function literals behind it)
func parsPrint(d *parsDecl) []gbFn {
	p := parsPrinter(d)
	main := gbFn{name: d.name}
	sc := p.open(nil)
	switch d.kind {
	case "func":
		recv := ""
		if d.fd.Recv != nil {
			recv = "(recv " + exprString(d.fd.Recv.List[0].Type) + ") "
			if ns := d.fd.Recv.List[0].Names; len(ns) == 1 && ns[0].Name != "_" {
				sc.names[ns[0].Name] = "recv"
			}
		}
		sig := p.bindSig(sc, d.fd.Type)
		main.lines = append(main.lines, gbLine{0, "func", recv + sig})
		p.body(sc, d.fd.Type, d.fd.Body.List, 1, &main.lines)
	case "var", "const":
		main.lines = append(main.lines, gbLine{0, d.kind, p.expr(sc, d.value)})
	case "type":
		switch t := d.spec.Type.(type) {
		case *ast.StructType:
			main.lines = append(main.lines, gbLine{0, "type", "struct"})
			for _, f := range t.Fields.List {
				if len(f.Names) == 0 {
					main.lines = append(main.lines, gbLine{1, "field", p.typ(f.Type)})
				}
				for _, n := range f.Names {
					main.lines = append(main.lines, gbLine{1, "field", n.Name + " " + p.typ(f.Type)})
				}
			}
		default:
			main.lines = append(main.lines, gbLine{0, "type", p.typ(d.spec.Type)})
		}
	}
	out := []gbFn{main}
	for k := 0; k < p.nfunc; k++ {
		out = append(out, *p.fns[k])
	}
	return out
}

func parsMangle(s string) string { return strings.NewReplacer("/", "_", ".", "_").Replace(s) }

// the operations on the saved positions and the buffer
var parsStateOpNames = map[string]bool{"Push": true, "Pop": true, "Drop": true, "Clear": true, "Advance": true, "Request": true,
	"autoclear": true, "Reset": true}

// parsOpsOfLine: the state operations a line performs: `state.Op(` / `recv.Op(` / `recv.stk.Op(`, in source order
func parsOpsOfLine(text string) []string {
	var out []string
	for _, c := range ioCalls(text) {
		k := strings.LastIndex(c.callee, ".")
		if k < 0 {
			continue
		}
		on, name := c.callee[:k], c.callee[k+1:]
		if !parsStateOpNames[name] {
			continue
		}
		switch on {
		case "state", "recv", "recv.stk":
			out = append(out, on+"."+name+"("+strings.Join(c.args, ", ")+")")
		}
	}
	return out
}

func genParsFacts(repo string) (text string, err error) {
	defer recoverRefusal(&err)
	version, sums := parsPin(repo)
	dir := parsModuleDir(repo)
	hash := parsDirHash(dir, version)
	pk := parsLoad(dir)
	names, methods, files := parsUsed(repo, pk)
	if len(names) == 0 {
		refuse("go-pars: no file of %s uses the package", repo)
	}
	in := parsClosure(pk, names, methods)

	var all []gbFn
	var order []string
	perDecl := map[string][]string{} // declaration -> its entries
	for _, d := range pk.decls {
		if !in[d.name] {
			continue
		}
		fs := parsPrint(d)
		order = append(order, d.name)
		for _, f := range fs {
			perDecl[d.name] = append(perDecl[d.name], f.name)
		}
		all = append(all, fs...)
	}

	b := strings.Builder{}
	b.WriteString("/-\n  GENERATED by go2lean (gpars.go) from the module directory of github.com/go-pars/pars - DO NOT EDIT.\n  Regenerated by bin/setup and by every bin/check run.\n")
	b.WriteString("  The pin of the module (version, go.sum lines, h1 hash of the directory that was read), the inventory of what\n  gts uses of the package, and every declaration gts reaches in the normal form of the reader facts, one line per\n  statement (indent, kind, text): locals renamed in order of declaration (`v0, v1, …`), parameters by type, the\n  receiver `recv`, function literals as entries `F/funcN`.  Compared with the expectation Gts/Spec/ParsTable.lean by\n  Gts/Bridge/ParsFacts.lean.\n-/\n")
	b.WriteString("namespace Gts.Gen.ParsFacts\n\n")
	b.WriteString("/-- one statement: (indent, kind, text) -/\nabbrev Line := Nat × String × String\n\n")
	fmt.Fprintf(&b, "/-- the module and the version /repo/go.mod requires -/\ndef module : String := %s\ndef version : String := %s\n\n", leanString(parsModule), leanString(version))
	fmt.Fprintf(&b, "/-- the lines of /repo/go.sum for the module -/\ndef goSum : List String := %s\n\n", leanStrs(sums))
	fmt.Fprintf(&b, "/-- the h1 hash (dirhash.Hash1) of the directory these facts were read from, computed by go2lean -/\ndef dirHash : String := %s\n\n", leanString(hash))
	fmt.Fprintf(&b, "/-- the non-test Go files of the package, in the order they are read -/\ndef files : List String := %s\n\n", leanStrs(pk.files))
	fmt.Fprintf(&b, "/-- the non-test files of the repository that import the package -/\ndef users : List String := %s\n\n", leanStrs(files))
	fmt.Fprintf(&b, "/-- every `pars.X` a non-test file of the repository mentions (sorted) -/\ndef usedNames : List String := %s\n\n", leanStrs(names))
	fmt.Fprintf(&b, "/-- every method name of the package that a non-test file of the repository calls on something that is not an\nimported package (sorted; by NAME: `x.Error()` counts for every type of the package that has an `Error` method) -/\ndef usedMethods : List String := %s\n\n", leanStrs(methods))

	for _, f := range all {
		fmt.Fprintf(&b, "def fn_%s : List Line := [\n", parsMangle(f.name))
		for i, l := range f.lines {
			fmt.Fprintf(&b, "  (%d, %s, %s)%s\n", l.ind, leanString(l.kind), leanString(l.text), sepComma(i, len(f.lines)))
		}
		b.WriteString("]\n\n")
	}
	b.WriteString("/-- every declaration of the package that gts reaches (what it uses, closed under \"is mentioned in the body of\",\nmethods by name) with its function literals, in package order (files by name, declarations in source order) -/\ndef fns : List (String × List Line) := [\n")
	for i, f := range all {
		fmt.Fprintf(&b, "  (%s, fn_%s)%s\n", leanString(f.name), parsMangle(f.name), sepComma(i, len(all)))
	}
	b.WriteString("]\n\n")
	b.WriteString("/-- the declarations of the package that gts does NOT reach (not written down, not compared) -/\ndef unreached : List String := [")
	first := true
	for _, d := range pk.decls {
		if in[d.name] {
			continue
		}
		if !first {
			b.WriteString(", ")
		}
		first = false
		b.WriteString(leanString(d.name))
	}
	b.WriteString("]\n\n")

	b.WriteString("/-- every operation on the saved positions / the buffer (`Push Pop Drop Clear Advance Request autoclear Reset` on\n`state`, the receiver or the receiver's stack): (entry, operation, the innermost `if` / `for` / `case` / `else` header\nit stands under, \"\" = unconditional), in source order -/\n")
	b.WriteString("def stateOps : List (String × String × String) := [\n")
	var ops [][3]string
	for _, f := range all {
		for i, l := range f.lines {
			if l.kind == "func" || l.kind == "type" || l.kind == "field" || l.kind == "var" && l.ind == 0 || l.kind == "const" {
				continue
			}
			os := parsOpsOfLine(l.text)
			if len(os) == 0 {
				continue
			}
			under := ""
			if u := ioUnder(f, i); len(u) > 0 {
				under = u[len(u)-1]
			}
			if l.kind == "if" || l.kind == "for" {
				// an operation in the header itself
				under = strings.TrimSpace(l.kind + " " + l.text)
			}
			for _, o := range os {
				ops = append(ops, [3]string{f.name, o, under})
			}
		}
	}
	for i, o := range ops {
		fmt.Fprintf(&b, "  (%s, %s, %s)%s\n", leanString(o[0]), leanString(o[1]), leanString(o[2]), sepComma(i, len(ops)))
	}
	b.WriteString("]\n\n")
	b.WriteString("end Gts.Gen.ParsFacts\n")
	_ = order
	_ = perDecl
	return b.String(), nil
}
