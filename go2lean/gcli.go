package main

// Statement translator for the per-record steps of the multi-site CLI commands (cmd/gts/delete.go,
// insert.go, infix.go, split.go, rotate.go, extract.go — C15) and for the locator constructors of
// locator.go (C08).  The frames that use it are in gcli_cmds.go and glocator.go.
//
// What is translated, and how it is read:
//
//   - a statement list becomes a term of type `Option R`: `none` is a Go run-time panic of an index
//     / slice / make expression in the translated code itself, `some v` the value.
//   - `gts.Sequence` is `Gts.Seq`, `gts.Region` is `Gts.Reg` (a `Segment` used as a region is
//     `Reg.seg`, a `Regions` / `[]gts.Region` value is `Reg.many`), `[]gts.Region` and `gts.Regions` are
//     `List Gts.Reg`, `[]gts.Segment` is `List (Int × Int)`, `[]int` is `List Int`, `int` the unbounded
//     `Int`.  Slices are VALUES (aliasing is the subject of C11): `xs[i]`, `xs[a:]`, `xs[:b]`,
//     `xs[a:b]`, `xs[i] = v`, `make([]T, n)` are the checked operations `clAt … clMake` of the prelude
//     Gts/Gen/CliList.lean (a slice end beyond `len` is read as a panic), `append(xs, v)` is
//     `xs ++ [v]`, `len(xs)` is `xs.length`.
//   - `map[int]interface{}` used as a set (`m[k] = nil`, `len(m)`, `for k := range m`) is the list of
//     its keys in order of first insertion (`clSetAdd`); `for k := range m` visits `mapOrder keys`,
//     `mapOrder` a PARAMETER of the generated function (Go's iteration order is unspecified: the
//     bridge theorems hold for every `mapOrder` that permutes its argument).
//   - `for i, x := range xs { … }` is a structurally recursive helper over the list value `xs` has at
//     loop entry, with the variables of the enclosing scopes that the body assigns as arguments (the
//     loop state, in order of declaration) and `i` counting the elements passed.  When the body
//     stores into the ranged slice variable itself (`rr[i] = …`), `x` is read LIVE (`clAt rr i`), as
//     Go does; any other assignment to that variable is refused.  A loop without state whose body
//     returns (`containsRegion`) yields `Option (Option R)`: `some none` = ran to completion.
//     Three-clause `for`, `continue`, `goto`, labels, and `break` inside a loop are refused.
//   - `if c { … }`: a body that ends in `return` / `break` (of the enclosing switch) turns the rest of
//     the block into the else branch; otherwise the variables the body assigns are joined.  A
//     tagless `switch` is the chain of its clauses, joined the same way.  `a && b`, `a || b` with an
//     operation that can panic in `b` are refused.
//   - calls: `gts.Delete / Erase / Insert / Embed / Rotate / Slice / Len / Minimize / InvertLinear`,
//     `Region.Head / Tail / Len / Locate / Resize`, `Location.Region`, `reflect.DeepEqual` on regions
//     are the MODEL's `Seq.* / Reg.* / Loc.region / Reg.beq` (they have their own regenerated ties);
//     `gts.Copy`, the conversions `gts.Sequence(x)`, `gts.Regions(x)` and `gts.WithTopology(x, t)` are
//     the identity on values (the model's sequences carry no topology; each is recorded as a fact);
//     `flip.Flip(gts.BySegment(ss))` is `ss.reverse`, `sort.Sort(sort.Reverse(sort.IntSlice(x)))` is
//     the model's `Cli.sortDesc`, `sort.Ints(x)` the prelude's `clSortInts` (specification: THE sorted
//     permutation), each recorded as a fact.  A locator (`gts.Locator`) is a parameter function
//     `Gts.Seq → List Gts.Reg`.
//   - `if _, err := writer.WriteSeq(x); err != nil { return ctx.Raise(err) }` appends `x` to the list
//     of written records `written_` (the result of a step); `if err := buffer.Flush(); …` is
//     recognised and dropped (both recorded as facts).
//
// Anything else is refused.

import (
	"fmt"
	"go/ast"
	"go/token"
	"sort"
	"strings"
)

// ---- values -----------------------------------------------------------------------------------

type kv struct {
	kind string // see kLean; further: prop, nil, top, topconst, flagptr, fn3, handle
	term string
	// fn3: a function variable `f := gts.A; if *flag { f = gts.B }`
	fnFlag, fnThen, fnElse string
	fnSig                  []string // argument kinds
}

var kLean = map[string]string{
	"int": "Int", "bool": "Bool", "seq": "Gts.Seq", "reg": "Gts.Reg", "regs": "List Gts.Reg",
	"seg": "(Int × Int)", "segs": "List (Int × Int)", "ints": "List Int", "intset": "List Int",
	"seqs": "List Gts.Seq", "locator": "(Gts.Seq → List Gts.Reg)", "locators": "List (Gts.Seq → List Gts.Reg)",
	"feats": "List Gts.Feature", "feat": "Gts.Feature", "loc": "Gts.Loc", "mod": "Gts.Mod",
	"filter": "(Gts.Feature → Bool)", "bytes": "List UInt8",
}

var kElem = map[string]string{"regs": "reg", "segs": "seg", "ints": "int", "seqs": "seq", "locators": "locator", "feats": "feat"}

func kTypeOf(v kv) string {
	t, ok := kLean[v.kind]
	if !ok {
		refuse("no Lean type for a value of kind %s", v.kind)
	}
	return t
}

// an effect in front of an expression: `match expr with | none => none | some pat => …`
type kbind struct{ pat, expr string }

func kwrap(pre []kbind, body string) string {
	for i := len(pre) - 1; i >= 0; i-- {
		body = fmt.Sprintf("(match %s with\n| none => none\n| some %s =>\n%s)", pre[i].expr, pre[i].pat, body)
	}
	return body
}

func kprop(v kv) string {
	switch v.kind {
	case "prop":
		return v.term
	case "bool":
		return "(" + v.term + " = true)"
	}
	refuse("expected a condition, got a %s", v.kind)
	return ""
}

func kscalar(v kv) kv {
	if v.kind == "prop" {
		return kv{kind: "bool", term: "(decide " + v.term + ")"}
	}
	return v
}

// names the generated text uses itself
var kReserved = map[string]bool{"written_": true, "rest_": true, "i_": true, "mapOrder": true, "circular": true, "fuel": true,
	"none": true, "some": true, "default": true, "decide": true, "true": true, "false": true, "clAt": true, "clFrom": true,
	"clTo": true, "clSub": true, "clPut": true, "clMake": true, "clSetAdd": true, "clSortInts": true, "clInsertInts": true,
	"clIndexByte": true, "selOk": true}

var kKeywords = map[string]bool{"rec": true, "sorry": true, "unsafe": true, "meta": true, "prelude": true, "macro_rules": true,
	"at": true, "fun": true, "Σ": true, "λ": true, "nat_lit": true, "scoped": true, "nonrec": true, "run_cmd": true, "id": true}

func kLeanName(n string) string {
	if leanKeywords[n] || oKeywords[n] || kKeywords[n] {
		return n + "'"
	}
	return n
}

// ---- per-function state -------------------------------------------------------------------------

type kglobal struct {
	name  string // Lean name
	typ   string // Lean type
	class int    // ordering class
	pos   int    // position of the declaration
	used  bool
}

type kcallee struct {
	lean   string
	params []string // kinds
	result string   // kind
	fn     *kfn     // the translated function (its globals are passed on)
}

type kfn struct {
	base, what string
	helpers    []string
	ntmp       int
	nloop      int
	known      map[string]kcallee
	facts      []string
	globals    map[string]*kglobal // by Lean name
}

const kGDecl = "\x00GDECL\x00"
const kGArgs = "\x00GARGS\x00"

func (f *kfn) global(name, typ string, class, pos int) {
	if f.globals == nil {
		f.globals = map[string]*kglobal{}
	}
	if _, ok := f.globals[name]; !ok {
		f.globals[name] = &kglobal{name: name, typ: typ, class: class, pos: pos}
	}
}

func (f *kfn) use(name string) string {
	g, ok := f.globals[name]
	if !ok {
		refuse("internal: no global %s", name)
	}
	g.used = true
	return name
}

// usedGlobals in canonical order: class, then position of declaration
func (f *kfn) usedGlobals() []*kglobal {
	var out []*kglobal
	for _, g := range f.globals {
		if g.used {
			out = append(out, g)
		}
	}
	sort.Slice(out, func(i, j int) bool {
		if out[i].class != out[j].class {
			return out[i].class < out[j].class
		}
		if out[i].pos != out[j].pos {
			return out[i].pos < out[j].pos
		}
		return out[i].name < out[j].name
	})
	return out
}

// finish replaces the placeholders for the globals in a generated text
func (f *kfn) finish(text string) string {
	var decls, args []string
	for _, g := range f.usedGlobals() {
		decls = append(decls, fmt.Sprintf("(%s : %s)", g.name, g.typ))
		args = append(args, g.name)
	}
	d, a := strings.Join(decls, " "), strings.Join(args, " ")
	if d != "" {
		d, a = " "+d, " "+a
	}
	return strings.ReplaceAll(strings.ReplaceAll(text, kGDecl, d), kGArgs, a)
}

type kctx struct {
	f      *kfn
	vars   map[string]kv  // Go name → value (locals bound to their own Lean name, or globals)
	seq    map[string]int // order of declaration of the locals
	local  map[string]bool
	inLoop bool
	ret    func(c *kctx, rs []ast.Expr) string // translation of `return …` (nil: refused)
	retK   string                              // kind of the value a `return` yields
	brk    func(c *kctx) string                // translation of `break` out of the enclosing switch
	io     map[string]string                   // Go name → "writer" | "buffer"
	ext    *kext                               // extension hooks of another generator (cmdsteps.go); nil for the C15 steps
	ctxNm  string                              // the name of the *flags.Context parameter ("" = `ctx`, the C15 steps)
}

// kext: expression / call / assignment forms another generator adds to the translator; each hook is asked first and
// answers false for what it does not know
type kext struct {
	expr   func(c *kctx, x ast.Expr, pre *[]kbind) (kv, bool)
	call   func(c *kctx, n *ast.CallExpr, pre *[]kbind) (kv, bool)
	assign func(c *kctx, n *ast.AssignStmt, rest []ast.Stmt, k func(c *kctx) string) (string, bool)
}

func (c *kctx) clone() *kctx {
	n := &kctx{f: c.f, vars: map[string]kv{}, seq: map[string]int{}, local: map[string]bool{}, inLoop: c.inLoop, ret: c.ret, retK: c.retK, brk: c.brk, io: c.io, ext: c.ext, ctxNm: c.ctxNm}
	for k, v := range c.vars {
		n.vars[k] = v
	}
	for k, v := range c.seq {
		n.seq[k] = v
	}
	for k, v := range c.local {
		n.local[k] = v
	}
	return n
}

func (c *kctx) retKind() string {
	if _, ok := kLean[c.retK]; !ok {
		refuse("a loop that returns a %s", c.retK)
	}
	return c.retK
}

func (c *kctx) tmp() string {
	c.f.ntmp++
	return fmt.Sprintf("t%d_", c.f.ntmp)
}

func (c *kctx) fact(s string) { c.f.facts = append(c.f.facts, s) }

// declare a local variable, bound to its own Lean name
func (c *kctx) declare(name, kind string) kv {
	if kReserved[name] && name != "written_" || strings.HasSuffix(name, "_") && name != "written_" {
		refuse("variable name %s is reserved by the generator", name)
	}
	if _, ok := kLean[kind]; !ok {
		refuse("a variable (%s) of kind %s", name, kind)
	}
	v := kv{kind: kind, term: kLeanName(name)}
	c.vars[name] = v
	c.local[name] = true
	if _, seen := c.seq[name]; !seen {
		c.seq[name] = len(c.seq)
	}
	return v
}

func (c *kctx) bySeq(names map[string]bool) []string {
	out := make([]string, 0, len(names))
	for n := range names {
		if !c.local[n] {
			refuse("assignment to %s, which is not a variable of the translated statements (state carried between records?)", n)
		}
		out = append(out, n)
	}
	sort.Slice(out, func(i, j int) bool { return c.seq[out[i]] < c.seq[out[j]] })
	return out
}

// ---- expressions --------------------------------------------------------------------------------

func (c *kctx) effect(pre *[]kbind, expr string) string {
	if pre == nil {
		refuse("an operation that can panic (%s) where only a side-effect free expression is translated", expr)
	}
	name := c.tmp()
	*pre = append(*pre, kbind{name, expr})
	return name
}

func (c *kctx) intOf(x ast.Expr, pre *[]kbind) string {
	v := c.expr(x, pre)
	if v.kind != "int" {
		refuse("%s: expected an int, got a %s", exprString(x), v.kind)
	}
	return v.term
}

func (c *kctx) kindOf(x ast.Expr, pre *[]kbind, kind string) string {
	v := c.expr(x, pre)
	if v.kind != kind {
		refuse("%s: expected a %s, got a %s", exprString(x), kind, v.kind)
	}
	return v.term
}

// asReg: a value used where a gts.Region is expected
func asReg(v kv) string {
	switch v.kind {
	case "reg":
		return v.term
	case "seg":
		return fmt.Sprintf("(Gts.Reg.seg %s.1 %s.2)", v.term, v.term)
	case "regs":
		return fmt.Sprintf("(Gts.Reg.many %s)", v.term)
	}
	refuse("expected a region, got a %s", v.kind)
	return ""
}

// pkgName: `gts.X` / `seqio.X` … with the package identifier not shadowed by a variable; in
// package gts itself the functions are unqualified
func (c *kctx) pkgName(x ast.Expr) (pkg, name string, ok bool) {
	switch f := x.(type) {
	case *ast.SelectorExpr:
		id, isId := f.X.(*ast.Ident)
		if !isId {
			return "", "", false
		}
		if _, shadow := c.vars[id.Name]; shadow {
			return "", "", false
		}
		return id.Name, f.Sel.Name, true
	case *ast.Ident:
		if _, shadow := c.vars[f.Name]; shadow {
			return "", "", false
		}
		return "", f.Name, true
	}
	return "", "", false
}

// typeKind: the element kind of a Go type expression (slice element / conversion target)
func typeKind(x ast.Expr) string {
	switch exprString(x) {
	case "int":
		return "int"
	case "gts.Region", "Region":
		return "reg"
	case "gts.Sequence", "Sequence":
		return "seq"
	case "gts.Segment", "Segment":
		return "seg"
	}
	return ""
}

func (c *kctx) expr(x ast.Expr, pre *[]kbind) kv {
	if c.ext != nil && c.ext.expr != nil {
		if v, ok := c.ext.expr(c, x, pre); ok {
			return v
		}
	}
	switch n := x.(type) {
	case *ast.ParenExpr:
		return c.expr(n.X, pre)
	case *ast.BasicLit:
		if n.Kind == token.INT {
			return kv{kind: "int", term: n.Value}
		}
		refuse("literal %s", n.Value)
	case *ast.Ident:
		switch n.Name {
		case "true", "false":
			if _, shadow := c.vars[n.Name]; !shadow {
				return kv{kind: "bool", term: n.Name}
			}
		case "nil":
			return kv{kind: "nil"}
		}
		v, ok := c.vars[n.Name]
		if !ok {
			refuse("unknown identifier %s", n.Name)
		}
		if !c.local[n.Name] && v.kind != "fn3" && v.kind != "flagptr" && v.kind != "top" {
			c.f.use(v.term)
		}
		return v
	case *ast.StarExpr:
		id, ok := n.X.(*ast.Ident)
		if !ok {
			refuse("dereference of %s", exprString(n.X))
		}
		v, ok := c.vars[id.Name]
		if !ok || v.kind != "flagptr" {
			refuse("dereference of %s, which is not a switch option", id.Name)
		}
		return kv{kind: "bool", term: c.f.use(v.term)}
	case *ast.UnaryExpr:
		switch n.Op {
		case token.SUB:
			return kv{kind: "int", term: "(-" + c.intOf(n.X, pre) + ")"}
		case token.NOT:
			return kv{kind: "prop", term: "(¬ " + kprop(c.expr(n.X, pre)) + ")"}
		}
		refuse("unary %s", n.Op)
	case *ast.BinaryExpr:
		return c.binary(n, pre)
	case *ast.SelectorExpr:
		if pkg, name, ok := c.pkgName(n); ok && pkg == "gts" && (name == "Circular" || name == "Linear") {
			return kv{kind: "topconst", term: name}
		}
		base := c.expr(n.X, pre)
		if base.kind == "feat" && n.Sel.Name == "Loc" {
			return kv{kind: "loc", term: base.term + ".loc"}
		}
		refuse("selector %s (on a %s)", exprString(n), base.kind)
	case *ast.IndexExpr:
		base := c.expr(n.X, pre)
		ek, ok := kElem[base.kind]
		if !ok {
			refuse("index expression on a %s", base.kind)
		}
		idx := c.intOf(n.Index, pre)
		return kv{kind: ek, term: c.effect(pre, fmt.Sprintf("clAt %s %s", base.term, idx))}
	case *ast.SliceExpr:
		base := c.expr(n.X, pre)
		if _, ok := kElem[base.kind]; !ok && base.kind != "bytes" || n.Slice3 {
			refuse("slice expression on a %s", base.kind)
		}
		switch {
		case n.Low == nil && n.High == nil:
			return base
		case n.High == nil:
			return kv{kind: base.kind, term: c.effect(pre, fmt.Sprintf("clFrom %s %s", base.term, c.intOf(n.Low, pre)))}
		case n.Low == nil:
			return kv{kind: base.kind, term: c.effect(pre, fmt.Sprintf("clTo %s %s", base.term, c.intOf(n.High, pre)))}
		}
		lo := c.intOf(n.Low, pre)
		hi := c.intOf(n.High, pre)
		return kv{kind: base.kind, term: c.effect(pre, fmt.Sprintf("clSub %s %s %s", base.term, lo, hi))}
	case *ast.CompositeLit:
		switch exprString(n.Type) {
		case "Segment", "gts.Segment":
			if len(n.Elts) != 2 {
				refuse("Segment literal with %d elements", len(n.Elts))
			}
			return kv{kind: "seg", term: fmt.Sprintf("(%s, %s)", c.intOf(n.Elts[0], pre), c.intOf(n.Elts[1], pre))}
		case "Regions", "gts.Regions", "[]gts.Region", "[]Region":
			parts := make([]string, len(n.Elts))
			for i, el := range n.Elts {
				if _, kvp := el.(*ast.KeyValueExpr); kvp {
					refuse("keyed composite literal")
				}
				parts[i] = asReg(c.expr(el, pre))
			}
			return kv{kind: "regs", term: "[" + strings.Join(parts, ", ") + "]"}
		}
		refuse("composite literal %s", exprString(n.Type))
	case *ast.CallExpr:
		return c.call(n, pre)
	}
	refuse("expression %T", x)
	return kv{}
}

func (c *kctx) binary(n *ast.BinaryExpr, pre *[]kbind) kv {
	switch n.Op {
	case token.LAND, token.LOR:
		l := kprop(c.expr(n.X, pre))
		r := kprop(c.expr(n.Y, nil)) // Go evaluates the right operand conditionally: no effects there
		op := map[token.Token]string{token.LAND: "∧", token.LOR: "∨"}[n.Op]
		return kv{kind: "prop", term: fmt.Sprintf("(%s %s %s)", l, op, r)}
	}
	l, r := c.expr(n.X, pre), c.expr(n.Y, pre)
	switch n.Op {
	case token.ADD, token.SUB, token.MUL:
		if l.kind != "int" || r.kind != "int" {
			refuse("%s of a %s and a %s", n.Op, l.kind, r.kind)
		}
		return kv{kind: "int", term: fmt.Sprintf("(%s %s %s)", l.term, n.Op, r.term)}
	case token.LSS, token.GTR, token.LEQ, token.GEQ, token.EQL, token.NEQ:
		if (n.Op == token.EQL || n.Op == token.NEQ) && (l.kind == "top" && r.kind == "topconst" || l.kind == "topconst" && r.kind == "top") {
			if l.kind == "topconst" {
				l, r = r, l
			}
			want := r.term == "Circular"
			if n.Op == token.NEQ {
				want = !want
			}
			return kv{kind: "prop", term: fmt.Sprintf("(%s = %v)", c.f.use(l.term), want)}
		}
		if l.kind != "int" || r.kind != "int" {
			refuse("comparison of a %s and a %s", l.kind, r.kind)
		}
		op := map[token.Token]string{token.LSS: "<", token.GTR: ">", token.LEQ: "≤", token.GEQ: "≥", token.EQL: "=", token.NEQ: "≠"}[n.Op]
		return kv{kind: "prop", term: fmt.Sprintf("(%s %s %s)", l.term, op, r.term)}
	}
	refuse("binary %s", n.Op)
	return kv{}
}

// the model functions behind the package-level functions of gts
var kGtsFns = map[string]struct {
	lean   string
	params []string
	result string
}{
	"Delete":       {"Gts.Seq.delete", []string{"seq", "int", "int"}, "seq"},
	"Erase":        {"Gts.Seq.erase", []string{"seq", "int", "int"}, "seq"},
	"Insert":       {"Gts.Seq.insert", []string{"seq", "int", "seq"}, "seq"},
	"Embed":        {"Gts.Seq.embed", []string{"seq", "int", "seq"}, "seq"},
	"Rotate":       {"Gts.Seq.rotate", []string{"seq", "int"}, "seq"},
	"Slice":        {"Gts.Seq.slice", []string{"seq", "int", "int"}, "seq"},
	"Len":          {"Gts.Seq.len", []string{"seq"}, "int"},
	"Minimize":     {"Gts.Reg.minimize", []string{"region"}, "segs"},
	"InvertLinear": {"Gts.Reg.invertLinear", []string{"region", "int"}, "regs"},
}

func (c *kctx) args(n *ast.CallExpr, kinds []string, pre *[]kbind) []string {
	if len(n.Args) != len(kinds) || n.Ellipsis.IsValid() {
		refuse("%s: %d arguments expected", exprString(n.Fun), len(kinds))
	}
	out := make([]string, len(kinds))
	for i, a := range n.Args {
		v := c.expr(a, pre)
		if kinds[i] == "region" {
			out[i] = asReg(v)
			continue
		}
		if v.kind != kinds[i] {
			refuse("%s: argument %d is a %s, expected a %s", exprString(n.Fun), i+1, v.kind, kinds[i])
		}
		out[i] = v.term
	}
	return out
}

func (c *kctx) call(n *ast.CallExpr, pre *[]kbind) kv {
	if c.ext != nil && c.ext.call != nil {
		if v, ok := c.ext.call(c, n, pre); ok {
			return v
		}
	}
	// calls of variables: a locator, a function variable
	if id, ok := n.Fun.(*ast.Ident); ok {
		if v, isVar := c.vars[id.Name]; isVar {
			switch v.kind {
			case "locator":
				a := c.args(n, []string{"seq"}, pre)
				if !c.local[id.Name] {
					c.f.use(v.term)
				}
				return kv{kind: "regs", term: fmt.Sprintf("(%s %s)", v.term, a[0])}
			case "fn3":
				a := strings.Join(c.args(n, v.fnSig, pre), " ")
				if v.fnFlag == "" {
					return kv{kind: "seq", term: fmt.Sprintf("(%s %s)", v.fnElse, a)}
				}
				return kv{kind: "seq", term: fmt.Sprintf("(if %s then %s %s else %s %s)", c.f.use(v.fnFlag), v.fnThen, a, v.fnElse, a)}
			}
			refuse("call of the variable %s (a %s)", id.Name, v.kind)
		}
	}
	if pkg, name, ok := c.pkgName(n.Fun); ok {
		switch {
		case pkg == "" && name == "len" && len(n.Args) == 1:
			v := c.expr(n.Args[0], pre)
			if _, isList := kElem[v.kind]; !isList && v.kind != "intset" && v.kind != "bytes" {
				refuse("len of a %s", v.kind)
			}
			return kv{kind: "int", term: "(" + v.term + ".length : Int)"}
		case pkg == "" && name == "int" && len(n.Args) == 1:
			return kv{kind: "int", term: c.intOf(n.Args[0], pre)}
		case pkg == "" && name == "make":
			return c.makeCall(n, pre)
		case pkg == "" && name == "append":
			if len(n.Args) != 2 || n.Ellipsis.IsValid() {
				refuse("append with %d arguments / an ellipsis", len(n.Args))
			}
			l := c.expr(n.Args[0], pre)
			ek, isList := kElem[l.kind]
			if !isList {
				refuse("append to a %s", l.kind)
			}
			v := c.expr(n.Args[1], pre)
			el := v.term
			if ek == "reg" {
				el = asReg(v)
			} else if v.kind != ek {
				refuse("append of a %s to a %s", v.kind, l.kind)
			}
			return kv{kind: l.kind, term: fmt.Sprintf("(%s ++ [%s])", l.term, el)}
		case pkg == "reflect" && name == "DeepEqual" && len(n.Args) == 2:
			a, b := c.expr(n.Args[0], pre), c.expr(n.Args[1], pre)
			if a.kind != "reg" || b.kind != "reg" {
				refuse("reflect.DeepEqual of a %s and a %s", a.kind, b.kind)
			}
			return kv{kind: "prop", term: fmt.Sprintf("(Gts.Reg.beq %s %s = true)", a.term, b.term)}
		case (pkg == "gts" || pkg == "") && (name == "Sequence" || name == "Copy") && len(n.Args) == 1:
			if name == "Copy" {
				c.fact("copy")
			}
			return kv{kind: "seq", term: c.kindOf(n.Args[0], pre, "seq")}
		case (pkg == "gts" || pkg == "") && name == "Regions" && len(n.Args) == 1:
			return kv{kind: "regs", term: c.kindOf(n.Args[0], pre, "regs")}
		case (pkg == "gts" || pkg == "") && name == "WithTopology" && len(n.Args) == 2:
			s := c.kindOf(n.Args[0], pre, "seq")
			t := c.expr(n.Args[1], pre)
			if t.kind != "topconst" {
				refuse("gts.WithTopology: the topology is not a constant")
			}
			c.fact("withTopology " + t.term)
			return kv{kind: "seq", term: s}
		case pkg == "gts" || pkg == "":
			if known, isKnown := c.f.known[name]; isKnown && pkg == "" {
				a := c.args(n, known.params, pre)
				head := known.lean
				for _, g := range known.fn.usedGlobals() {
					head += " " + c.f.use(g.name)
				}
				return kv{kind: known.result, term: c.effect(pre, head+" "+strings.Join(a, " "))}
			}
			if fn, isFn := kGtsFns[name]; isFn {
				a := c.args(n, fn.params, pre)
				return kv{kind: fn.result, term: fmt.Sprintf("(%s %s)", fn.lean, strings.Join(a, " "))}
			}
		}
		if pkg != "" || !isMethodCall(n) {
			refuse("call %s", exprString(n.Fun))
		}
	}
	// methods on values
	sel, ok := n.Fun.(*ast.SelectorExpr)
	if !ok {
		refuse("call %s", exprString(n.Fun))
	}
	recv := c.expr(sel.X, pre)
	m := sel.Sel.Name
	switch recv.kind {
	case "reg", "regs", "seg":
		r := asReg(recv)
		switch m {
		case "Head", "Tail", "Len":
			c.args(n, nil, pre)
			return kv{kind: "int", term: fmt.Sprintf("(Gts.Reg.%s %s)", strings.ToLower(m), r)}
		case "Locate":
			a := c.args(n, []string{"seq"}, pre)
			return kv{kind: "seq", term: fmt.Sprintf("(Gts.Reg.locate %s %s)", r, a[0])}
		case "Resize":
			a := c.args(n, []string{"mod"}, pre)
			return kv{kind: "reg", term: fmt.Sprintf("(Gts.Reg.resize %s %s)", r, a[0])}
		}
	case "seq":
		if m == "Features" {
			c.args(n, nil, pre)
			return kv{kind: "feats", term: recv.term + ".feats"}
		}
	case "feats":
		if m == "Filter" {
			a := c.args(n, []string{"filter"}, pre)
			return kv{kind: "feats", term: fmt.Sprintf("(List.filter %s %s)", a[0], recv.term)}
		}
	case "loc":
		if m == "Region" {
			c.args(n, nil, pre)
			return kv{kind: "reg", term: fmt.Sprintf("(Gts.Loc.region %s)", recv.term)}
		}
	}
	refuse("method %s on a %s", m, recv.kind)
	return kv{}
}

func isMethodCall(n *ast.CallExpr) bool {
	_, ok := n.Fun.(*ast.SelectorExpr)
	return ok
}

func (c *kctx) makeCall(n *ast.CallExpr, pre *[]kbind) kv {
	if mt, isMap := n.Args[0].(*ast.MapType); isMap {
		if len(n.Args) == 1 && exprString(mt.Key) == "int" {
			if it, ok := mt.Value.(*ast.InterfaceType); ok && len(it.Methods.List) == 0 {
				return kv{kind: "intset", term: "[]"}
			}
		}
		refuse("make of a map other than map[int]interface{}")
	}
	if len(n.Args) != 2 {
		refuse("make with %d arguments", len(n.Args))
	}
	var ek string
	switch t := n.Args[0].(type) {
	case *ast.ArrayType:
		if t.Len == nil {
			ek = typeKind(t.Elt)
		}
	default:
		if s := exprString(n.Args[0]); s == "Regions" || s == "gts.Regions" {
			ek = "reg"
		}
	}
	lk := map[string]string{"int": "ints", "reg": "regs"}[ek]
	if lk == "" {
		refuse("make of %s", exprString(n.Args[0]))
	}
	cnt := c.intOf(n.Args[1], pre)
	return kv{kind: lk, term: c.effect(pre, fmt.Sprintf("clMake %s %s", kLean[ek], cnt))}
}
