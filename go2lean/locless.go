package main

// Generator for `LocationLess` (location.go), the order behind `Locations.Less`, `FeatureSlice.Less`,
// the sorted insertion of C19 and the grouping sort of `Repair` (C12).
//
// The function is translated STATEMENT BY STATEMENT, in the order of the Go source, by the
// expression / statement translator of arith.go extended (hooks `ext` and `callExt`, this file
// only) by what the function needs beyond the integer subset:
//
//   - `if X, ok := P.(T); ok { … }` (the body returns on every path) and `X, ok := P.(T)`, for the
//     dynamic type tests
//     Complemented        `match P with | .compl X_Location => … | _ => …`
//     locationSlice       `match asLocationSlice P with | some X => … | none => …`   (if-form only)
//     contiguousLocation  `X := (asContiguous P).1` (the span), `ok := (asContiguous P).2`
//     Ranged              the four fields and `ok` from `asRanged P`; a failed assertion yields
//     Go's zero value `Ranged{0, 0, Partial{false, false}}` exactly
//     `asLocationSlice`, `asContiguous`, `asRanged` are generated from the method sets: the kinds
//     with a `slice` method that returns its receiver (checked: exactly Joined and Ordered), the
//     kinds with a `span` method (checked: exactly the four contiguous kinds; the methods are the
//     translations of Gts/Gen/Arith.lean), the declarations of the two interfaces and of the structs
//     `Ranged` / `Partial` are compared with the expected text.
//     ASSUMED READING: `X, ok := P.(contiguousLocation)` leaves the nil interface in X when the
//     test fails and `X.span()` on it would be a Go panic; here the span is then `(0, 0)` (the
//     bridge never reads it: the source calls `span()` under `lok && rok` only).
//   - `X.slice()` on a locationSlice value: the list; `X.span()` (two results) on a
//     contiguousLocation value; `C.Location` on a Complemented value.
//   - `for _, L := range <list> { body }` whose body leaves by `return`: a recursive helper over the
//     list with result `Option Bool` — `some v` for `return v`, `none` when the loop falls through —
//     followed by `match … with | some r_ => r_ | none => <the statements after the loop>`.  Such a
//     loop must not assign variables declared outside it; nested loops, `break`, `continue` are
//     refused.
//   - `if X := E; cond { … }`: the init statement in front of the `if` (refused when X shadows).
//   - the RECURSION: a call `LocationLess(x, y)` is a call of the parameter `self_` of the generated
//     `locationLessBody`; `locationLess : Nat → Loc → Loc → Bool` ties the knot with an explicit
//     fuel (`| 0 => false`, `| fuel + 1 => locationLessBody (locationLess fuel)`).  The bridge
//     proves the result for EVERY fuel above the summed size of the two locations (so: the Go
//     recursion terminates, and with what).
//
// Anything else is refused.

import (
	"fmt"
	"go/ast"
	"go/parser"
	"go/token"
	"path/filepath"
	"strings"
)

func init() {
	// Lean types of the values this file adds to the translator
	leanType["locs"] = "List Gts.Loc"
	leanType["contig"] = "Int × Int"
}

var lessReserved = map[string]bool{"self_": true, "rest_": true, "r_": true, "fuel": true, "default": true,
	"asLocationSlice": true, "asContiguous": true, "asRanged": true, "some": true, "none": true}

type lessCtx struct {
	base    string   // name of the generated definition
	goName  string   // the Go function (self calls)
	what    string   // for doc comments
	helpers []string // generated loop helpers, in source order
	inLoop  bool
	order   []string // variables in order of declaration (binders of the helpers)
}

func (c *lessCtx) declare(e *env, name string, v val) {
	if lessReserved[name] || strings.HasPrefix(name, c.base) {
		refuse("variable name %s is reserved by the generator", name)
	}
	if _, shadow := e.vars[name]; shadow {
		refuse("%s is declared twice (shadowing is outside the subset)", name)
	}
	e.vars[name] = v
	for _, o := range c.order {
		if o == name {
			return
		}
	}
	c.order = append(c.order, name)
}

// commaOkAssert: `X, OK := P.(T)` with T a plain type name
func commaOkAssert(s ast.Stmt) (x, okv string, subj ast.Expr, typ string, is bool) {
	as, ok := s.(*ast.AssignStmt)
	if !ok || as.Tok != token.DEFINE || len(as.Lhs) != 2 || len(as.Rhs) != 1 {
		return
	}
	ta, ok := as.Rhs[0].(*ast.TypeAssertExpr)
	if !ok || ta.Type == nil {
		return
	}
	x, okv, typ = identName(as.Lhs[0]), identName(as.Lhs[1]), identName(ta.Type)
	if x == "" || okv == "" || okv == "_" || typ == "" {
		refuse("type assertion `%s`", exprString(as.Rhs[0]))
	}
	return x, okv, ta.X, typ, true
}

// the let-form of a comma-ok assertion (contiguousLocation, Ranged): binds X and OK in e
func (c *lessCtx) assertLets(e *env, x, okv string, subj ast.Expr, typ string) string {
	sv := e.expr(subj)
	if sv.typ != "loc" {
		refuse("type assertion on a %s", sv.typ)
	}
	var lets []string
	switch typ {
	case "contiguousLocation":
		call := "(asContiguous " + sv.expr + ")"
		if x != "_" {
			c.declare(e, x, val{typ: "contig", expr: x})
			lets = append(lets, fmt.Sprintf("let %s : Int × Int := %s.1;", x, call))
		}
		c.declare(e, okv, val{typ: "bool", expr: okv})
		lets = append(lets, fmt.Sprintf("let %s : Bool := %s.2;", okv, call))
	case "Ranged":
		call := "(asRanged " + sv.expr + ")"
		if x != "_" {
			rv := structVar("Ranged", x)
			c.declare(e, x, rv)
			for i, l := range flat(rv) {
				lets = append(lets, fmt.Sprintf("let %s : %s := %s%s;", l.expr, leanType[l.typ], call, projOf(i, 5)))
			}
		}
		c.declare(e, okv, val{typ: "bool", expr: okv})
		lets = append(lets, fmt.Sprintf("let %s : Bool := %s%s;", okv, call, projOf(4, 5)))
	default:
		refuse("`%s, %s := ….(%s)`: only contiguousLocation and Ranged have a value when the test fails", x, okv, typ)
	}
	return strings.Join(lets, "\n  ")
}

// projOf: the i-th of m components of a right-nested tuple
func projOf(i, m int) string {
	s := ""
	for j := 0; j < i; j++ {
		s += ".2"
	}
	if i < m-1 {
		s += ".1"
	}
	return s
}

func (c *lessCtx) helperName() string {
	if len(c.helpers) == 0 {
		return c.base + "Loop"
	}
	return fmt.Sprintf("%sLoop%d", c.base, len(c.helpers)+1)
}

// binders of the variables of e read below node (declaration order), and the arguments to pass
func (c *lessCtx) fixed(e *env, node ast.Node, exclude map[string]bool) (decls, args []string) {
	used := map[string]bool{}
	ast.Inspect(node, func(x ast.Node) bool {
		if id, ok := x.(*ast.Ident); ok {
			if _, isVar := e.vars[id.Name]; isVar && !exclude[id.Name] {
				used[id.Name] = true
			}
		}
		return true
	})
	seen := map[string]bool{}
	for _, n := range c.order {
		if !used[n] {
			continue
		}
		v := e.vars[n]
		leaves := flat(v)
		if v.fields == nil {
			leaves = []val{v}
		}
		for _, l := range leaves {
			t, ok := leanType[l.typ]
			if !ok || !isVarName(l.expr) {
				refuse("variable %s (%s) cannot be passed to a loop helper", n, l.typ)
			}
			if seen[l.expr] {
				continue
			}
			seen[l.expr] = true
			decls = append(decls, fmt.Sprintf("(%s : %s)", l.expr, t))
			args = append(args, l.expr)
		}
	}
	return
}

func (c *lessCtx) hook(e *env, stmts []ast.Stmt, k func(en *env) string) (string, bool) {
	s, rest := stmts[0], stmts[1:]
	switch n := s.(type) {
	case *ast.ReturnStmt:
		if c.inLoop {
			// leaving the loop (and the function) from inside the loop body
			c.inLoop = false
			v := e.blockK(stmts, nil)
			c.inLoop = true
			return "some (" + v + ")", true
		}
	case *ast.AssignStmt:
		if x, okv, subj, typ, is := commaOkAssert(n); is {
			lets := c.assertLets(e, x, okv, subj, typ)
			return lets + "\n  " + e.blockK(rest, k), true
		}
		if n.Tok == token.DEFINE && len(n.Lhs) == 2 && len(n.Rhs) == 1 {
			// `s, e := X.span()` on a contiguousLocation value
			if call, ok := n.Rhs[0].(*ast.CallExpr); ok && len(call.Args) == 0 {
				if sel, ok := call.Fun.(*ast.SelectorExpr); ok && sel.Sel.Name == "span" {
					recv := e.expr(sel.X)
					if recv.typ != "contig" {
						refuse("span() on a %s", recv.typ)
					}
					var lets []string
					for i, l := range n.Lhs {
						nm := identName(l)
						if nm == "" {
							refuse("assignment target %T", l)
						}
						if nm == "_" {
							continue
						}
						c.declare(e, nm, val{typ: "int", expr: nm})
						lets = append(lets, fmt.Sprintf("let %s : Int := %s.%d;", nm, recv.expr, i+1))
					}
					return strings.Join(lets, "\n  ") + "\n  " + e.blockK(rest, k), true
				}
			}
		}
		if n.Tok == token.DEFINE {
			// plain definitions: remember the declaration order (binders of the loop helpers)
			for _, l := range n.Lhs {
				if nm := identName(l); nm != "" && nm != "_" {
					if lessReserved[nm] || strings.HasPrefix(nm, c.base) {
						refuse("variable name %s is reserved by the generator", nm)
					}
					if _, shadow := e.vars[nm]; shadow {
						refuse("%s is declared twice (shadowing is outside the subset)", nm)
					}
					c.order = append(c.order, nm)
				}
			}
		}
	case *ast.IfStmt:
		if n.Init != nil {
			if x, okv, subj, typ, is := commaOkAssert(n.Init); is {
				if identName(n.Cond) != okv || n.Else != nil {
					refuse("`if %s, %s := ….(%s); …`: the condition is not `%s` alone (or there is an else)", x, okv, typ, okv)
				}
				return c.assertIf(e, x, okv, subj, typ, n.Body.List, rest, k), true
			}
			as, ok := n.Init.(*ast.AssignStmt)
			if !ok || as.Tok != token.DEFINE || len(as.Lhs) != 1 || len(as.Rhs) != 1 || identName(as.Lhs[0]) == "" {
				refuse("if with an init statement that is not `x := e`")
			}
			if _, shadow := e.vars[identName(as.Lhs[0])]; shadow {
				refuse("if-init `%s := …` shadows a variable", identName(as.Lhs[0]))
			}
			n2 := *n
			n2.Init = nil
			return e.blockK(append([]ast.Stmt{as, &n2}, rest...), k), true
		}
		if c.inLoop && k != nil && n.Else == nil && returns(n.Body.List) {
			cond := asProp(e.expr(n.Cond))
			thenS := e.clone().blockK(n.Body.List, nil)
			elseS := e.clone().blockK(rest, k)
			return fmt.Sprintf("if %s then\n  (%s)\n  else\n  (%s)", cond, thenS, elseS), true
		}
	case *ast.RangeStmt:
		return c.rangeLoop(e, n, rest, k), true
	}
	return "", false
}

// `if X, ok := P.(T); ok { body }` followed by rest; the body returns on every path
func (c *lessCtx) assertIf(e *env, x, okv string, subj ast.Expr, typ string, body, rest []ast.Stmt, k func(en *env) string) string {
	if !returns(body) {
		refuse("`if %s, %s := ….(%s); %s {…}`: the body does not return on every path", x, okv, typ, okv)
	}
	if k != nil && !c.inLoop {
		refuse("return inside a conditional block that does not always return")
	}
	sv := e.expr(subj)
	if sv.typ != "loc" {
		refuse("type assertion on a %s", sv.typ)
	}
	switch typ {
	case "Complemented":
		en := e.clone()
		pat := "_"
		if x != "_" {
			pat = x + "_Location"
			c.declare(en, x, val{typ: "Complemented", fields: map[string]val{"Location": {typ: "loc", expr: pat}}})
		}
		thenS := en.blockK(body, nil)
		elseS := e.clone().blockK(rest, k)
		return fmt.Sprintf("match %s with\n  | .compl %s =>\n  (%s)\n  | _ =>\n  (%s)", sv.expr, pat, thenS, elseS)
	case "locationSlice":
		en := e.clone()
		pat := "_"
		if x != "_" {
			pat = x
			c.declare(en, x, val{typ: "locationSlice", expr: x})
		}
		thenS := en.blockK(body, nil)
		elseS := e.clone().blockK(rest, k)
		return fmt.Sprintf("match asLocationSlice %s with\n  | some %s =>\n  (%s)\n  | none =>\n  (%s)", sv.expr, pat, thenS, elseS)
	case "contiguousLocation", "Ranged":
		en := e.clone()
		lets := c.assertLets(en, x, okv, subj, typ)
		thenS := en.blockK(body, nil)
		elseS := e.clone().blockK(rest, k)
		return fmt.Sprintf("%s\n  if (%s = true) then\n  (%s)\n  else\n  (%s)", lets, okv, thenS, elseS)
	}
	refuse("type assertion to %s", typ)
	return ""
}

// `for _, L := range <list of locations> { body }`, the body leaving by `return`
func (c *lessCtx) rangeLoop(e *env, n *ast.RangeStmt, rest []ast.Stmt, k func(en *env) string) string {
	if c.inLoop {
		refuse("nested loop")
	}
	if k != nil {
		refuse("loop inside a conditional block that does not return")
	}
	if n.Tok != token.DEFINE || (n.Key != nil && identName(n.Key) != "_") {
		refuse("range loop with an index variable")
	}
	value := identName(n.Value)
	if value == "" || value == "_" {
		refuse("range loop without an element variable")
	}
	src := e.expr(n.X)
	if src.typ != "locs" {
		refuse("range over a %s", src.typ)
	}
	// no state: the loop only decides whether (and with what) the function returns
	ast.Inspect(n.Body, func(x ast.Node) bool {
		switch a := x.(type) {
		case *ast.AssignStmt:
			if a.Tok != token.DEFINE {
				refuse("the loop body assigns a variable (loops with state and early return are outside the subset)")
			}
		case *ast.IncDecStmt:
			refuse("the loop body assigns a variable (loops with state and early return are outside the subset)")
		}
		return true
	})
	name := c.helperName()
	c.helpers = append(c.helpers, "") // reserve the name (and the position) before translating the body
	slot := len(c.helpers) - 1
	en := e.clone()
	c.declare(en, value, val{typ: "loc", expr: value})
	fdecls, fargs := c.fixed(e, n.Body, map[string]bool{value: true})
	pre := strings.TrimSpace(name + " self_ " + strings.Join(fargs, " "))
	rt := leanType[e.results[0]]
	c.inLoop = true
	body := en.blockK(n.Body.List, func(*env) string { return pre + " rest_" })
	c.inLoop = false
	h := strings.Builder{}
	fmt.Fprintf(&h, "/-- %s: the loop `for _, %s := range %s` as a recursion over the list: `some v` when the body\nleaves by `return v`, `none` when the loop falls through -/\n",
		c.what, value, strings.ReplaceAll(exprString(n.X), "-/", "- /"))
	fmt.Fprintf(&h, "def %s (self_ : Gts.Loc → Gts.Loc → Bool) %s: List Gts.Loc → Option %s\n", name, joinSp(fdecls), rt)
	fmt.Fprintf(&h, "  | [] => none\n  | %s :: rest_ =>\n    %s\n\n", value, indent(body, "  "))
	c.helpers[slot] = h.String()
	after := e.blockK(rest, nil)
	return fmt.Sprintf("match %s %s with\n  | some r_ => r_\n  | none =>\n  (%s)", pre, src.expr, after)
}

// calls beyond the integer subset
func (c *lessCtx) call(e *env, n *ast.CallExpr) (val, bool) {
	if identName(n.Fun) == c.goName {
		if len(n.Args) != 2 {
			refuse("call of %s with %d arguments", c.goName, len(n.Args))
		}
		var args []string
		for _, a := range n.Args {
			v := e.expr(a)
			if v.typ != "loc" {
				refuse("%s called on a %s", c.goName, v.typ)
			}
			args = append(args, v.expr)
		}
		return val{typ: "bool", expr: "(self_ " + strings.Join(args, " ") + ")"}, true
	}
	if sel, ok := n.Fun.(*ast.SelectorExpr); ok && sel.Sel.Name == "slice" && len(n.Args) == 0 {
		recv := e.expr(sel.X)
		if recv.typ != "locationSlice" {
			refuse("slice() on a %s", recv.typ)
		}
		return val{typ: "locs", expr: recv.expr}, true
	}
	return val{}, false
}

// ---- the facts behind the type tests ---------------------------------------------------------------

var locKinds = []string{"Between", "Point", "Ranged", "Ambiguous", "Joined", "Ordered", "Complemented"}

// interfaceText: `Embedded; name(params) results` of an interface declaration
func interfaceText(af *ast.File, name string) string {
	for _, d := range af.Decls {
		gd, ok := d.(*ast.GenDecl)
		if !ok || gd.Tok != token.TYPE {
			continue
		}
		for _, s := range gd.Specs {
			ts := s.(*ast.TypeSpec)
			it, ok := ts.Type.(*ast.InterfaceType)
			if ts.Name.Name != name || !ok {
				continue
			}
			var parts []string
			for _, m := range it.Methods.List {
				if len(m.Names) == 0 {
					parts = append(parts, exprString(m.Type))
					continue
				}
				ft, ok := m.Type.(*ast.FuncType)
				if !ok {
					return "?"
				}
				var ps, rs []string
				if ft.Params != nil {
					for _, p := range ft.Params.List {
						ps = append(ps, exprString(p.Type))
					}
				}
				if ft.Results != nil {
					for _, r := range ft.Results.List {
						rs = append(rs, exprString(r.Type))
					}
				}
				parts = append(parts, m.Names[0].Name+"("+strings.Join(ps, ",")+")("+strings.Join(rs, ",")+")")
			}
			return strings.Join(parts, "; ")
		}
	}
	return ""
}

// structText: `Field Type; …` of a struct declaration
func structText(af *ast.File, name string) string {
	for _, d := range af.Decls {
		gd, ok := d.(*ast.GenDecl)
		if !ok || gd.Tok != token.TYPE {
			continue
		}
		for _, s := range gd.Specs {
			ts := s.(*ast.TypeSpec)
			st, ok := ts.Type.(*ast.StructType)
			if ts.Name.Name != name || !ok {
				continue
			}
			var parts []string
			for _, f := range st.Fields.List {
				if len(f.Names) == 0 {
					parts = append(parts, exprString(f.Type))
				}
				for _, n := range f.Names {
					parts = append(parts, n.Name+" "+exprString(f.Type))
				}
			}
			return strings.Join(parts, "; ")
		}
	}
	return ""
}

// kindsWith: the location kinds that have a method of the given name, in the order of locKinds
func kindsWith(af *ast.File, method string) []string {
	var out []string
	for _, k := range locKinds {
		if findMethod(af, k, method) != nil {
			out = append(out, k)
		}
	}
	return out
}

// typeTestPrelude checks the method sets / declarations behind the dynamic type tests and returns the
// generated `asLocationSlice`, `asContiguous`, `asRanged`
func typeTestPrelude(repo string, af *ast.File) string {
	// no other file of the package gives a type a `slice` / `span` method (it would change what the
	// type tests `.(locationSlice)` / `.(contiguousLocation)` accept)
	if files, err := filepath.Glob(filepath.Join(repo, "*.go")); err == nil {
		for _, f := range files {
			if strings.HasSuffix(f, "_test.go") || filepath.Base(f) == "location.go" {
				continue
			}
			of, perr := parser.ParseFile(token.NewFileSet(), f, nil, 0)
			if perr != nil {
				refuse("%s: %v", filepath.Base(f), perr)
			}
			for _, d := range of.Decls {
				if fd, ok := d.(*ast.FuncDecl); ok && fd.Recv != nil && (fd.Name.Name == "slice" || fd.Name.Name == "span") {
					refuse("%s declares a method %s: the method sets behind the type tests are not the ones of location.go", filepath.Base(f), fd.Name.Name)
				}
			}
		}
	}
	have := map[string]string{}
	for _, f := range arithFns {
		have[f.recv+"."+f.name] = f.lean
	}
	if got := interfaceText(af, "locationSlice"); got != "Location; slice()([]Location)" {
		refuse("location.go: interface locationSlice is %q", got)
	}
	if got := interfaceText(af, "contiguousLocation"); got != "Location; span()(int,int)" {
		refuse("location.go: interface contiguousLocation is %q", got)
	}
	if got := structText(af, "Ranged"); got != "Start int; End int; Partial Partial" {
		refuse("location.go: struct Ranged is %q", got)
	}
	if got := structText(af, "Partial"); got != "Partial5 bool; Partial3 bool" {
		refuse("location.go: struct Partial is %q", got)
	}
	if got := structText(af, "Complemented"); got != "Location Location" {
		refuse("location.go: struct Complemented is %q", got)
	}
	if got := strings.Join(kindsWith(af, "slice"), ","); got != "Joined,Ordered" {
		refuse("location.go: the kinds with a slice method are %s, expected Joined,Ordered", got)
	}
	if got := strings.Join(kindsWith(af, "span"), ","); got != "Between,Point,Ranged,Ambiguous" {
		refuse("location.go: the kinds with a span method are %s, expected the four contiguous kinds", got)
	}
	for _, k := range []string{"Joined", "Ordered"} {
		fd := findMethod(af, k, "slice")
		if len(fd.Body.List) != 1 || len(fd.Recv.List[0].Names) != 1 {
			refuse("%s.slice: not a single return", k)
		}
		rs, ok := fd.Body.List[0].(*ast.ReturnStmt)
		if !ok || len(rs.Results) != 1 || identName(rs.Results[0]) != fd.Recv.List[0].Names[0].Name {
			refuse("%s.slice does not return its receiver", k)
		}
	}
	for _, k := range []string{"Between", "Point", "Ranged", "Ambiguous"} {
		if have[k+".span"] == "" {
			refuse("%s.span is not translated", k)
		}
	}
	b := strings.Builder{}
	b.WriteString("/-- the dynamic type test `x.(locationSlice)` with `.slice()` of the result: exactly `Joined` and `Ordered`\nhave a `slice` method, and it returns the receiver -/\n")
	b.WriteString("def asLocationSlice : Gts.Loc → Option (List Gts.Loc)\n  | .joined ls => some ls\n  | .ordered ls => some ls\n  | _ => none\n\n")
	b.WriteString("/-- the dynamic type test `x, ok := v.(contiguousLocation)`: `(x.span(), ok)`; exactly the four contiguous\nkinds have a `span` method.  When the test fails Go leaves the nil interface in `x` (calling `span()` on it\nwould panic); here the span is then `(0, 0)` -/\n")
	b.WriteString("def asContiguous : Gts.Loc → (Int × Int) × Bool\n")
	fmt.Fprintf(&b, "  | .between p => (%s p, true)\n  | .point p => (%s p, true)\n", have["Between.span"], have["Point.span"])
	fmt.Fprintf(&b, "  | .ranged s e p5 p3 => (%s s e p5 p3, true)\n  | .ambiguous s e => (%s s e, true)\n  | _ => ((0, 0), false)\n\n", have["Ranged.span"], have["Ambiguous.span"])
	b.WriteString("/-- the dynamic type test `x, ok := v.(Ranged)`: `(x.Start, x.End, x.Partial.Partial5, x.Partial.Partial3, ok)`;\nwhen the test fails `x` is Go's zero value `Ranged{0, 0, Partial{false, false}}` -/\n")
	b.WriteString("def asRanged : Gts.Loc → Int × Int × Bool × Bool × Bool\n  | .ranged s e p5 p3 => (s, e, p5, p3, true)\n  | _ => (0, 0, false, false, false)\n\n")
	return b.String()
}

// checkReserved: no identifier of the function is one of the generator's own names
func checkReserved(fd *ast.FuncDecl, base string) {
	ast.Inspect(fd, func(x ast.Node) bool {
		if id, ok := x.(*ast.Ident); ok && id.Name != fd.Name.Name && (lessReserved[id.Name] || strings.HasPrefix(id.Name, base)) {
			refuse("%s: the identifier %s is reserved by the generator", fd.Name.Name, id.Name)
		}
		return true
	})
}

func genLocLess(repo string) (text string, err error) {
	defer recoverRefusal(&err)
	fset := token.NewFileSet()
	af, perr := parser.ParseFile(fset, filepath.Join(repo, "location.go"), nil, 0)
	if perr != nil {
		return "", perr
	}
	prelude := typeTestPrelude(repo, af)
	fd := findFunc(af, "LocationLess")
	if fd == nil || fd.Body == nil {
		refuse("location.go: LocationLess not found")
	}
	normalise(fd)
	checkReserved(fd, "locationLess")
	wantResults(fd, "LocationLess", "bool")
	var params []string
	for _, p := range fd.Type.Params.List {
		if identName(p.Type) != "Location" {
			refuse("LocationLess: parameter type")
		}
		for _, n := range p.Names {
			params = append(params, n.Name)
		}
	}
	if len(params) != 2 || params[0] == params[1] || params[0] == "_" || params[1] == "_" {
		refuse("LocationLess: expected two Location parameters")
	}
	fns := map[string]arithFn{}
	for _, f := range arithFns {
		if f.group() == "" {
			fns[f.recv+"."+f.name] = f
		}
	}
	c := &lessCtx{base: "locationLess", goName: "LocationLess", what: "location.go `LocationLess`"}
	e := &env{vars: map[string]val{}, fns: fns, results: []string{"bool"}}
	e.ext, e.callExt = c.hook, c.call
	for _, p := range params {
		c.declare(e, p, val{typ: "loc", expr: p})
	}
	body := func() (s string) {
		defer func() {
			if r := recover(); r != nil {
				if rf, ok := r.(refusal); ok {
					panic(refusal{"location.go LocationLess: " + rf.msg})
				}
				panic(r)
			}
		}()
		desugar(fd.Body.List)
		return e.blockK(fd.Body.List, nil)
	}()
	b := strings.Builder{}
	b.WriteString("/-\n  GENERATED by go2lean (locless.go) from location.go — do not edit.\n")
	b.WriteString("  `LocationLess`, statement by statement in the order of the Go source; the recursive calls go through\n  the parameter `self_`, `locationLess` ties the knot with an explicit fuel.\n  (how the Go is read: the header comment of go2lean/locless.go)\n-/\n")
	b.WriteString("import Gts.Gen.Arith\nnamespace Gts.Gen\nset_option linter.unusedVariables false\n\n")
	b.WriteString(prelude)
	for _, h := range c.helpers {
		b.WriteString(h)
	}
	fmt.Fprintf(&b, "/-- location.go `LocationLess(%s, %s)`: the body, with `self_` for the function itself -/\n", params[0], params[1])
	fmt.Fprintf(&b, "def locationLessBody (self_ : Gts.Loc → Gts.Loc → Bool) (%s : Gts.Loc) (%s : Gts.Loc) : Bool :=\n  %s\n\n", params[0], params[1], body)
	b.WriteString("/-- location.go `LocationLess` (calls itself: fuel; out of fuel yields `false`) -/\n")
	b.WriteString("def locationLess : Nat → Gts.Loc → Gts.Loc → Bool\n  | 0, _, _ => false\n")
	fmt.Fprintf(&b, "  | fuel + 1, %s, %s => locationLessBody (locationLess fuel) %s %s\n\n", params[0], params[1], params[0], params[1])
	b.WriteString("end Gts.Gen\n")
	return b.String(), nil
}
