package main

// Generators of the seqio WRITER side (translator: gwriter.go):
//
//	Gts/Gen/GoStrings.lean     fixed prelude: how the string operations of Go are read
//	Gts/Gen/InsdcWrite.lean    seqio/insdc.go   GetQualifierType, QualifierIO.String, QualifierFormatter.String,
//	                                            INSDCFormatter.String, the initial qualifier-name lists      (C01)

import (
	"fmt"
	"go/ast"
	"go/token"
	"strings"
)

// ---- statement shapes that are checked, not translated -------------------------------------------------

func (m *wmod) funcOf(pkg, key string) (*wpkg, *ast.FuncDecl) {
	p := m.w.pkgs[pkg]
	fd := p.funcs[key]
	if fd == nil || fd.Body == nil {
		refuse("%s.%s not found", pkg, key)
	}
	return p, fd
}

func wParamNames(fd *ast.FuncDecl) []string {
	var out []string
	for _, fl := range fd.Type.Params.List {
		for _, n := range fl.Names {
			out = append(out, n.Name)
		}
	}
	return out
}

// checkRange: gts.Range(a, b) is PartialRange(a, b, Complete), which panics for end <= start and is
// Ranged{start, end, partial} otherwise; Complete is Partial{false, false}
func (m *wmod) checkRange() {
	if m.checked["gts.Range"] {
		return
	}
	m.checked["gts.Range"] = true
	p, fd := m.funcOf("gts", "Range")
	ps := wParamNames(fd)
	if len(ps) != 2 || len(fd.Body.List) != 1 {
		refuse("location.go: gts.Range is not `return PartialRange(start, end, Complete)`")
	}
	ret, ok := fd.Body.List[0].(*ast.ReturnStmt)
	if !ok || len(ret.Results) != 1 || exprString(ret.Results[0]) != fmt.Sprintf("PartialRange(%s, %s, Complete)", ps[0], ps[1]) {
		refuse("location.go: gts.Range is not `return PartialRange(start, end, Complete)`")
	}
	_, pr := m.funcOf("gts", "PartialRange")
	qs := wParamNames(pr)
	bad := func() {
		refuse("location.go: PartialRange is not `if end <= start { panic(…) }; return Ranged{start, end, partial}`")
	}
	if len(qs) != 3 || len(pr.Body.List) != 2 {
		bad()
	}
	is, ok := pr.Body.List[0].(*ast.IfStmt)
	if !ok || is.Init != nil || is.Else != nil || exprString(is.Cond) != qs[1]+" <= "+qs[0] || len(is.Body.List) != 1 {
		bad()
	}
	es, ok := is.Body.List[0].(*ast.ExprStmt)
	if !ok {
		bad()
	}
	if call, ok := es.X.(*ast.CallExpr); !ok || exprString(call.Fun) != "panic" {
		bad()
	}
	r2, ok := pr.Body.List[1].(*ast.ReturnStmt)
	if !ok || len(r2.Results) != 1 {
		bad()
	}
	cl, ok := r2.Results[0].(*ast.CompositeLit)
	if !ok || exprString(cl.Type) != "Ranged" || len(cl.Elts) != 3 || exprString(cl.Elts[0]) != qs[0] || exprString(cl.Elts[1]) != qs[1] || exprString(cl.Elts[2]) != qs[2] {
		bad()
	}
	fs, _ := m.w.structOf("gts.Ranged")
	if len(fs) != 3 || fs[0].name != "Start" || fs[1].name != "End" || fs[2].typ != "gts.Partial" {
		refuse("location.go: the struct Ranged is not {Start, End int; Partial Partial}")
	}
	// var Complete = Partial{false, false}
	found := false
	for _, f := range p.files {
		for _, d := range f.Decls {
			gd, ok := d.(*ast.GenDecl)
			if !ok || gd.Tok != token.VAR {
				continue
			}
			for _, s := range gd.Specs {
				vs := s.(*ast.ValueSpec)
				for i, nm := range vs.Names {
					if nm.Name == "Complete" {
						if vs.Type != nil || i >= len(vs.Values) {
							refuse("location.go: declaration of Complete outside the subset")
						}
						cl, ok := vs.Values[i].(*ast.CompositeLit)
						if !ok || exprString(cl.Type) != "Partial" || len(cl.Elts) != 2 || exprString(cl.Elts[0]) != "false" || exprString(cl.Elts[1]) != "false" {
							refuse("location.go: Complete is not Partial{false, false}")
						}
						found = true
					}
				}
			}
		}
	}
	if !found {
		refuse("location.go: Complete not found")
	}
}

// checkToTime: Date.ToTime is time.Date(d.Year, d.Month, d.Day, 0, 0, 0, 0, time.UTC)
func (m *wmod) checkToTime() {
	if m.checked["ToTime"] {
		return
	}
	m.checked["ToTime"] = true
	p, fd := m.funcOf("seqio", "Date.ToTime")
	p.checkImports(p.fileOf[fd])
	if len(fd.Recv.List[0].Names) != 1 || len(fd.Body.List) != 1 {
		refuse("date.go: Date.ToTime outside the subset")
	}
	r := fd.Recv.List[0].Names[0].Name
	ret, ok := fd.Body.List[0].(*ast.ReturnStmt)
	want := fmt.Sprintf("time.Date(%s.Year, %s.Month, %s.Day, 0, 0, 0, 0, time.UTC)", r, r, r)
	if !ok || len(ret.Results) != 1 || exprString(ret.Results[0]) != want {
		refuse("date.go: Date.ToTime is not `return %s`", want)
	}
	fs, _ := m.w.structOf("seqio.Date")
	if len(fs) != 3 || fs[0] != (wfield{"Year", "int"}) || fs[1] != (wfield{"Month", "time.Month"}) || fs[2] != (wfield{"Day", "int"}) {
		refuse("date.go: the struct Date is not {Year int; Month time.Month; Day int}")
	}
}

// checkWriteTo: `func (x T) WriteTo(w io.Writer) (int64, error) { n, err := io.WriteString(w, x.String()); return int64(n), err }`
func (m *wmod) checkWriteTo(p *wpkg, typ string) {
	key := typ + ".WriteTo"
	if m.checked[p.name+"."+key] {
		return
	}
	m.checked[p.name+"."+key] = true
	fd := p.funcs[key]
	bad := func() {
		refuse("%s.%s is not `n, err := io.WriteString(w, x.String()); return int64(n), err`", p.name, key)
	}
	if fd == nil || fd.Body == nil || len(fd.Recv.List[0].Names) != 1 || len(fd.Body.List) != 2 {
		bad()
	}
	p.checkImports(p.fileOf[fd])
	r := fd.Recv.List[0].Names[0].Name
	ps := wParamNames(fd)
	if len(ps) != 1 || exprString(fd.Type.Params.List[0].Type) != "io.Writer" {
		bad()
	}
	as, ok := fd.Body.List[0].(*ast.AssignStmt)
	if !ok || as.Tok != token.DEFINE || len(as.Lhs) != 2 || len(as.Rhs) != 1 {
		bad()
	}
	n, e := exprString(as.Lhs[0]), exprString(as.Lhs[1])
	if exprString(as.Rhs[0]) != fmt.Sprintf("io.WriteString(%s, %s.String())", ps[0], r) || n == "_" || e == "_" || n == e {
		bad()
	}
	ret, ok := fd.Body.List[1].(*ast.ReturnStmt)
	if !ok || len(ret.Results) != 2 || exprString(ret.Results[0]) != "int64("+n+")" || exprString(ret.Results[1]) != e {
		bad()
	}
}

// ---- the prelude ---------------------------------------------------------------------------------------------

func genGoStrings(repo string) (string, error) {
	return `/-
  GENERATED by go2lean (gwriter_gen.go) — fixed text, do not edit.
  How the translator of the seqio WRITER side (go2lean/gwriter.go) reads Go's operations on strings and
  slices: a string is the list of its bytes, a slice is a ` + "`List`" + ` (a value: no aliasing, no capacity), an
  ` + "`int`" + ` is an unbounded ` + "`Int`" + `, and every operation that can panic at run time is a checked operation whose
  ` + "`none`" + ` is the panic.  ASSUMED READINGS: a slice END beyond ` + "`len(p)`" + ` is a panic (Go: beyond ` + "`cap(p)`" + `);
  the width of a fmt verb pads to a number of BYTES (fmt counts runes: the same on ASCII).
-/
import Gts.Model.Loc
namespace Gts.Gen.GoStrings

/-- the bytes of an ASCII string literal -/
def wsLit (s : String) : List UInt8 := s.toList.map fun c => UInt8.ofNat c.toNat

/-- ` + "`p[i]`" + ` -/
def wsIdx {α : Type} (p : List α) (i : Int) : Option α :=
  if i < 0 then none else p[i.toNat]?

/-- ` + "`p[a:]`" + ` -/
def wsFrom {α : Type} (p : List α) (a : Int) : Option (List α) :=
  if 0 ≤ a ∧ a ≤ (p.length : Int) then some (p.drop a.toNat) else none

/-- ` + "`p[:b]`" + ` -/
def wsTo {α : Type} (p : List α) (b : Int) : Option (List α) :=
  if 0 ≤ b ∧ b ≤ (p.length : Int) then some (p.take b.toNat) else none

/-- ` + "`p[a:b]`" + ` -/
def wsSlice {α : Type} (p : List α) (a b : Int) : Option (List α) :=
  if 0 ≤ a ∧ a ≤ b ∧ b ≤ (p.length : Int) then some ((p.drop a.toNat).take (b.toNat - a.toNat)) else none

/-- ` + "`p[i] = x`" + ` -/
def wsSet {α : Type} (p : List α) (i : Int) (x : α) : Option (List α) :=
  if 0 ≤ i ∧ i < (p.length : Int) then some (p.set i.toNat x) else none

/-- ` + "`make([]T, n)`" + ` with ` + "`z`" + ` the zero value of ` + "`T`" + ` -/
def wsMake {α : Type} (z : α) (n : Int) : Option (List α) :=
  if n < 0 then none else some (List.replicate n.toNat z)

/-- ` + "`strings.Repeat(s, n)`" + `: panics for a negative count -/
def wsRepeat (s : List UInt8) (n : Int) : Option (List UInt8) :=
  if n < 0 then none else some (List.replicate n.toNat s).flatten

/-- ` + "`strings.ReplaceAll(s, old, new)`" + ` for an ` + "`old`" + ` of ONE byte ` + "`c`" + ` -/
def wsReplaceByte (c : UInt8) (new : List UInt8) : List UInt8 → List UInt8
  | [] => []
  | x :: s => if x = c then new ++ wsReplaceByte c new s else x :: wsReplaceByte c new s

/-- ` + "`strings.Join(xs, sep)`" + ` -/
def wsJoin (sep : List UInt8) : List (List UInt8) → List UInt8
  | [] => []
  | [x] => x
  | x :: y :: r => x ++ sep ++ wsJoin sep (y :: r)

/-- the verb ` + "`%Ns`" + ` / ` + "`%Nd`" + `: blanks in front up to the width -/
def wsPadLeft (w : Nat) (s : List UInt8) : List UInt8 := List.replicate (w - s.length) 32 ++ s

/-- the verb ` + "`%-Ns`" + `: blanks behind up to the width -/
def wsPadRight (w : Nat) (s : List UInt8) : List UInt8 := s ++ List.replicate (w - s.length) 32

/-- ` + "`a < b`" + ` on Go strings: bytewise lexicographic -/
def wsStrLt : List UInt8 → List UInt8 → Bool
  | [], [] => false
  | [], _ :: _ => true
  | _ :: _, [] => false
  | a :: as, b :: bs => if a < b then true else if b < a then false else wsStrLt as bs

/-- ` + "`m[k]`" + ` on a ` + "`map[string]string`" + ` (` + "`none`" + `: the nil map; an association list otherwise) with the
comma-ok result: ` + "`none`" + ` when the key is absent -/
def wsMapGet (m : Option (List (List UInt8 × List UInt8))) (k : List UInt8) : Option (List UInt8) :=
  match m with
  | none => none
  | some l => (l.find? fun e => e.1 = k).map (·.2)

/-- ` + "`gts.Range(start, end)`" + ` = ` + "`PartialRange(start, end, Complete)`" + `: panics unless ` + "`start < end`" + ` -/
def wsRange (s e : Int) : Option Gts.Loc :=
  if e ≤ s then none else some (Gts.Loc.ranged s e false false)

end Gts.Gen.GoStrings
`, nil
}

// ---- module rendering ----------------------------------------------------------------------------------------

type wmodText struct {
	header  string   // the comment
	imports []string // besides Gts.Gen.GoStrings
	ns      string
	opens   []string
	extra   string // text in front of the definitions (after the structures)
	tail    string
}

func (m *wmod) render(t wmodText) string {
	b := strings.Builder{}
	b.WriteString("/-\n" + t.header + "-/\nimport Gts.Gen.GoStrings\n")
	for _, im := range t.imports {
		b.WriteString("import " + im + "\n")
	}
	b.WriteString("namespace " + t.ns + "\nopen Gts.Gen.GoStrings\n")
	for _, o := range t.opens {
		b.WriteString("open " + o + "\n")
	}
	b.WriteString("set_option linter.unusedVariables false\n\n")
	st, _ := m.w.structDecls(m.need, m.skipStructs)
	b.WriteString(st)
	b.WriteString(t.extra)
	for _, d := range m.defs {
		b.WriteString(d + "\n")
	}
	b.WriteString(t.tail)
	b.WriteString("end " + t.ns + "\n")
	return b.String()
}

func wRun(f func() string) (text string, err error) {
	defer func() {
		if r := recover(); r != nil {
			if rf, ok := r.(refusal); ok {
				err = fmt.Errorf("%s", rf.msg)
				return
			}
			if _, ok := r.(wNeedEffect); ok {
				err = fmt.Errorf("internal: an effect escaped")
				return
			}
			panic(r)
		}
	}()
	return f(), nil
}

// stringSliceVar: the literal `var Name = []string{"…", …}` of package p
func wStringSliceVar(p *wpkg, name string) []string {
	for _, f := range p.files {
		for _, d := range f.Decls {
			gd, ok := d.(*ast.GenDecl)
			if !ok || gd.Tok != token.VAR {
				continue
			}
			for _, s := range gd.Specs {
				vs := s.(*ast.ValueSpec)
				for i, nm := range vs.Names {
					if nm.Name != name {
						continue
					}
					if vs.Type != nil || i >= len(vs.Values) {
						refuse("%s: declaration outside the subset", name)
					}
					cl, ok := vs.Values[i].(*ast.CompositeLit)
					if !ok || exprString(cl.Type) != "[]string" {
						refuse("%s is not a []string literal", name)
					}
					var out []string
					for _, e := range cl.Elts {
						s, ok := stringLiteral(e)
						if !ok || !isASCII(s) {
							refuse("%s: element outside the subset", name)
						}
						out = append(out, s)
					}
					return out
				}
			}
		}
	}
	refuse("variable %s not found", name)
	return nil
}

// ---- insdc.go ----------------------------------------------------------------------------------------------------

func insdcModule(repo string) *wmod {
	m := newWmod(wLoadWorld(repo))
	p := m.w.pkgs["seqio"]
	m.callee(p, "searchString")
	m.callee(p, "GetQualifierType")
	m.callee(p, "QualifierIO.String")
	m.callee(p, "QualifierFormatter.String")
	m.callee(p, "INSDCFormatter.String")
	return m
}

func genInsdcWrite(repo string) (string, error) {
	return wRun(func() string {
		m := insdcModule(repo)
		p := m.w.pkgs["seqio"]
		// the registry look-ups: `func IsXQualifier(name string) bool { return searchString(name, XQualifierNames) }`
		extra := strings.Builder{}
		for _, k := range []string{"Quoted", "Literal", "Toggle"} {
			fd := p.funcs["Is"+k+"Qualifier"]
			if fd == nil || len(fd.Body.List) != 1 {
				refuse("insdc.go: Is%sQualifier outside the subset", k)
			}
			ps := wParamNames(fd)
			ret, ok := fd.Body.List[0].(*ast.ReturnStmt)
			if !ok || len(ps) != 1 || len(ret.Results) != 1 || exprString(ret.Results[0]) != fmt.Sprintf("searchString(%s, %sQualifierNames)", ps[0], k) {
				refuse("insdc.go: Is%sQualifier is not `return searchString(name, %sQualifierNames)`", k, k)
			}
			names := wStringSliceVar(p, k+"QualifierNames")
			fmt.Fprintf(&extra, "/-- insdc.go `%sQualifierNames`: the initial list (the look-up `Is%sQualifier` is `searchString(name, %sQualifierNames)`) -/\ndef %sQualifierNames : List String :=\n  %s\n\n",
				k, k, k, wLowerFirst(k), leanStrList(names))
		}
		return m.render(wmodText{
			header: "  GENERATED by go2lean (gwriter_gen.go) from seqio/insdc.go — do not edit.\n" +
				"  `GetQualifierType`, `QualifierIO.String`, `QualifierFormatter.String`, `INSDCFormatter.String` statement by\n" +
				"  statement (how the Go is read: the header comments of go2lean/gwriter.go, gwriter_world.go and\n" +
				"  Gts/Gen/GoStrings.lean); the registry look-ups `IsQuotedQualifier` … are parameters.\n",
			ns:    "Gts.Gen.InsdcWrite",
			extra: extra.String(),
		})
	})
}
