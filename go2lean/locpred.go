package main

// Generator for the recursive location PREDICATES `LocationWithin` and `LocationOverlap`
// (location.go), the survival tests of Erase and Slice (C03, C10, C19's Within/Overlap filters).
//
// Shape accepted (every statement checked on the AST, anything else refused):
//
//	func F(loc Location, lower, upper int) bool {
//	    switch v := loc.(type) {
//	    case Complemented:       return F(v.Location, lower, upper)
//	    case locationSlice:      for _, l := range v.slice() { if [!]F(l, lower, upper) { return B1 } }; return B2
//	    case contiguousLocation: s, e := v.span(); return <expr over s, e, lower, upper>
//	    default:                 return false
//	    }
//	}
//
// with `Joined.slice` / `Ordered.slice` returning the receiver and the four `span` methods
// translated by arith.go.  Go tries the cases of a type switch in source order; Complemented,
// Joined/Ordered (the only locationSlice implementations) and the four contiguous kinds are
// disjoint, so the order does not matter — the generator checks that the seven kinds are
// covered exactly by these three interface cases (method sets).

import (
	"fmt"
	"go/ast"
	"go/parser"
	"go/token"
	"path/filepath"
	"strings"
)

var locPreds = []struct{ name, lean string }{
	{"LocationWithin", "locationWithin"},
	{"LocationOverlap", "locationOverlap"},
}

func genLocPred(repo string) (text string, err error) {
	defer func() {
		if r := recover(); r != nil {
			if rf, ok := r.(refusal); ok {
				err = fmt.Errorf("%s", rf.msg)
				return
			}
			panic(r)
		}
	}()
	fset := token.NewFileSet()
	af, perr := parser.ParseFile(fset, filepath.Join(repo, "location.go"), nil, 0)
	if perr != nil {
		return "", perr
	}
	fns := map[string]arithFn{}
	have := map[string]string{}
	for _, f := range arithFns {
		fns[f.recv+"."+f.name] = f
		have[f.recv+"."+f.name] = f.lean
	}
	// the method sets behind the interface cases
	for _, k := range []string{"Joined", "Ordered"} {
		fd := findMethod(af, k, "slice")
		if fd == nil || len(fd.Body.List) != 1 {
			refuse("%s.slice: not found or not a single return", k)
		}
		rs, ok := fd.Body.List[0].(*ast.ReturnStmt)
		if !ok || len(rs.Results) != 1 || identName(rs.Results[0]) != fd.Recv.List[0].Names[0].Name {
			refuse("%s.slice does not return its receiver", k)
		}
	}
	for _, k := range []string{"Between", "Point", "Ranged", "Ambiguous"} {
		if have[k+".span"] == "" || findMethod(af, k, "span") == nil {
			refuse("%s.span is not translated", k)
		}
		if findMethod(af, k, "slice") != nil {
			refuse("%s has a slice method: it would match `case locationSlice`", k)
		}
	}
	for _, k := range []string{"Joined", "Ordered", "Complemented"} {
		if findMethod(af, k, "span") != nil {
			refuse("%s has a span method: it would match `case contiguousLocation`", k)
		}
	}
	if findMethod(af, "Complemented", "slice") != nil {
		refuse("Complemented has a slice method")
	}

	var defs strings.Builder
	for _, p := range locPreds {
		var fd *ast.FuncDecl
		for _, d := range af.Decls {
			if f, ok := d.(*ast.FuncDecl); ok && f.Recv == nil && f.Name.Name == p.name {
				fd = f
			}
		}
		if fd == nil {
			refuse("location.go: %s not found", p.name)
		}
		var params []string
		for i, pl := range fd.Type.Params.List {
			want := "int"
			if i == 0 {
				want = "Location"
			}
			if identName(pl.Type) != want {
				refuse("%s: parameter types", p.name)
			}
			for _, n := range pl.Names {
				nm := n.Name
				if leanKeywords[nm] {
					nm += "_"
				}
				params = append(params, nm)
			}
		}
		if len(params) != 3 || len(fd.Type.Results.List) != 1 || identName(fd.Type.Results.List[0].Type) != "bool" {
			refuse("%s: signature", p.name)
		}
		loc, ints := params[0], params[1:]
		if len(fd.Body.List) != 1 {
			refuse("%s: body is not a single type switch", p.name)
		}
		ts, v, x := typeSwitchOf(fd.Body.List[0])
		if ts == nil || identName(x) != loc {
			refuse("%s: body is not `switch v := %s.(type)`", p.name, loc)
		}
		isSelfCall := func(e ast.Expr, first func(ast.Expr) bool) bool {
			c, ok := e.(*ast.CallExpr)
			if !ok || identName(c.Fun) != p.name || len(c.Args) != 3 || !first(c.Args[0]) {
				return false
			}
			return identName(c.Args[1]) == fd.Type.Params.List[1].Names[0].Name || identName(c.Args[1]) == ints[0]
		}
		seen := map[string]bool{}
		var listNil, listCons, contigBody string
		var contigLets []string
		for _, c := range ts.Body.List {
			cc := c.(*ast.CaseClause)
			if cc.List == nil {
				if len(cc.Body) != 1 || !isReturnOf(cc.Body[0], "false") {
					refuse("%s: default clause is not `return false`", p.name)
				}
				seen["default"] = true
				continue
			}
			if len(cc.List) != 1 {
				refuse("%s: case list", p.name)
			}
			switch identName(cc.List[0]) {
			case "Complemented":
				if len(cc.Body) != 1 {
					refuse("%s: Complemented clause", p.name)
				}
				rs, ok := cc.Body[0].(*ast.ReturnStmt)
				if !ok || len(rs.Results) != 1 || !isSelfCall(rs.Results[0], func(e ast.Expr) bool { return isSel(e, v, "Location") }) {
					refuse("%s: Complemented clause is not `return %s(%s.Location, …)`", p.name, p.name, v)
				}
				seen["compl"] = true
			case "locationSlice":
				if len(cc.Body) != 2 {
					refuse("%s: locationSlice clause", p.name)
				}
				rg, ok := cc.Body[0].(*ast.RangeStmt)
				if !ok || rg.Tok != token.DEFINE || identName(rg.Key) != "_" || len(rg.Body.List) != 1 {
					refuse("%s: locationSlice loop", p.name)
				}
				sc, ok := rg.X.(*ast.CallExpr)
				if !ok || len(sc.Args) != 0 {
					refuse("%s: locationSlice loop range", p.name)
				}
				if s, ok := sc.Fun.(*ast.SelectorExpr); !ok || identName(s.X) != v || s.Sel.Name != "slice" {
					refuse("%s: locationSlice loop does not range over %s.slice()", p.name, v)
				}
				elem := identName(rg.Value)
				is, ok := rg.Body.List[0].(*ast.IfStmt)
				if !ok || is.Init != nil || is.Else != nil || len(is.Body.List) != 1 {
					refuse("%s: locationSlice loop body", p.name)
				}
				neg := false
				cond := is.Cond
				if u, ok := cond.(*ast.UnaryExpr); ok && u.Op == token.NOT {
					neg, cond = true, u.X
				}
				if !isSelfCall(cond, func(e ast.Expr) bool { return identName(e) == elem }) {
					refuse("%s: locationSlice loop condition", p.name)
				}
				b1, ok1 := boolReturn(is.Body.List[0])
				b2, ok2 := boolReturn(cc.Body[1])
				if !ok1 || !ok2 {
					refuse("%s: locationSlice loop returns", p.name)
				}
				call := fmt.Sprintf("%s l %s", p.lean, strings.Join(ints, " "))
				condS := call + " = true"
				if neg {
					condS = call + " = false"
				}
				listNil = b2
				listCons = fmt.Sprintf("if %s then %s else %sList ls %s", condS, b1, p.lean, strings.Join(ints, " "))
				seen["slice"] = true
			case "contiguousLocation":
				if len(cc.Body) != 2 {
					refuse("%s: contiguousLocation clause", p.name)
				}
				as, ok := cc.Body[0].(*ast.AssignStmt)
				if !ok || as.Tok != token.DEFINE || len(as.Lhs) != 2 || len(as.Rhs) != 1 {
					refuse("%s: contiguousLocation clause: span assignment", p.name)
				}
				sc, ok := as.Rhs[0].(*ast.CallExpr)
				if !ok || len(sc.Args) != 0 {
					refuse("%s: contiguousLocation clause: span call", p.name)
				}
				if s, ok := sc.Fun.(*ast.SelectorExpr); !ok || identName(s.X) != v || s.Sel.Name != "span" {
					refuse("%s: contiguousLocation clause does not call %s.span()", p.name, v)
				}
				s0, s1 := identName(as.Lhs[0]), identName(as.Lhs[1])
				if s0 == "" || s1 == "" || leanKeywords[s0] || leanKeywords[s1] {
					refuse("%s: span variables", p.name)
				}
				rs, ok := cc.Body[1].(*ast.ReturnStmt)
				if !ok || len(rs.Results) != 1 {
					refuse("%s: contiguousLocation clause: return", p.name)
				}
				e := &env{vars: map[string]val{s0: {typ: "int", expr: s0}, s1: {typ: "int", expr: s1}}, fns: fns}
				for i, n := range fd.Type.Params.List[1:] {
					_ = i
					for _, nm := range n.Names {
						e.vars[nm.Name] = val{typ: "int", expr: map[bool]string{true: nm.Name + "_", false: nm.Name}[leanKeywords[nm.Name]]}
					}
				}
				contigBody = asBool(e.expr(rs.Results[0]))
				contigLets = []string{s0, s1}
				seen["contig"] = true
			default:
				refuse("%s: unexpected case %s", p.name, exprString(cc.List[0]))
			}
		}
		for _, k := range []string{"compl", "slice", "contig", "default"} {
			if !seen[k] {
				refuse("%s: clause %s missing", p.name, k)
			}
		}
		ps := strings.Join(ints, " ")
		pc := strings.Join(ints, ", ")
		us := strings.TrimSuffix(strings.Repeat("_, ", len(ints)), ", ")
		contig := func(span, fields string) string {
			return fmt.Sprintf("let (%s, %s) := %s %s; %s", contigLets[0], contigLets[1], span, fields, contigBody)
		}
		fmt.Fprintf(&defs, "mutual\n/-- location.go: `%s` -/\ndef %s : Gts.Loc → Int → Int → Bool\n", p.name, p.lean)
		fmt.Fprintf(&defs, "  | .compl l, %s => %s l %s\n", pc, p.lean, ps)
		fmt.Fprintf(&defs, "  | .joined ls, %s => %sList ls %s\n", pc, p.lean, ps)
		fmt.Fprintf(&defs, "  | .ordered ls, %s => %sList ls %s\n", pc, p.lean, ps)
		fmt.Fprintf(&defs, "  | .between p, %s => %s\n", pc, contig(have["Between.span"], "p"))
		fmt.Fprintf(&defs, "  | .point p, %s => %s\n", pc, contig(have["Point.span"], "p"))
		fmt.Fprintf(&defs, "  | .ranged a b p5 p3, %s => %s\n", pc, contig(have["Ranged.span"], "a b p5 p3"))
		fmt.Fprintf(&defs, "  | .ambiguous a b, %s => %s\n", pc, contig(have["Ambiguous.span"], "a b"))
		fmt.Fprintf(&defs, "/-- the loop over `v.slice()` of `%s` -/\ndef %sList : List Gts.Loc → Int → Int → Bool\n", p.name, p.lean)
		fmt.Fprintf(&defs, "  | [], %s => %s\n  | l :: ls, %s => %s\nend\n\n", us, listNil, pc, listCons)
	}
	b := strings.Builder{}
	b.WriteString("/-\n  GENERATED by go2lean (locpred.go) from location.go — do not edit.\n  `LocationWithin` / `LocationOverlap` as structurally recursive functions.\n-/\n")
	b.WriteString("import Gts.Gen.Arith\nnamespace Gts.Gen\nset_option linter.unusedVariables false\n\n")
	b.WriteString(defs.String())
	b.WriteString("end Gts.Gen\n")
	return b.String(), nil
}

func isReturnOf(s ast.Stmt, name string) bool {
	rs, ok := s.(*ast.ReturnStmt)
	return ok && len(rs.Results) == 1 && identName(rs.Results[0]) == name
}

func boolReturn(s ast.Stmt) (string, bool) {
	rs, ok := s.(*ast.ReturnStmt)
	if !ok || len(rs.Results) != 1 {
		return "", false
	}
	switch identName(rs.Results[0]) {
	case "true":
		return "true", true
	case "false":
		return "false", true
	}
	return "", false
}
