package main

// Generator for locator.go (C08): Gts/Gen/Locator.lean.
//
//   - the five locator constructors — `allLocator`, `resizeLocator`, `relativeLocator`,
//     `locationLocator`, `filterLocator` — as functions of their arguments and of the sequence, by the
//     statement translator of gcli.go (`make(Regions, n)`, the loops `rr[i] = …` literally with checked
//     index operations; `resizeLocator` stores into the slice it ranges over: live reads).  A
//     constructor must be exactly `return func(seq Sequence) Regions { … }`: anything computed outside
//     the closure would be shared between calls (the results are mutated in place by `resizeLocator`),
//     which a translation to values cannot express — refused.
//   - `tryLocation`: the statements are recognised one by one; the parser expression
//     `pars.Any(parseComplement(&parser), parseRange, parsePoint)` becomes the list of the model's
//     parsers `Gts.LocParse.complementWith self / range / point` under `Gts.LocParse.anyOf`, the knot
//     through `&parser` tied with fuel, `pars.Exact(·)` is `Gts.ModParse.exact`,
//     `.Parse(pars.FromString(s))` a run on the fresh state.  ASSUMED READING: the fuel `len(s) + 2`
//     bounds the nesting of `complement(` (each level consumes 11 bytes), as in the model.
//   - `AsLocator`: the `switch i := strings.IndexByte(s, '@'); i { … }` clause by clause.  A call
//     `x, err := F(E)` / `x, ok := tryLocation(E)` followed by `if err == nil { return C, nil }` /
//     `if ok { … }` / `if err != nil { return nil, err }` is a match on the outcome of the model's
//     `Gts.asModifier`, of the generated `tryLocation`, of the parameter `selOk` (does `Selector(E)`
//     return no error) or of the function itself (fuel); `s[a:]`, `s[:b]` are checked slices.  The
//     result is the model's description `Gts.LocatorDesc` of the locator built: `relativeLocator(m)`
//     ↦ `.bareModifier m`, `locationLocator(l)` ↦ `.bareLocation l`, `filterLocator(Selector(E))` ↦
//     `.selector E`, `resizeLocator(allLocator, m)` ↦ `.atAll m`, `resizeLocator(d, m)` ↦ `.at d m`, an
//     `error` result ↦ `.error`, a panic of a slice expression or inside a parser ↦ `.panic` (also the
//     value when the fuel runs out; the bridge shows 2 units suffice).  What the constructors DO is
//     tied to `LocatorDesc.apply` by the bridges of the generated constructors.
//
// Anything else is refused.

import (
	"fmt"
	"go/ast"
	"go/token"
	"go/types"
	"path/filepath"
	"strings"
)

var locTypeKinds = map[string]string{"Locator": "locator", "Modifier": "mod", "Location": "loc", "Filter": "filter", "Sequence": "seq"}

// ctorDef: `func name(params) Locator { return func(seq Sequence) Regions { … } }`
func ctorDef(src *source, name string) string {
	fd, err := src.fun(name)
	if err != nil {
		refuse("%v", err)
	}
	what := "locator.go `" + name + "`"
	if fd.Type.Results == nil || len(fd.Type.Results.List) != 1 || exprString(fd.Type.Results.List[0].Type) != "Locator" {
		refuse("%s does not return a Locator", name)
	}
	if len(fd.Body.List) != 1 {
		refuse("%s: the body is not a single `return func(seq Sequence) Regions { … }` (a value computed outside the closure is shared between calls)", name)
	}
	ret, ok := fd.Body.List[0].(*ast.ReturnStmt)
	if !ok || len(ret.Results) != 1 {
		refuse("%s: the body is not a single return", name)
	}
	lit, ok := ret.Results[0].(*ast.FuncLit)
	if !ok || lit.Type.Results == nil || len(lit.Type.Results.List) != 1 || exprString(lit.Type.Results.List[0].Type) != "Regions" {
		refuse("%s: does not return a function literal with result Regions", name)
	}
	f := &kfn{base: name, what: what, known: map[string]kcallee{}}
	c := &kctx{f: f, vars: map[string]kv{}, seq: map[string]int{}, local: map[string]bool{}, io: map[string]string{}}
	f.global("mapOrder", "(List Int → List Int)", 0, 0)
	var binders []string
	for _, fl := range []*ast.FieldList{fd.Type.Params, lit.Type.Params} {
		for _, p := range fl.List {
			kind, ok := locTypeKinds[exprString(p.Type)]
			if !ok {
				refuse("%s: parameter type %s", name, exprString(p.Type))
			}
			for _, nm := range p.Names {
				v := c.declare(nm.Name, kind)
				binders = append(binders, fmt.Sprintf("(%s : %s)", v.term, kTypeOf(v)))
			}
		}
	}
	c.retK = "regs"
	c.ret = kretOf("regs")
	text := c.stmts(lit.Body.List, nil)
	b := strings.Builder{}
	for _, h := range f.helpers {
		b.WriteString(h)
	}
	fmt.Fprintf(&b, "/-- %s: the locator it returns, applied to a sequence (`none`: a run-time panic of an index / slice expression) -/\n", what)
	fmt.Fprintf(&b, "def %s%s %s : Option (List Gts.Reg) :=\n%s\n\n", name, kGDecl, strings.Join(binders, " "), kindent(text))
	return f.finish(b.String())
}

// ---- tryLocation ---------------------------------------------------------------------------------

var locParsers = map[string]string{"parseRange": "Gts.LocParse.range", "parsePoint": "Gts.LocParse.point", "parseBetween": "Gts.LocParse.between"}

func tryLocationDef(src *source) string {
	fd, err := src.fun("tryLocation")
	if err != nil {
		refuse("%v", err)
	}
	if len(fd.Type.Params.List) != 1 || len(fd.Type.Params.List[0].Names) != 1 || exprString(fd.Type.Params.List[0].Type) != "string" {
		refuse("tryLocation: parameters")
	}
	s := fd.Type.Params.List[0].Names[0].Name
	st := fd.Body.List
	if len(st) != 5 {
		refuse("tryLocation: %d statements, expected 5", len(st))
	}
	// var parser pars.Parser
	decl, ok := st[0].(*ast.DeclStmt)
	parser := ""
	if ok {
		if gd, ok := decl.Decl.(*ast.GenDecl); ok && gd.Tok == token.VAR && len(gd.Specs) == 1 {
			vs := gd.Specs[0].(*ast.ValueSpec)
			if len(vs.Names) == 1 && len(vs.Values) == 0 && exprString(vs.Type) == "pars.Parser" {
				parser = vs.Names[0].Name
			}
		}
	}
	if parser == "" {
		refuse("tryLocation: the first statement is not `var parser pars.Parser`")
	}
	// parser = pars.Any(…)
	as, ok := st[1].(*ast.AssignStmt)
	if !ok || as.Tok != token.ASSIGN || len(as.Lhs) != 1 || len(as.Rhs) != 1 || identName(as.Lhs[0]) != parser {
		refuse("tryLocation: the second statement does not assign the parser")
	}
	anyCall, ok := as.Rhs[0].(*ast.CallExpr)
	if !ok || exprString(anyCall.Fun) != "pars.Any" || len(anyCall.Args) == 0 {
		refuse("tryLocation: the parser is not a pars.Any(…)")
	}
	var alts []string
	for _, a := range anyCall.Args {
		switch {
		case exprString(a) == "parseComplement(&"+parser+")":
			alts = append(alts, "Gts.LocParse.complementWith (tryLocationParser fuel)")
		case locParsers[exprString(a)] != "":
			alts = append(alts, locParsers[exprString(a)])
		default:
			refuse("tryLocation: alternative %s of the parser", exprString(a))
		}
	}
	// result, err := pars.Exact(parser).Parse(pars.FromString(s))
	as2, ok := st[2].(*ast.AssignStmt)
	if !ok || as2.Tok != token.DEFINE || len(as2.Lhs) != 2 || len(as2.Rhs) != 1 {
		refuse("tryLocation: the third statement is not `result, err := …`")
	}
	result, errv := identName(as2.Lhs[0]), identName(as2.Lhs[1])
	if exprString(as2.Rhs[0]) != "pars.Exact("+parser+").Parse(pars.FromString("+s+"))" {
		refuse("tryLocation: the parser is run as %s, not as pars.Exact(%s).Parse(pars.FromString(%s))", exprString(as2.Rhs[0]), parser, s)
	}
	// if err != nil { return nil, false }
	is, ok := st[3].(*ast.IfStmt)
	if !ok || is.Init != nil || is.Else != nil || exprString(is.Cond) != errv+" != nil" || len(is.Body.List) != 1 {
		refuse("tryLocation: the fourth statement is not `if err != nil { return nil, false }`")
	}
	if r, ok := is.Body.List[0].(*ast.ReturnStmt); !ok || len(r.Results) != 2 || exprString(r.Results[0]) != "nil" || exprString(r.Results[1]) != "false" {
		refuse("tryLocation: the error branch does not return nil, false")
	}
	// return result.Value.(Location), true
	r, ok := st[4].(*ast.ReturnStmt)
	okRet := false
	if ok && len(r.Results) == 2 && exprString(r.Results[1]) == "true" {
		if ta, ok := r.Results[0].(*ast.TypeAssertExpr); ok && exprString(ta.X) == result+".Value" && exprString(ta.Type) == "Location" {
			okRet = true
		}
	}
	if !okRet {
		refuse("tryLocation: the last statement is not `return result.Value.(Location), true`")
	}
	b := strings.Builder{}
	b.WriteString("/-- locator.go `tryLocation`: `parser = pars.Any(…)`, the reference `&parser` inside it tied with fuel -/\n")
	fmt.Fprintf(&b, "def tryLocationParser : Nat → Gts.Pars.P Gts.Loc\n  | 0 => Gts.Pars.fail\n  | fuel + 1 => Gts.LocParse.anyOf [%s]\n\n", strings.Join(alts, ", "))
	b.WriteString("/-- locator.go `tryLocation`: `pars.Exact(parser).Parse(pars.FromString(s))`; `.error .fail` is the result `nil, false` -/\n")
	b.WriteString("def tryLocation (s : List UInt8) : Except Gts.Pars.Err Gts.Loc :=\n  ((Gts.ModParse.exact (tryLocationParser (s.length + 2))).run' ⟨s, []⟩).1\n\n")
	return b.String()
}

// ---- AsLocator -------------------------------------------------------------------------------------

type alctx struct {
	s     string            // the string parameter
	idx   string            // the switch variable
	kinds map[string]string // Go variable → mod | loc | sel | desc
	terms map[string]string // Go variable → Lean term
	ntmp  int
}

func (a *alctx) clone() *alctx {
	n := &alctx{s: a.s, idx: a.idx, kinds: map[string]string{}, terms: map[string]string{}, ntmp: a.ntmp}
	for k, v := range a.kinds {
		n.kinds[k] = v
	}
	for k, v := range a.terms {
		n.terms[k] = v
	}
	return n
}

func (a *alctx) intExpr(x ast.Expr) string {
	switch n := x.(type) {
	case *ast.BasicLit:
		if n.Kind == token.INT {
			return n.Value
		}
	case *ast.Ident:
		if n.Name == a.idx {
			return "i"
		}
	case *ast.ParenExpr:
		return a.intExpr(n.X)
	case *ast.UnaryExpr:
		if n.Op == token.SUB {
			return "(-" + a.intExpr(n.X) + ")"
		}
	case *ast.BinaryExpr:
		if n.Op == token.ADD || n.Op == token.SUB {
			return fmt.Sprintf("(%s %s %s)", a.intExpr(n.X), n.Op, a.intExpr(n.Y))
		}
	}
	refuse("AsLocator: integer expression %s", exprString(x))
	return ""
}

// strExpr: `s`, `s[a:]`, `s[:b]`, `s[a:b]` — the term and the checked operation in front of it
func (a *alctx) strExpr(x ast.Expr) (term string, pre string) {
	if identName(x) == a.s {
		return "s", ""
	}
	sl, ok := x.(*ast.SliceExpr)
	if !ok || identName(sl.X) != a.s || sl.Slice3 {
		refuse("AsLocator: string expression %s", exprString(x))
	}
	a.ntmp++
	t := fmt.Sprintf("t%d_", a.ntmp)
	var op string
	switch {
	case sl.Low != nil && sl.High == nil:
		op = "clFrom s " + a.intExpr(sl.Low)
	case sl.Low == nil && sl.High != nil:
		op = "clTo s " + a.intExpr(sl.High)
	case sl.Low != nil && sl.High != nil:
		op = fmt.Sprintf("clSub s %s %s", a.intExpr(sl.Low), a.intExpr(sl.High))
	default:
		return "s", ""
	}
	return t, fmt.Sprintf("match %s with\n| none => Gts.LocatorDesc.panic\n| some %s =>\n", op, t)
}

// ctor: the description of the locator a constructor call builds
func (a *alctx) ctor(x ast.Expr) string {
	call, ok := x.(*ast.CallExpr)
	if !ok {
		refuse("AsLocator: returned locator %s", exprString(x))
	}
	arg := func(i int, kind string) string {
		n := identName(call.Args[i])
		if a.kinds[n] != kind {
			refuse("AsLocator: %s: argument %s is not a %s", exprString(call), exprString(call.Args[i]), kind)
		}
		return a.terms[n]
	}
	switch name := identName(call.Fun); {
	case name == "relativeLocator" && len(call.Args) == 1:
		return "Gts.LocatorDesc.bareModifier " + arg(0, "mod")
	case name == "locationLocator" && len(call.Args) == 1:
		return "Gts.LocatorDesc.bareLocation " + arg(0, "loc")
	case name == "filterLocator" && len(call.Args) == 1:
		return "Gts.LocatorDesc.selector " + arg(0, "sel")
	case name == "resizeLocator" && len(call.Args) == 2:
		if identName(call.Args[0]) == "allLocator" && a.kinds["allLocator"] == "" {
			return "Gts.LocatorDesc.atAll " + arg(1, "mod")
		}
		return fmt.Sprintf("Gts.LocatorDesc.at %s %s", arg(0, "desc"), arg(1, "mod"))
	}
	refuse("AsLocator: returned locator %s", exprString(x))
	return ""
}

func (a *alctx) stmts(list []ast.Stmt) string {
	if len(list) == 0 {
		refuse("AsLocator: control reaches the end of a clause")
	}
	switch n := list[0].(type) {
	case *ast.ReturnStmt:
		if len(n.Results) != 2 {
			refuse("AsLocator: return arity")
		}
		if exprString(n.Results[0]) == "nil" {
			c, ok := n.Results[1].(*ast.CallExpr)
			if !ok || exprString(c.Fun) != "errors.New" {
				refuse("AsLocator: return nil, %s", exprString(n.Results[1]))
			}
			return "Gts.LocatorDesc.error"
		}
		if exprString(n.Results[1]) != "nil" {
			refuse("AsLocator: return of a locator together with %s", exprString(n.Results[1]))
		}
		return a.ctor(n.Results[0])
	case *ast.AssignStmt:
		if n.Tok != token.DEFINE || len(n.Lhs) != 2 || len(n.Rhs) != 1 || len(list) < 2 {
			refuse("AsLocator: statement %s", oneLine(n))
		}
		call, ok := n.Rhs[0].(*ast.CallExpr)
		if !ok || len(call.Args) != 1 {
			refuse("AsLocator: statement %s", oneLine(n))
		}
		x, flag := identName(n.Lhs[0]), identName(n.Lhs[1])
		is, ok := list[1].(*ast.IfStmt)
		if !ok || is.Init != nil || is.Else != nil {
			refuse("AsLocator: a call with an error / ok result is not followed by a plain if")
		}
		arg, pre := a.strExpr(call.Args[0])
		fn := identName(call.Fun)
		var scrut, okPat, kind, xTerm string
		xTerm = kLeanName(x)
		switch fn {
		case "AsModifier":
			scrut, okPat, kind = "Gts.asModifier "+arg, ".ok "+xTerm, "mod"
		case "tryLocation":
			scrut, okPat, kind = "tryLocation "+arg, ".ok "+xTerm, "loc"
		case "Selector":
			kind, xTerm = "sel", arg
		case "AsLocator":
			scrut, kind = "asLocator selOk fuel "+arg, "desc"
		default:
			refuse("AsLocator: call of %s", exprString(call.Fun))
		}
		// which branch does the if take?
		cond := exprString(is.Cond)
		success := false // the if body runs on success
		switch {
		case fn == "tryLocation" && cond == flag:
			success = true
		case fn != "tryLocation" && cond == flag+" == nil":
			success = true
		case fn != "tryLocation" && cond == flag+" != nil":
			if len(is.Body.List) != 1 {
				refuse("AsLocator: the error branch is not `return nil, err`")
			}
			if r, ok := is.Body.List[0].(*ast.ReturnStmt); !ok || len(r.Results) != 2 || exprString(r.Results[0]) != "nil" || exprString(r.Results[1]) != flag {
				refuse("AsLocator: the error branch is not `return nil, err`")
			}
		default:
			refuse("AsLocator: condition %s after a call of %s", cond, fn)
		}
		withX := a.clone()
		withX.kinds[x], withX.terms[x] = kind, xTerm
		without := a.clone()
		delete(without.kinds, x)
		var okS, failS string
		if success {
			if !terminatesRet(is.Body.List) {
				refuse("AsLocator: the success branch does not return")
			}
			okS, failS = withX.stmts(is.Body.List), without.stmts(list[2:])
		} else {
			okS, failS = withX.stmts(list[2:]), "Gts.LocatorDesc.error"
		}
		var body string
		switch fn {
		case "Selector":
			body = fmt.Sprintf("if selOk %s = true then\n%s\nelse\n%s", arg, kindent("("+okS+")"), kindent("("+failS+")"))
		case "AsLocator":
			body = fmt.Sprintf("match %s with\n| .error => %s\n| .panic => Gts.LocatorDesc.panic\n| %s =>\n%s", scrut, failS, xTerm, kindent(okS))
			if success {
				refuse("AsLocator: a recursive call whose failure is not returned")
			}
		default:
			body = fmt.Sprintf("match %s with\n| .error .panic => Gts.LocatorDesc.panic\n| .error .fail =>\n%s\n| %s =>\n%s", scrut, kindent("("+failS+")"), okPat, kindent(okS))
		}
		return "(" + pre + body + ")"
	}
	refuse("AsLocator: statement %T", list[0])
	return ""
}

func typesExprString(x ast.Expr) string { return types.ExprString(x) }

func terminatesRet(list []ast.Stmt) bool {
	if len(list) == 0 {
		return false
	}
	_, ok := list[len(list)-1].(*ast.ReturnStmt)
	return ok
}

func asLocatorDef(src *source) string {
	fd, err := src.fun("AsLocator")
	if err != nil {
		refuse("%v", err)
	}
	if len(fd.Type.Params.List) != 1 || len(fd.Type.Params.List[0].Names) != 1 || exprString(fd.Type.Params.List[0].Type) != "string" {
		refuse("AsLocator: parameters")
	}
	a := &alctx{s: fd.Type.Params.List[0].Names[0].Name, kinds: map[string]string{}, terms: map[string]string{}}
	if len(fd.Body.List) != 1 {
		refuse("AsLocator: the body is not a single switch")
	}
	sw, ok := fd.Body.List[0].(*ast.SwitchStmt)
	if !ok || sw.Init == nil || sw.Tag == nil {
		refuse("AsLocator: the body is not `switch i := strings.IndexByte(s, c); i { … }`")
	}
	init, ok := sw.Init.(*ast.AssignStmt)
	if !ok || init.Tok != token.DEFINE || len(init.Lhs) != 1 || len(init.Rhs) != 1 || identName(sw.Tag) != identName(init.Lhs[0]) {
		refuse("AsLocator: switch init")
	}
	a.idx = identName(init.Lhs[0])
	call, ok := init.Rhs[0].(*ast.CallExpr)
	if !ok || exprString(call.Fun) != "strings.IndexByte" || len(call.Args) != 2 || identName(call.Args[0]) != a.s {
		refuse("AsLocator: the switch variable is not strings.IndexByte(%s, c)", a.s)
	}
	sep, ok := byteLiteral(call.Args[1])
	if !ok {
		refuse("AsLocator: the separator is not a byte literal")
	}
	var out, closing string
	var def []ast.Stmt
	for i, cl := range sw.Body.List {
		cc := cl.(*ast.CaseClause)
		if cc.List == nil {
			if i != len(sw.Body.List)-1 {
				refuse("AsLocator: default clause that is not the last one")
			}
			def = cc.Body
			continue
		}
		if len(cc.List) != 1 {
			refuse("AsLocator: case list")
		}
		out += fmt.Sprintf("if i = %s then\n%s\nelse\n(", a.intExpr(cc.List[0]), kindent("("+a.clone().stmts(cc.Body)+")"))
		closing += ")"
	}
	if def == nil {
		refuse("AsLocator: no default clause")
	}
	out += a.clone().stmts(def) + closing
	b := strings.Builder{}
	b.WriteString("/-- locator.go `AsLocator`: the description of the locator it builds (`selOk E`: `Selector(E)` returns no error; calls itself: fuel) -/\n")
	fmt.Fprintf(&b, "def asLocator (selOk : List UInt8 → Bool) : Nat → List UInt8 → Gts.LocatorDesc\n  | 0, _ => Gts.LocatorDesc.panic\n  | fuel + 1, s =>\n    let i : Int := clIndexByte s %d;\n%s\n\n", sep, kindent(kindent(out)))
	return b.String()
}

func genLocator(repo string) (text string, err error) {
	defer func() {
		if r := recover(); r != nil {
			if rf, ok := r.(refusal); ok {
				err = fmt.Errorf("locator.go: %s", rf.msg)
				return
			}
			panic(r)
		}
	}()
	src, perr := parseSource(filepath.Join(repo, "locator.go"))
	if perr != nil {
		return "", perr
	}
	b := strings.Builder{}
	b.WriteString("/-\n  GENERATED by go2lean (glocator.go, gcli.go) from locator.go — do not edit.\n" +
		"  The locator constructors applied to a sequence (statement by statement; `none` is a Go run-time panic\n" +
		"  of an index / slice expression), `tryLocation`, and `AsLocator` as the description of the locator built.\n" +
		"  (how the Go is read: the header comments of go2lean/glocator.go and gcli.go)\n-/\n" +
		"import Gts.Model.Locator\nimport Gts.Gen.CliList\nnamespace Gts.Gen\nset_option linter.unusedVariables false\n\n")
	// the type of a locator, as the constructors assume it
	for _, d := range src.file.Decls {
		if gd, ok := d.(*ast.GenDecl); ok && gd.Tok == token.TYPE {
			for _, sp := range gd.Specs {
				ts := sp.(*ast.TypeSpec)
				if ts.Name.Name != "Locator" {
					continue
				}
				ft, ok := ts.Type.(*ast.FuncType)
				if !ok || len(ft.Params.List) != 1 || len(ft.Params.List[0].Names) > 1 || exprString(ft.Params.List[0].Type) != "Sequence" ||
					ft.Results == nil || len(ft.Results.List) != 1 || exprString(ft.Results.List[0].Type) != "Regions" {
					refuse("type Locator is %s", typesExprString(ts.Type))
				}
			}
		}
	}
	known := map[string]kcallee{}
	all, _ := kfuncDef(src, "allLocator", "allLocator", "locator.go `allLocator`", []string{"seq"}, "regs", known)
	b.WriteString(all)
	for _, name := range []string{"resizeLocator", "relativeLocator", "locationLocator", "filterLocator"} {
		b.WriteString(ctorDef(src, name))
	}
	b.WriteString(tryLocationDef(src))
	b.WriteString(asLocatorDef(src))
	b.WriteString("end Gts.Gen\n")
	return b.String(), nil
}
