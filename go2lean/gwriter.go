package main

// Translator for the WRITER side of seqio (DESIGN.md 4.1, "gwriter"): functions that build strings —
// `strings.Builder`, `fmt.Sprintf` with a literal format, `+` on strings, `range` loops over slices of
// records — are read STATEMENT BY STATEMENT into Lean functions over generated structures
// (gwriter_world.go: how types are read).  The generators that use it are in gwriter_gen.go.
//
//   - a function is PURE (its Lean value is the returned value) or EFFECTFUL (`Option`, `none` = a Go
//     run-time panic); which one is decided by what its body contains: `p[i]`, `p[a:]`, `p[:b]`,
//     `p[i] = v` on slices, `strings.Repeat` (negative count), `gts.Range` (empty or inverted range) and calls
//     of effectful functions are checked operations (Gts/Gen/GoStrings.lean), written in `Option.bind` form.
//   - `b := strings.Builder{}` is a byte list; `b.WriteString(s)` / `b.WriteByte(c)` append, `b.String()` is
//     the list; `x.WriteTo(&b)` is `b.WriteString(x.String())` after the WriteTo method of x's type has been
//     checked to be `n, err := io.WriteString(w, x.String()); return int64(n), err`.
//   - `for k, v := range xs { body }` is a structurally recursive helper over the list with the loop state
//     (the outer variables the body assigns, in order of declaration) as arguments; the index is a counter
//     argument.  `for i := range xs` (no element variable) may store into `xs[i]` (live reads).  `break`,
//     `continue`, `goto`, a `return` inside a loop, three-clause `for` loops are refused.
//   - `if` / `switch`: either every path of a body returns (then the rest of the block is the `else`
//     branch) or none does (then the outer variables the bodies assign are joined); a mixture is refused.
//     A tagged `switch` evaluates its tag once.  `v, ok := m[k]` and `v, ok := x.(T)` bind the zero value when
//     `ok` is false.
//   - `fmt.Sprintf(format, args…)` with a LITERAL format made of text, `%%`, `%s`, `%d` with an optional `-`
//     flag and width is re-implemented: `%s` of a string-kinded value is the string, of a value whose type
//     declares `String()` that method, of a Location `locString_`; `%d` is `itoa_`; a width pads with blanks
//     (`wsPadLeft` / `wsPadRight`: counted in BYTES — fmt counts runes, the same on ASCII).
//   - library calls are parameters (`itoa_` for strconv.Itoa, `toUpper_`, `wrapSpace_`, `wrapForce_`,
//     `timeFormat_`, …) or fixed re-implementations in Gts/Gen/GoStrings.lean (`strings.Repeat`,
//     `strings.ReplaceAll(s, "<one byte>", new)`, `strings.Join`); other functions and methods of seqio / gts
//     are translated on demand, before their caller.
//
// Anything else is refused.

import (
	"fmt"
	"go/ast"
	"go/token"
	"sort"
	"strconv"
	"strings"
)

type wval struct {
	typ   string // Go type; "prop" = a Lean proposition (a Go bool)
	expr  string
	lit   bool     // untyped constant
	multi []string // several results (a call): the Go types; expr is the tuple
}

type wbind struct{ pat, expr string }

func wwrap(pre []wbind, body string) string {
	for i := len(pre) - 1; i >= 0; i-- {
		body = fmt.Sprintf("(%s).bind fun %s =>\n%s", pre[i].expr, pre[i].pat, body)
	}
	return body
}

type wNeedEffect struct{}

type wspecial struct{ name, binder, doc string }

// the parameters a generated function can take, in the order they are passed
var wSpecials = []wspecial{
	{"itoa_", "(itoa_ : Int → List UInt8)", "`strconv.Itoa` and the verb `%d`"},
	{"toUpper_", "(toUpper_ : List UInt8 → List UInt8)", "`strings.ToUpper`"},
	{"timeFormat_", "(timeFormat_ : String → Int → Int → Int → List UInt8)", "`time.Date(year, month, day, 0, 0, 0, 0, time.UTC).Format(layout)`"},
	{"wrapSpace_", "(wrapSpace_ : List UInt8 → Int → List UInt8)", "`wrap.Space`"},
	{"wrapForce_", "(wrapForce_ : List UInt8 → Int → List UInt8)", "`wrap.Force`"},
	{"locString_", "(locString_ : Gts.Loc → List UInt8)", "`Location.String()`"},
	{"originLen_", "(originLen_ : Origin → Int)", "`(*Origin).Len()`"},
	{"originString_", "(originString_ : Origin → Option (List UInt8))", "`(*Origin).String()` (`none`: it panics)"},
	{"segmentLen_", "(segmentLen_ : Int × Int → Int)", "`gts.Segment.Len()`"},
	{"isQuotedQualifier_", "(isQuotedQualifier_ : List UInt8 → Bool)", "`IsQuotedQualifier` (a look-up in the process-global registry)"},
	{"isLiteralQualifier_", "(isLiteralQualifier_ : List UInt8 → Bool)", "`IsLiteralQualifier`"},
	{"isToggleQualifier_", "(isToggleQualifier_ : List UInt8 → Bool)", "`IsToggleQualifier`"},
	{"locationOverlap_", "(locationOverlap_ : Ranged → Int → Int → Bool)", "`gts.LocationOverlap` on a `gts.Ranged`"},
	{"parseInfo_", "(parseInfo_ : List UInt8 → List UInt8 → Option (List Ranged))", "`parseReferenceInfo(prefix).Parse(pars.FromString(info))`: the ranges, `none` for an error"},
}

// functions and methods that are parameters instead of being translated: key -> (special, Go result type)
var wParamFuncs = map[string][2]string{
	"seqio.IsQuotedQualifier":  {"isQuotedQualifier_", "bool"},
	"seqio.IsLiteralQualifier": {"isLiteralQualifier_", "bool"},
	"seqio.IsToggleQualifier":  {"isToggleQualifier_", "bool"},
	"gts.Segment.Len":          {"segmentLen_", "int"},
	"seqio.Origin.Len":         {"originLen_", "int"},
	"gts.LocationOverlap":      {"locationOverlap_", "bool"},
}

type wcallee struct {
	fuel     bool // the function calls itself: a leading `fuel : Nat`, `none` when it runs out
	lean     string
	params   []string
	results  []string
	effect   bool
	specials []string
}

// one generated module
type wmod struct {
	w     *wworld
	known map[string]*wcallee
	busy  map[string]bool
	defs  []string
	need  map[string]bool
	// definitions of imported modules (known, not emitted here)
	imported map[string]bool
	// the static type of what a function with result interface{} returns
	ifaceResult map[string]string
	checked     map[string]bool
	// calls / statements read by the generator that uses the translator (nil: none)
	callExt func(c *wctx, n *ast.CallExpr, pre *[]wbind) (wval, bool)
	stmtExt func(c *wctx, list []ast.Stmt, k func(c *wctx) string) (string, bool)
	// structures of imported modules
	skipStructs map[string]bool
}

// importFrom: the functions and structures of another generated module are known, not emitted again
func (m *wmod) importFrom(o *wmod) {
	for k, v := range o.known {
		m.known[k] = v
	}
	if m.skipStructs == nil {
		m.skipStructs = map[string]bool{}
	}
	_, emitted := o.w.structDecls(o.need, o.skipStructs)
	for _, t := range emitted {
		m.skipStructs[t] = true
	}
	for t := range o.skipStructs {
		m.skipStructs[t] = true
	}
	for k, v := range o.ifaceResult {
		m.ifaceResult[k] = v
	}
}

func newWmod(w *wworld) *wmod {
	return &wmod{w: w, known: map[string]*wcallee{}, busy: map[string]bool{}, need: map[string]bool{}, imported: map[string]bool{},
		ifaceResult: map[string]string{}, checked: map[string]bool{}}
}

type wfn struct {
	m       *wmod
	p       *wpkg
	callExt func(c *wctx, n *ast.CallExpr, pre *[]wbind) (wval, bool)
	stmtExt func(c *wctx, list []ast.Stmt, k func(c *wctx) string) (string, bool)
	base    string
	what    string
	helpers []string
	nloop   int
	ntmp    int
	used    map[string]bool
}

type wsnap struct {
	helpers, nloop, ntmp, defs int
}

func (f *wfn) snapshot() wsnap { return wsnap{len(f.helpers), f.nloop, f.ntmp, len(f.m.defs)} }
func (f *wfn) restore(s wsnap) {
	f.helpers, f.nloop, f.ntmp = f.helpers[:s.helpers], s.nloop, s.ntmp
}

type wvar struct {
	typ     string
	fresh   bool // a slice made in this function (append / element stores allowed)
	builder bool
}

type wctx struct {
	f     *wfn
	vars  map[string]*wvar
	order []string
	marks map[string]bool // outer variables read or assigned in the region being translated
	owned map[string]bool // the variables declared in the block this context translates
	eff   bool
	ret   func(c *wctx, vals []wval) string
}

func (c *wctx) clone() *wctx {
	n := &wctx{f: c.f, vars: map[string]*wvar{}, order: append([]string(nil), c.order...), marks: c.marks, eff: c.eff, ret: c.ret}
	for k, v := range c.vars {
		n.vars[k] = v
	}
	return n
}

func (c *wctx) at(n ast.Node) string {
	p := c.f.p.fset.Position(n.Pos())
	return fmt.Sprintf("%s:%d", p.Filename[strings.LastIndex(p.Filename, "/")+1:], p.Line)
}

var wReserved = map[string]bool{"fuel": true, "rest_": true, "some": true, "none": true, "decide": true, "default": true, "true": true, "false": true,
	"wsLit": true, "wsIdx": true, "wsFrom": true, "wsTo": true, "wsSet": true, "wsRepeat": true, "wsReplaceByte": true, "wsJoin": true,
	"wsPadLeft": true, "wsPadRight": true, "wsMapGet": true, "wsRange": true, "wsStrLt": true, "List": true, "Option": true, "Int": true,
	"Bool": true, "UInt8": true, "Nat": true, "String": true, "Unit": true}

func wname(n string) string {
	if leanKeywords[n] || oKeywords[n] || wReserved[n] || strings.HasSuffix(n, "_") {
		return n + "_"
	}
	return n
}

func (c *wctx) declare(name, typ string) *wvar {
	if name == "_" {
		return &wvar{typ: typ}
	}
	for _, sp := range wSpecials {
		if sp.name == wname(name) {
			refuse("the variable %s has the name of a parameter of the generated text", name)
		}
	}
	v := &wvar{typ: typ, builder: typ == "strings.Builder"}
	if _, ok := c.vars[name]; !ok {
		c.order = append(c.order, name)
	}
	c.vars[name] = v
	return v
}

func (c *wctx) tmp(stem string) string {
	c.f.ntmp++
	return fmt.Sprintf("%s%d_", stem, c.f.ntmp)
}

// bind adds a checked operation in front of the expression being translated
func (c *wctx) bind(pre *[]wbind, optExpr, stem string) string {
	if !c.eff {
		panic(wNeedEffect{})
	}
	t := c.tmp(stem)
	*pre = append(*pre, wbind{t, optExpr})
	return t
}

func (c *wctx) special(name string) string {
	for _, sp := range wSpecials {
		if sp.name == name {
			c.f.used[name] = true
			return name
		}
	}
	refuse("internal: unknown parameter %s", name)
	return ""
}

func (c *wctx) lean(t string) string { return c.f.m.w.lean(t, c.f.m.need) }
func (c *wctx) kind(t string) string { return c.f.m.w.kind(t) }

// ---- literals ---------------------------------------------------------------------------------------

func wBytesLit(s string) string {
	if s == "" {
		return "([] : List UInt8)"
	}
	if isASCII(s) {
		return "(wsLit " + leanStr(s) + ")"
	}
	return "(" + leanBytes([]byte(s)) + " : List UInt8)"
}

func wAsProp(v wval) string {
	switch v.typ {
	case "prop":
		return v.expr
	case "bool":
		return "(" + v.expr + " = true)"
	}
	refuse("expected a condition, got a %s", v.typ)
	return ""
}

func wAsBool(v wval) string {
	if v.typ == "prop" {
		return "(decide " + v.expr + ")"
	}
	return v.expr
}

// scalar: the term that is stored in a variable / passed on
func wScalar(v wval) wval {
	if v.typ == "prop" {
		return wval{typ: "bool", expr: wAsBool(v)}
	}
	return v
}

// ---- expressions -------------------------------------------------------------------------------------

func (c *wctx) expr(x ast.Expr, pre *[]wbind) wval {
	v := c.exprN(x, pre)
	if v.multi != nil {
		refuse("%s: a call with several results is used as a single value", c.at(x))
	}
	return v
}

func (c *wctx) lookupConst(p *wpkg, name string) (wval, bool) {
	k, ok := p.consts[name]
	if !ok {
		return wval{}, false
	}
	typ := k.typ
	if typ != "" && typ != "string" && typ != "int" {
		typ = p.name + "." + typ
	}
	switch {
	case k.str != nil:
		if typ == "" {
			return wval{typ: "string", expr: wBytesLit(*k.str), lit: true}, true
		}
		return wval{typ: typ, expr: wBytesLit(*k.str)}, true
	case k.num != nil:
		if typ == "" {
			return wval{typ: "int", expr: wIntLit(*k.num), lit: true}, true
		}
		return wval{typ: typ, expr: wIntLit(*k.num)}, true
	}
	return wval{}, false
}

func wIntLit(n int64) string {
	if n < 0 {
		return fmt.Sprintf("(%d : Int)", n)
	}
	return fmt.Sprintf("(%d : Int)", n)
}

func (c *wctx) exprN(x ast.Expr, pre *[]wbind) wval {
	w := c.f.m.w
	switch n := x.(type) {
	case *ast.ParenExpr:
		return c.exprN(n.X, pre)
	case *ast.BasicLit:
		switch n.Kind {
		case token.INT:
			i, err := strconv.ParseInt(n.Value, 0, 64)
			if err != nil {
				refuse("%s: integer literal %s", c.at(n), n.Value)
			}
			return wval{typ: "int", expr: wIntLit(i), lit: true}
		case token.STRING:
			s, err := strconv.Unquote(n.Value)
			if err != nil {
				refuse("%s: string literal", c.at(n))
			}
			return wval{typ: "string", expr: wBytesLit(s), lit: true}
		case token.CHAR:
			b, ok := byteLiteral(n)
			if !ok {
				refuse("%s: character literal %s is not one byte", c.at(n), n.Value)
			}
			return wval{typ: "byte", expr: fmt.Sprintf("(%d : UInt8)", b), lit: true}
		}
	case *ast.Ident:
		switch n.Name {
		case "true":
			return wval{typ: "bool", expr: "true"}
		case "false":
			return wval{typ: "bool", expr: "false"}
		case "nil":
			return wval{typ: "nil", expr: "none"}
		}
		if v, ok := c.vars[n.Name]; ok {
			c.marks[n.Name] = true
			return wval{typ: v.typ, expr: wname(n.Name)}
		}
		if v, ok := c.lookupConst(c.f.p, n.Name); ok {
			return v
		}
		if fd, ok := c.f.p.funcs[n.Name]; ok && fd.Recv == nil {
			// a function used as a value
			cal := c.f.m.callee(c.f.p, n.Name)
			if cal.effect || len(cal.results) != 1 {
				refuse("%s: the function %s is used as a value (it can panic or has several results)", c.at(n), n.Name)
			}
			call := cal.lean
			for _, s := range cal.specials {
				call += " " + c.special(s)
			}
			return wval{typ: "func(" + strings.Join(cal.params, ",") + ")" + cal.results[0], expr: "(" + call + ")"}
		}
		if c.f.p.vars[n.Name] {
			refuse("%s: the package variable %s is read (process-global state is outside the reading)", c.at(n), n.Name)
		}
		refuse("%s: unknown identifier %s", c.at(n), n.Name)
	case *ast.SelectorExpr:
		if id, ok := n.X.(*ast.Ident); ok {
			if _, isVar := c.vars[id.Name]; !isVar {
				if p, ok := w.pkgs[id.Name]; ok && wImports[id.Name] != "" {
					if v, ok := c.lookupConst(p, n.Sel.Name); ok {
						return v
					}
				}
				refuse("%s: %s outside the subset", c.at(n), exprString(n))
			}
		}
		r := c.expr(n.X, pre)
		t := strings.TrimPrefix(r.typ, "*")
		fs, ok := w.structOf(t)
		if !ok {
			refuse("%s: field %s of a %s", c.at(n), n.Sel.Name, r.typ)
		}
		for _, f := range fs {
			if f.name == n.Sel.Name {
				return wval{typ: f.typ, expr: "(" + r.expr + ")." + f.name}
			}
		}
		refuse("%s: the type %s has no field %s", c.at(n), t, n.Sel.Name)
	case *ast.UnaryExpr:
		switch n.Op {
		case token.NOT:
			a := c.expr(n.X, pre)
			return wval{typ: "prop", expr: "(¬ " + wAsProp(a) + ")"}
		case token.SUB:
			a := c.expr(n.X, pre)
			if c.kind(a.typ) != "int" {
				refuse("%s: negation of a %s", c.at(n), a.typ)
			}
			return wval{typ: a.typ, expr: "(- " + a.expr + ")", lit: a.lit}
		}
	case *ast.StarExpr:
		a := c.expr(n.X, pre)
		if strings.HasPrefix(a.typ, "*") {
			return wval{typ: a.typ[1:], expr: a.expr}
		}
	case *ast.BinaryExpr:
		return c.binary(n, pre)
	case *ast.IndexExpr:
		a := c.expr(n.X, pre)
		switch c.kind(a.typ) {
		case "array":
			lit, ok := n.Index.(*ast.BasicLit)
			if !ok || lit.Kind != token.INT || (lit.Value != "0" && lit.Value != "1") || w.arrayLen(a.typ) != 2 {
				refuse("%s: an array is indexed by other than the constants 0, 1 of a pair", c.at(n))
			}
			proj := map[string]string{"0": ".1", "1": ".2"}[lit.Value]
			return wval{typ: w.elem(a.typ), expr: "(" + a.expr + ")" + proj}
		case "slice":
			i := c.expr(n.Index, pre)
			if c.kind(i.typ) != "int" {
				refuse("%s: index of type %s", c.at(n), i.typ)
			}
			t := c.bind(pre, fmt.Sprintf("wsIdx %s %s", a.expr, i.expr), "x")
			return wval{typ: w.elem(a.typ), expr: t}
		}
		refuse("%s: index expression on a %s outside the subset", c.at(n), a.typ)
	case *ast.SliceExpr:
		a := c.expr(n.X, pre)
		if c.kind(a.typ) != "slice" || n.Slice3 {
			refuse("%s: slice expression on a %s outside the subset", c.at(n), a.typ)
		}
		var op string
		switch {
		case n.Low != nil && n.High == nil:
			op = fmt.Sprintf("wsFrom %s %s", a.expr, c.intExpr(n.Low, pre))
		case n.Low == nil && n.High != nil:
			op = fmt.Sprintf("wsTo %s %s", a.expr, c.intExpr(n.High, pre))
		case n.Low != nil && n.High != nil:
			lo := c.intExpr(n.Low, pre)
			op = fmt.Sprintf("wsSlice %s %s %s", a.expr, lo, c.intExpr(n.High, pre))
		default:
			return a
		}
		t := c.bind(pre, op, "x")
		return wval{typ: a.typ, expr: t}
	case *ast.CompositeLit:
		return c.composite(n, pre)
	case *ast.CallExpr:
		return c.call(n, pre)
	}
	refuse("%s: expression %s outside the subset", c.at(x), exprString(x))
	return wval{}
}

func (c *wctx) intExpr(x ast.Expr, pre *[]wbind) string {
	v := c.expr(x, pre)
	if c.kind(v.typ) != "int" {
		refuse("%s: an int is expected, got %s", c.at(x), v.typ)
	}
	return v.expr
}

func (c *wctx) binary(n *ast.BinaryExpr, pre *[]wbind) wval {
	var preR []wbind
	a := c.expr(n.X, pre)
	b := c.expr(n.Y, &preR)
	if n.Op == token.LAND || n.Op == token.LOR {
		if len(preR) > 0 {
			refuse("%s: a checked operation behind %s (evaluated conditionally)", c.at(n), n.Op)
		}
		op := map[token.Token]string{token.LAND: "∧", token.LOR: "∨"}[n.Op]
		return wval{typ: "prop", expr: "(" + wAsProp(a) + " " + op + " " + wAsProp(b) + ")"}
	}
	*pre = append(*pre, preR...)
	ka, kb := c.kind(a.typ), c.kind(b.typ)
	if a.typ == "nil" || b.typ == "nil" {
		v, other := a, b
		if a.typ == "nil" {
			v, other = b, a
		}
		_ = other
		if c.kind(v.typ) != "map" || (n.Op != token.EQL && n.Op != token.NEQ) {
			refuse("%s: comparison with nil outside the subset", c.at(n))
		}
		if n.Op == token.EQL {
			return wval{typ: "prop", expr: "(" + v.expr + " = none)"}
		}
		return wval{typ: "prop", expr: "(" + v.expr + " ≠ none)"}
	}
	if ka != kb {
		refuse("%s: operands of %s have the kinds %s and %s", c.at(n), n.Op, ka, kb)
	}
	if !a.lit && !b.lit && c.f.m.w.base(a.typ) != c.f.m.w.base(b.typ) {
		refuse("%s: operands of %s have the types %s and %s", c.at(n), n.Op, a.typ, b.typ)
	}
	typ := a.typ
	if a.lit {
		typ = b.typ
	}
	lit := a.lit && b.lit
	switch n.Op {
	case token.ADD:
		switch ka {
		case "string":
			return wval{typ: typ, expr: "(" + a.expr + " ++ " + b.expr + ")", lit: lit}
		case "int":
			return wval{typ: typ, expr: "(" + a.expr + " + " + b.expr + ")", lit: lit}
		}
	case token.QUO:
		// Go's `/` truncates towards zero; only a non-zero literal divisor (no division panic)
		if ka == "int" && b.lit && b.expr != "(0 : Int)" {
			return wval{typ: typ, expr: "(Int.tdiv " + a.expr + " " + b.expr + ")", lit: lit}
		}
	case token.SUB, token.MUL:
		if ka == "int" {
			return wval{typ: typ, expr: "(" + a.expr + " " + n.Op.String() + " " + b.expr + ")", lit: lit}
		}
	case token.EQL, token.NEQ:
		op := map[token.Token]string{token.EQL: "=", token.NEQ: "≠"}[n.Op]
		if a.lit && !b.lit {
			// `"" != x` is written like `x != ""`
			a, b = b, a
		}
		switch ka {
		case "string", "int", "byte":
			return wval{typ: "prop", expr: "(" + a.expr + " " + op + " " + b.expr + ")"}
		case "bool":
			return wval{typ: "prop", expr: "(" + wAsBool(a) + " " + op + " " + wAsBool(b) + ")"}
		}
	case token.LSS, token.LEQ, token.GTR, token.GEQ:
		op := map[token.Token]string{token.LSS: "<", token.LEQ: "≤", token.GTR: ">", token.GEQ: "≥"}[n.Op]
		if ka == "int" {
			return wval{typ: "prop", expr: "(" + a.expr + " " + op + " " + b.expr + ")"}
		}
		if ka == "string" {
			// the order of Go strings: bytewise lexicographic
			switch n.Op {
			case token.LSS:
				return wval{typ: "bool", expr: "(wsStrLt " + a.expr + " " + b.expr + ")"}
			case token.GTR:
				return wval{typ: "bool", expr: "(wsStrLt " + b.expr + " " + a.expr + ")"}
			}
		}
	}
	refuse("%s: operator %s on %s outside the subset", c.at(n), n.Op, ka)
	return wval{}
}

// convertTo: an expression used where the Go type `want` is expected (untyped constants, identical readings)
func (c *wctx) convertTo(v wval, want string, n ast.Node) string {
	v = wScalar(v)
	if v.typ == "nil" {
		switch c.kind(want) {
		case "map", "region":
			return "none"
		case "slice":
			return "[]"
		}
		refuse("%s: nil where a %s is expected", c.at(n), want)
	}
	if c.kind(want) == "region" && v.typ != want {
		// a gts.Segment stored in a gts.Region
		if c.f.m.w.base(v.typ) == "[2]int" {
			return "(some " + v.expr + ")"
		}
	}
	if want == "gts.Location" && v.typ == "gts.Ranged!loc" {
		return v.expr
	}
	la, lb := c.lean(v.typ), c.lean(want)
	if la != lb {
		refuse("%s: a %s is used where a %s is expected", c.at(n), v.typ, want)
	}
	return v.expr
}

func (c *wctx) composite(n *ast.CompositeLit, pre *[]wbind) wval {
	w := c.f.m.w
	if n.Type == nil {
		refuse("%s: composite literal without a type", c.at(n))
	}
	t := w.typ(c.f.p, n.Type)
	if t == "strings.Builder" {
		if len(n.Elts) != 0 {
			refuse("%s: strings.Builder literal with fields", c.at(n))
		}
		return wval{typ: t, expr: "([] : List UInt8)"}
	}
	switch c.kind(t) {
	case "slice":
		if len(n.Elts) != 0 {
			refuse("%s: a non-empty slice literal", c.at(n))
		}
		return wval{typ: t, expr: "([] : " + c.lean(t) + ")"}
	case "array":
		if w.arrayLen(t) != 2 || len(n.Elts) != 2 {
			refuse("%s: array literal outside the subset", c.at(n))
		}
		var es []string
		for _, e := range n.Elts {
			if _, kv := e.(*ast.KeyValueExpr); kv {
				refuse("%s: keyed array literal", c.at(n))
			}
			es = append(es, c.convertTo(c.expr(e, pre), w.elem(t), e))
		}
		return wval{typ: t, expr: "(" + es[0] + ", " + es[1] + ")"}
	case "struct":
		if t == "strings.Builder" {
			break
		}
		fs, _ := w.structOf(t)
		vals := map[string]string{}
		if len(n.Elts) != len(fs) {
			refuse("%s: the literal of %s does not give every field (zero values are outside the subset)", c.at(n), t)
		}
		for i, e := range n.Elts {
			if kv, ok := e.(*ast.KeyValueExpr); ok {
				k := exprString(kv.Key)
				found := false
				for _, f := range fs {
					if f.name == k {
						vals[k] = c.convertTo(c.expr(kv.Value, pre), f.typ, e)
						found = true
					}
				}
				if !found {
					refuse("%s: the type %s has no field %s", c.at(n), t, k)
				}
			} else {
				vals[fs[i].name] = c.convertTo(c.expr(e, pre), fs[i].typ, e)
			}
		}
		if len(vals) != len(fs) {
			refuse("%s: the literal of %s mixes or repeats fields", c.at(n), t)
		}
		var parts []string
		for _, f := range fs {
			parts = append(parts, f.name+" := "+vals[f.name])
		}
		return wval{typ: t, expr: "({ " + strings.Join(parts, ", ") + " } : " + c.lean(t) + ")"}
	}
	refuse("%s: composite literal of %s outside the subset", c.at(n), t)
	return wval{}
}

// ---- fmt.Sprintf ----------------------------------------------------------------------------------------

type wverb struct {
	lit   string
	verb  byte
	minus bool
	width int
}

func wParseFormat(f string) ([]wverb, bool) {
	var out []wverb
	lit := ""
	for i := 0; i < len(f); i++ {
		if f[i] != '%' {
			lit += string(f[i])
			continue
		}
		i++
		if i >= len(f) {
			return nil, false
		}
		if f[i] == '%' {
			lit += "%"
			continue
		}
		v := wverb{}
		if f[i] == '-' {
			v.minus = true
			i++
		}
		for i < len(f) && f[i] >= '0' && f[i] <= '9' {
			if v.width == 0 && f[i] == '0' {
				return nil, false // zero padding
			}
			v.width = v.width*10 + int(f[i]-'0')
			i++
		}
		if i >= len(f) || (f[i] != 's' && f[i] != 'd') {
			return nil, false
		}
		v.verb = f[i]
		if lit != "" {
			out = append(out, wverb{lit: lit})
			lit = ""
		}
		out = append(out, v)
	}
	if lit != "" {
		out = append(out, wverb{lit: lit})
	}
	return out, true
}

// stringOf: what `%s` prints for a value (its String method when the type has one)
func (c *wctx) stringOf(v wval, n ast.Node, pre *[]wbind) string {
	w := c.f.m.w
	if v.typ == "gts.Location" || v.typ == "gts.Ranged!loc" {
		return "(" + c.special("locString_") + " " + v.expr + ")"
	}
	t := strings.TrimPrefix(v.typ, "*")
	if p, _, ok := w.named(t); ok {
		if _, has := p.funcs[wStructName(t)+".String"]; has {
			r := c.callKey(p, wStructName(t)+".String", []wval{v}, n, pre)
			return r.expr
		}
		for _, m := range []string{"Error", "Format", "GoString"} {
			if _, has := p.funcs[wStructName(t)+"."+m]; has {
				refuse("%s: %%s of a %s, which declares %s", c.at(n), t, m)
			}
		}
	}
	if c.kind(v.typ) != "string" {
		refuse("%s: %%s of a %s", c.at(n), v.typ)
	}
	return v.expr
}

func (c *wctx) sprintf(n *ast.CallExpr, pre *[]wbind) wval {
	if len(n.Args) == 0 || n.Ellipsis.IsValid() {
		refuse("%s: fmt.Sprintf outside the subset", c.at(n))
	}
	f, ok := stringLiteral(n.Args[0])
	if !ok {
		refuse("%s: the format of fmt.Sprintf is not a string literal", c.at(n))
	}
	vs, ok := wParseFormat(f)
	if !ok {
		refuse("%s: the format %q is outside the subset (text, %%%%, %%s, %%d, `-`, width)", c.at(n), f)
	}
	var parts []string
	ai := 1
	for _, v := range vs {
		if v.verb == 0 {
			parts = append(parts, wBytesLit(v.lit))
			continue
		}
		if ai >= len(n.Args) {
			refuse("%s: the format %q has more verbs than arguments", c.at(n), f)
		}
		a := c.expr(n.Args[ai], pre)
		ai++
		var s string
		switch v.verb {
		case 's':
			s = c.stringOf(a, n.Args[ai-1], pre)
		case 'd':
			if c.kind(a.typ) != "int" {
				refuse("%s: %%d of a %s", c.at(n), a.typ)
			}
			if t := strings.TrimPrefix(a.typ, "*"); t != "int" {
				if p, _, ok := c.f.m.w.named(t); ok {
					if _, has := p.funcs[wStructName(t)+".Format"]; has {
						refuse("%s: %%d of a %s, which declares Format", c.at(n), t)
					}
				}
			}
			s = "(" + c.special("itoa_") + " " + a.expr + ")"
		}
		if v.width > 0 {
			if v.minus {
				s = fmt.Sprintf("(wsPadRight %d %s)", v.width, s)
			} else {
				s = fmt.Sprintf("(wsPadLeft %d %s)", v.width, s)
			}
		}
		parts = append(parts, s)
	}
	if ai != len(n.Args) {
		refuse("%s: the format %q has fewer verbs than arguments", c.at(n), f)
	}
	if len(parts) == 0 {
		return wval{typ: "string", expr: "([] : List UInt8)"}
	}
	if len(parts) == 1 {
		return wval{typ: "string", expr: parts[0]}
	}
	return wval{typ: "string", expr: "(" + strings.Join(parts, " ++ ") + ")"}
}

// ---- calls ------------------------------------------------------------------------------------------------

func (c *wctx) args(n *ast.CallExpr, pre *[]wbind) []wval {
	if n.Ellipsis.IsValid() {
		refuse("%s: a call with `...`", c.at(n))
	}
	if len(n.Args) == 1 {
		// f(g()) with a multi-valued g
		if _, ok := n.Args[0].(*ast.CallExpr); ok {
			v := c.exprN(n.Args[0], pre)
			if v.multi != nil {
				var pats []string
				var out []wval
				for _, t := range v.multi {
					nm := c.tmp("r")
					pats = append(pats, nm)
					out = append(out, wval{typ: t, expr: nm})
				}
				// a pure tuple is taken apart by a bind on `some`
				if !c.eff {
					// projections keep the scope pure
					out = out[:0]
					cur := v.expr
					for i, t := range v.multi {
						if i == len(v.multi)-1 {
							out = append(out, wval{typ: t, expr: cur})
						} else {
							out = append(out, wval{typ: t, expr: "(" + cur + ").1"})
							cur = "(" + cur + ").2"
						}
					}
					return out
				}
				*pre = append(*pre, wbind{"(" + strings.Join(pats, ", ") + ")", "some " + v.expr})
				return out
			}
			return []wval{v}
		}
	}
	var out []wval
	for _, a := range n.Args {
		out = append(out, c.expr(a, pre))
	}
	return out
}

func (c *wctx) call(n *ast.CallExpr, pre *[]wbind) wval {
	w := c.f.m.w
	fun := exprString(n.Fun)
	if c.f.callExt != nil {
		if v, ok := c.f.callExt(c, n, pre); ok {
			return v
		}
	}
	// conversions and builtins
	switch fun {
	case "len":
		if len(n.Args) != 1 {
			refuse("%s: len", c.at(n))
		}
		a := c.expr(n.Args[0], pre)
		switch c.kind(a.typ) {
		case "string", "slice":
			return wval{typ: "int", expr: "((" + a.expr + ").length : Int)"}
		}
		refuse("%s: len of a %s", c.at(n), a.typ)
	case "string", "[]byte":
		if len(n.Args) != 1 {
			refuse("%s: conversion", c.at(n))
		}
		a := c.expr(n.Args[0], pre)
		if c.lean(a.typ) != "List UInt8" {
			refuse("%s: conversion of a %s to %s", c.at(n), a.typ, fun)
		}
		return wval{typ: fun, expr: a.expr}
	case "append":
		if len(n.Args) != 2 || n.Ellipsis.IsValid() {
			refuse("%s: append outside the subset", c.at(n))
		}
		id, ok := n.Args[0].(*ast.Ident)
		if !ok || c.vars[id.Name] == nil || !c.vars[id.Name].fresh {
			refuse("%s: append to a slice that was not made in this function (it can write into the caller's array)", c.at(n))
		}
		a := c.expr(n.Args[0], pre)
		b := c.expr(n.Args[1], pre)
		return wval{typ: a.typ, expr: "(" + a.expr + " ++ [" + c.convertTo(b, w.elem(a.typ), n) + "])"}
	case "make":
		if len(n.Args) != 2 {
			refuse("%s: make outside the subset", c.at(n))
		}
		t := w.typ(c.f.p, n.Args[0])
		if c.kind(t) != "slice" {
			refuse("%s: make of a %s", c.at(n), t)
		}
		zero := c.zero(w.elem(t), n)
		ln := c.intExpr(n.Args[1], pre)
		tm := c.bind(pre, fmt.Sprintf("wsMake %s %s", zero, ln), "x")
		return wval{typ: t, expr: tm}
	case "fmt.Sprintf":
		return c.sprintf(n, pre)
	case "strconv.Itoa":
		a := c.args(n, pre)
		if len(a) != 1 || c.kind(a[0].typ) != "int" {
			refuse("%s: strconv.Itoa", c.at(n))
		}
		return wval{typ: "string", expr: "(" + c.special("itoa_") + " " + a[0].expr + ")"}
	case "strings.ToUpper":
		a := c.args(n, pre)
		if len(a) != 1 || c.kind(a[0].typ) != "string" {
			refuse("%s: strings.ToUpper", c.at(n))
		}
		return wval{typ: "string", expr: "(" + c.special("toUpper_") + " " + a[0].expr + ")"}
	case "strings.Repeat":
		a := c.args(n, pre)
		if len(a) != 2 || c.kind(a[0].typ) != "string" || c.kind(a[1].typ) != "int" {
			refuse("%s: strings.Repeat", c.at(n))
		}
		t := c.bind(pre, fmt.Sprintf("wsRepeat %s %s", a[0].expr, a[1].expr), "x")
		return wval{typ: "string", expr: t}
	case "strings.Join":
		a := c.args(n, pre)
		if len(a) != 2 || w.base(a[0].typ) != "[]string" || c.kind(a[1].typ) != "string" {
			refuse("%s: strings.Join", c.at(n))
		}
		return wval{typ: "string", expr: "(wsJoin " + a[1].expr + " " + a[0].expr + ")"}
	case "strings.ReplaceAll", "strings.Replace":
		want := 3
		if fun == "strings.Replace" {
			want = 4
			if len(n.Args) != 4 || exprString(n.Args[3]) != "-1" {
				refuse("%s: strings.Replace with a count other than -1", c.at(n))
			}
		}
		if len(n.Args) != want {
			refuse("%s: %s", c.at(n), fun)
		}
		old, ok := stringLiteral(n.Args[1])
		if !ok || len(old) != 1 {
			refuse("%s: %s with an old string that is not a one-byte literal", c.at(n), fun)
		}
		s := c.expr(n.Args[0], pre)
		nw := c.expr(n.Args[2], pre)
		if c.kind(s.typ) != "string" || c.kind(nw.typ) != "string" {
			refuse("%s: %s", c.at(n), fun)
		}
		return wval{typ: "string", expr: fmt.Sprintf("(wsReplaceByte (%d : UInt8) %s %s)", old[0], nw.expr, s.expr)}
	case "wrap.Space", "wrap.Force":
		a := c.args(n, pre)
		if len(a) != 2 || c.kind(a[0].typ) != "string" || c.kind(a[1].typ) != "int" {
			refuse("%s: %s", c.at(n), fun)
		}
		sp := map[string]string{"wrap.Space": "wrapSpace_", "wrap.Force": "wrapForce_"}[fun]
		return wval{typ: "string", expr: "(" + c.special(sp) + " " + a[0].expr + " " + a[1].expr + ")"}
	case "gts.Range":
		a := c.args(n, pre)
		if len(a) != 2 || c.kind(a[0].typ) != "int" || c.kind(a[1].typ) != "int" {
			refuse("%s: gts.Range", c.at(n))
		}
		c.f.m.checkRange()
		t := c.bind(pre, fmt.Sprintf("wsRange %s %s", a[0].expr, a[1].expr), "x")
		return wval{typ: "gts.Ranged!loc", expr: t}
	}
	switch f := n.Fun.(type) {
	case *ast.Ident:
		if _, isVar := c.vars[f.Name]; isVar {
			break
		}
		if _, ok := c.f.p.funcs[f.Name]; ok {
			return c.callKey(c.f.p, f.Name, c.args(n, pre), n, pre)
		}
		// a conversion to a named type of the package
		if _, ok := c.f.p.types[f.Name]; ok && len(n.Args) == 1 {
			a := c.expr(n.Args[0], pre)
			t := c.f.p.name + "." + f.Name
			if c.lean(a.typ) == c.lean(t) {
				return wval{typ: t, expr: a.expr}
			}
		}
	case *ast.SelectorExpr:
		if id, ok := f.X.(*ast.Ident); ok {
			if _, isVar := c.vars[id.Name]; !isVar {
				p, ok := w.pkgs[id.Name]
				if !ok {
					refuse("%s: call of %s outside the subset", c.at(n), fun)
				}
				if _, ok := p.funcs[f.Sel.Name]; ok {
					return c.callKey(p, f.Sel.Name, c.args(n, pre), n, pre)
				}
				refuse("%s: call of %s outside the subset", c.at(n), fun)
			}
		}
		return c.method(n, f, pre)
	}
	refuse("%s: call of %s outside the subset", c.at(n), fun)
	return wval{}
}

func (c *wctx) zero(t string, n ast.Node) string {
	switch c.kind(t) {
	case "string":
		return "([] : List UInt8)"
	case "int":
		return "(0 : Int)"
	}
	refuse("%s: zero value of %s", c.at(n), t)
	return ""
}

// method: a call `recv.M(args)`
func (c *wctx) method(n *ast.CallExpr, f *ast.SelectorExpr, pre *[]wbind) wval {
	w := c.f.m.w
	// time formatting: X.ToTime().Format("layout") with X a seqio.Date
	if f.Sel.Name == "Format" && len(n.Args) == 1 {
		if inner, ok := f.X.(*ast.CallExpr); ok {
			if is, ok := inner.Fun.(*ast.SelectorExpr); ok && is.Sel.Name == "ToTime" && len(inner.Args) == 0 {
				d := c.expr(is.X, pre)
				layout, ok := stringLiteral(n.Args[0])
				if d.typ != "seqio.Date" || !ok {
					refuse("%s: ToTime().Format outside the subset", c.at(n))
				}
				c.f.m.checkToTime()
				return wval{typ: "string", expr: fmt.Sprintf("(%s %s (%s).Year (%s).Month (%s).Day)", c.special("timeFormat_"), leanStr(layout), d.expr, d.expr, d.expr)}
			}
		}
	}
	// a builder
	if id, ok := f.X.(*ast.Ident); ok {
		if v := c.vars[id.Name]; v != nil && v.builder {
			if f.Sel.Name == "String" && len(n.Args) == 0 {
				c.marks[id.Name] = true
				return wval{typ: "string", expr: wname(id.Name)}
			}
			refuse("%s: %s on a strings.Builder is not an expression of the subset", c.at(n), f.Sel.Name)
		}
	}
	r := c.expr(f.X, pre)
	// a field of function type
	t := strings.TrimPrefix(r.typ, "*")
	if fs, ok := w.structOf(t); ok {
		for _, fl := range fs {
			if fl.name == f.Sel.Name {
				if c.kind(fl.typ) != "func" {
					refuse("%s: call of the field %s of type %s", c.at(n), fl.name, fl.typ)
				}
				ps, res := wFuncSig(w.base(fl.typ))
				as := c.args(n, pre)
				if len(as) != len(ps) {
					refuse("%s: call of %s with %d arguments", c.at(n), fl.name, len(as))
				}
				call := "((" + r.expr + ")." + fl.name
				for i, a := range as {
					call += " " + c.convertTo(a, ps[i], n)
				}
				return wval{typ: res, expr: call + ")"}
			}
		}
	}
	if r.typ == "gts.Location" || r.typ == "gts.Ranged!loc" {
		if f.Sel.Name == "String" && len(n.Args) == 0 {
			return wval{typ: "string", expr: "(" + c.special("locString_") + " " + r.expr + ")"}
		}
		refuse("%s: method %s of a Location", c.at(n), f.Sel.Name)
	}
	if r.typ == "*seqio.Origin" && f.Sel.Name == "String" && len(n.Args) == 0 {
		tm := c.bind(pre, c.special("originString_")+" "+r.expr, "x")
		return wval{typ: "string", expr: tm}
	}
	p, _, ok := w.named(t)
	if !ok {
		refuse("%s: method %s of a %s", c.at(n), f.Sel.Name, r.typ)
	}
	key := wStructName(t) + "." + f.Sel.Name
	if _, ok := p.funcs[key]; !ok {
		refuse("%s: the type %s has no method %s", c.at(n), t, f.Sel.Name)
	}
	return c.callKey(p, key, append([]wval{r}, c.args(n, pre)...), n, pre)
}

// callKey calls the function / method `key` of package p (translating it first when needed)
func (c *wctx) callKey(p *wpkg, key string, args []wval, n ast.Node, pre *[]wbind) wval {
	full := p.name + "." + key
	if pf, ok := wParamFuncs[full]; ok {
		fd := p.funcs[key]
		if fd == nil {
			refuse("%s: %s not found", c.at(n), full)
		}
		call := "(" + c.special(pf[0])
		for _, a := range args {
			call += " " + wScalar(a).expr
		}
		return wval{typ: pf[1], expr: call + ")"}
	}
	cal := c.f.m.callee(p, key)
	if len(args) != len(cal.params) {
		refuse("%s: %s is called with %d arguments", c.at(n), full, len(args))
	}
	call := cal.lean
	if cal.fuel {
		if c.f.base != cal.lean {
			refuse("%s: the recursive function %s is called from another function", c.at(n), full)
		}
		call += " fuel"
	}
	for _, s := range cal.specials {
		call += " " + c.special(s)
	}
	for i, a := range args {
		call += " " + c.convertTo(a, cal.params[i], n)
	}
	call = "(" + call + ")"
	if cal.effect {
		call = c.bind(pre, call[1:len(call)-1], "x")
	}
	if len(cal.results) == 1 {
		return wval{typ: cal.results[0], expr: call}
	}
	return wval{typ: "tuple", expr: call, multi: cal.results}
}

// ---- functions ------------------------------------------------------------------------------------------------

func wLowerFirst(s string) string {
	if s == "" {
		return s
	}
	// an all-capitals prefix (INSDCFormatter, ID) goes down as a whole
	i := 0
	for i < len(s) && s[i] >= 'A' && s[i] <= 'Z' {
		i++
	}
	if i == len(s) {
		return strings.ToLower(s)
	}
	if i > 1 {
		i--
	}
	if i == 0 {
		return s
	}
	return strings.ToLower(s[:i]) + s[i:]
}

func wLeanFuncName(key string) string {
	if i := strings.IndexByte(key, '.'); i >= 0 {
		return wLowerFirst(key[:i]) + key[i+1:]
	}
	return wLowerFirst(key)
}

// callee translates (once) the function / method `key` of package p
func (m *wmod) callee(p *wpkg, key string) *wcallee {
	full := p.name + "." + key
	if cal, ok := m.known[full]; ok {
		return cal
	}
	fd := p.funcs[key]
	if fd == nil || fd.Body == nil {
		refuse("%s not found", full)
	}
	lean := wLeanFuncName(key)
	if p.name != "seqio" && fd.Recv == nil {
		// a plain function of another package: gts.Max is gtsMax (`max` would hide Lean's own)
		lean = p.name + strings.ToUpper(key[:1]) + key[1:]
	}
	return m.calleeFrom(p, key, fd, lean, "")
}

// calleeFrom translates the declaration fd (the function `key` itself, or a variant of it built by a
// generator: `note` says how it was derived) under the Lean name `lean`
func (m *wmod) calleeFrom(p *wpkg, key string, fd *ast.FuncDecl, lean, note string) *wcallee {
	full := p.name + "." + key
	if m.busy[full] {
		refuse("%s is (mutually) recursive", full)
	}
	m.busy[full] = true
	defer delete(m.busy, full)
	selfRec := fd.Recv == nil && len(callsNamed(fd.Body, fd.Name.Name)) > 0
	if fd.Type.TypeParams != nil {
		refuse("%s is generic", full)
	}
	if orig := p.funcs[key]; orig != nil {
		p.checkImports(p.fileOf[orig])
	}
	f := &wfn{m: m, p: p, base: lean, used: map[string]bool{}, callExt: m.callExt, stmtExt: m.stmtExt}
	pos := p.fset.Position(fd.Pos())
	f.what = fmt.Sprintf("%s `%s`", pos.Filename[strings.LastIndex(pos.Filename, "/")+1:], key)
	if note != "" {
		f.what += " (" + note + ")"
	}
	cal := &wcallee{lean: f.base}
	type par struct{ name, typ string }
	var pars []par
	if fd.Recv != nil {
		r := fd.Recv.List[0]
		rt := m.w.typ(p, r.Type)
		rt = strings.TrimPrefix(rt, "*")
		if p.ptrRecv[key] {
			rt = "*" + rt
		}
		name := "_"
		if len(r.Names) == 1 {
			name = r.Names[0].Name
		}
		pars = append(pars, par{name, rt})
	}
	for _, fl := range fd.Type.Params.List {
		if _, variadic := fl.Type.(*ast.Ellipsis); variadic {
			refuse("%s is variadic", full)
		}
		t := m.w.typ(p, fl.Type)
		if len(fl.Names) == 0 {
			pars = append(pars, par{"_", t})
		}
		for _, nm := range fl.Names {
			pars = append(pars, par{nm.Name, t})
		}
	}
	if fd.Type.Results == nil {
		refuse("%s has no result", full)
	}
	for _, fl := range fd.Type.Results.List {
		if len(fl.Names) > 0 {
			refuse("%s has named results", full)
		}
		t := "interface{}"
		if it, ok := fl.Type.(*ast.InterfaceType); !ok || (it.Methods != nil && len(it.Methods.List) > 0) {
			t = m.w.typ(p, fl.Type)
		}
		cal.results = append(cal.results, t)
	}

	for _, pr := range pars {
		cal.params = append(cal.params, pr.typ)
	}
	if selfRec {
		cal.fuel, cal.effect = true, true
		m.known[full] = cal
		defer func() {
			if m.known[full] == cal && len(m.defs) > 0 && !strings.Contains(m.defs[len(m.defs)-1], "def "+cal.lean+" ") {
				delete(m.known, full)
			}
		}()
	}
	var body string
	translate := func(eff bool) {
		c := &wctx{f: f, vars: map[string]*wvar{}, marks: map[string]bool{}, eff: eff}
		for _, pr := range pars {
			if pr.name != "_" {
				if _, dup := c.vars[pr.name]; dup {
					refuse("%s: parameter %s twice", full, pr.name)
				}
				c.declare(pr.name, pr.typ)
				c.ownSet(pr.name)
			}
		}
		c.ret = func(c *wctx, vals []wval) string {
			if len(vals) != len(cal.results) {
				refuse("%s: return of %d values", full, len(vals))
			}
			var es []string
			for i, v := range vals {
				if cal.results[i] == "interface{}" {
					// the dynamic type is the static type of the returned expression
					if len(cal.results) != 1 {
						refuse("%s: interface{} among several results", full)
					}
					if prev, ok := m.ifaceResult[full]; ok && prev != wScalar(v).typ {
						refuse("%s returns values of the types %s and %s as interface{}", full, prev, v.typ)
					}
					m.ifaceResult[full] = wScalar(v).typ
					es = append(es, wScalar(v).expr)
					continue
				}
				es = append(es, c.convertTo(v, cal.results[i], fd))
			}
			t := es[0]
			if len(es) > 1 {
				t = "(" + strings.Join(es, ", ") + ")"
			}
			if c.eff {
				return "some " + wParen(t)
			}
			return t
		}
		if !wTerminates(fd.Body.List) {
			refuse("%s: the body does not end in a return on every path", full)
		}
		body = c.stmts(fd.Body.List, func(c *wctx) string {
			refuse("%s: a path of the body does not return", full)
			return ""
		})
	}
	snap := f.snapshot()
	if selfRec {
		translate(true)
		for k := range f.used {
			refuse("%s: a recursive function that uses the parameter %s", full, k)
		}
	} else if !wCatch(func() { translate(false) }) {
		f.restore(snap)
		f.used = map[string]bool{}
		cal.effect = true
		translate(true)
	}
	for i, r := range cal.results {
		if r == "interface{}" {
			cal.results[i] = m.ifaceResult[full]
		}
	}
	for _, sp := range wSpecials {
		if f.used[sp.name] {
			cal.specials = append(cal.specials, sp.name)
		}
	}
	// the definition
	b := strings.Builder{}
	for _, h := range f.helpers {
		b.WriteString(h + "\n")
	}
	var rts []string
	for _, r := range cal.results {
		rts = append(rts, wParen(m.w.lean(r, m.need)))
	}
	rt := strings.Join(rts, " × ")
	if cal.effect {
		rt = "Option " + wParen(rt)
	}
	doc := f.what
	if cal.effect {
		doc += " (`none` = a run-time panic)"
	}
	if cal.fuel {
		doc += "; the function calls itself: `fuel` bounds the depth, `none` also when it runs out"
	}
	fmt.Fprintf(&b, "/-- %s -/\ndef %s", doc, f.base)
	if cal.fuel {
		b.WriteString(" (fuel : Nat)")
	}
	for _, s := range cal.specials {
		b.WriteString(" " + wSpecialBinder(s))
	}
	for i, pr := range pars {
		nm := wname(pr.name)
		if pr.name == "_" {
			nm = fmt.Sprintf("a%d_", i)
		}
		fmt.Fprintf(&b, " (%s : %s)", nm, m.w.lean(pr.typ, m.need))
	}
	if cal.fuel {
		fmt.Fprintf(&b, " : %s :=\n  match fuel with\n  | 0 => none\n  | fuel + 1 =>\n%s\n", rt, wIndent(wIndent(body)))
	} else {
		fmt.Fprintf(&b, " : %s :=\n%s\n", rt, wIndent(body))
	}
	m.defs = append(m.defs, b.String())
	m.known[full] = cal
	return cal
}

func wSpecialBinder(name string) string {
	for _, sp := range wSpecials {
		if sp.name == name {
			return sp.binder
		}
	}
	return ""
}

func wIndent(s string) string {
	lines := strings.Split(s, "\n")
	for i := range lines {
		lines[i] = "  " + lines[i]
	}
	return strings.Join(lines, "\n")
}

// wCatch runs f; false when it needed an effect in a pure scope
func wCatch(f func()) (ok bool) {
	defer func() {
		if r := recover(); r != nil {
			if _, is := r.(wNeedEffect); is {
				ok = false
				return
			}
			panic(r)
		}
	}()
	f()
	return true
}

// wTerminates: every path through the statements ends in a return
func wTerminates(list []ast.Stmt) bool {
	if len(list) == 0 {
		return false
	}
	switch s := list[len(list)-1].(type) {
	case *ast.ReturnStmt:
		return true
	case *ast.BlockStmt:
		return wTerminates(s.List)
	case *ast.IfStmt:
		if s.Else == nil {
			return false
		}
		switch e := s.Else.(type) {
		case *ast.BlockStmt:
			return wTerminates(s.Body.List) && wTerminates(e.List)
		case *ast.IfStmt:
			return wTerminates(s.Body.List) && wTerminates([]ast.Stmt{e})
		}
	case *ast.SwitchStmt:
		hasDefault := false
		for _, cl := range s.Body.List {
			cc := cl.(*ast.CaseClause)
			if cc.List == nil {
				hasDefault = true
			}
			if !wTerminates(cc.Body) {
				return false
			}
		}
		return hasDefault
	}
	return false
}

// wReturns: some path contains a return
func wReturns(list []ast.Stmt) bool {
	found := false
	for _, s := range list {
		ast.Inspect(s, func(n ast.Node) bool {
			switch n.(type) {
			case *ast.ReturnStmt:
				found = true
			case *ast.FuncLit:
				return false
			}
			return true
		})
	}
	return found
}

// sortedKeys of a set
func wSorted(m map[string]bool) []string {
	var ks []string
	for k := range m {
		ks = append(ks, k)
	}
	sort.Strings(ks)
	return ks
}
