package main

// Translator for straight-line integer / location-constructor functions (DESIGN.md 4.1a).
//
// Subset: int and bool parameters and results, receivers of the contiguous location kinds,
// `:=`, `=`, parallel assignment, `+=`, `-=`, field assignment on struct-valued locals,
// `if` / `if-else` / `else if` (either every path of the body returns, or none does), tagless `switch`
// whose clauses all return, `return`; expressions over + - * / % comparisons && || ! unary -,
// calls to other translated functions and to the location constructors.  The output is a
// *pure* Lean term: assignments become shadowing `let`s, an `if` whose body returns turns the
// rest of the block into the `else` branch, an `if` that only assigns becomes a `let` of the
// tuple of the variables it assigns.  Go `int` is Lean `Int`; `/` and `%` are the truncating
// `Int.tdiv` / `Int.tmod`.  Anything else is refused.

import (
	"fmt"
	"go/ast"
	"go/parser"
	"go/token"
	"path/filepath"
	"sort"
	"strings"
)

type arithFn struct {
	file string // path below the repository root
	recv string // receiver type name, "" for a plain function
	name string
	lean string // name of the generated definition (in namespace Gts.Gen)
	fuel bool   // the function calls itself: generated with an explicit fuel argument
}

// group: the generated module a function goes to (one module per source area, so that a
// refusal in one area only stops the theorems that depend on that area)
func (f arithFn) group() string {
	switch {
	case strings.HasPrefix(f.file, "seqio/origin"):
		return "Origin"
	case f.file == "modifier.go":
		return "Modifier"
	}
	return ""
}

var arithFns = []arithFn{
	{"utils.go", "", "Compare", "compare", false},
	{"utils.go", "", "Min", "gmin", false},
	{"utils.go", "", "Max", "gmax", false},
	{"location.go", "", "rangeCompare", "rangeCompare", false},
	{"location.go", "", "rangeWithin", "rangeWithin", false},
	{"location.go", "", "rangeOverlap", "rangeOverlap", false},
	{"seqio/origin.go", "", "toOriginLength", "toOriginLength", false},
	{"seqio/origin.go", "", "fromOriginLength", "fromOriginLength", false},
	{"location.go", "Between", "span", "betweenSpan", false},
	{"location.go", "Point", "span", "pointSpan", false},
	{"location.go", "Ranged", "span", "rangedSpan", false},
	{"location.go", "Ambiguous", "span", "ambiguousSpan", false},
	{"location.go", "Between", "Expand", "betweenExpand", false},
	{"location.go", "Between", "Shift", "betweenShift", false},
	{"location.go", "Between", "Reverse", "betweenReverse", false},
	{"location.go", "Between", "Normalize", "betweenNormalize", false},
	{"location.go", "Point", "Expand", "pointExpand", false},
	{"location.go", "Point", "Shift", "pointShift", false},
	{"location.go", "Point", "Reverse", "pointReverse", false},
	{"location.go", "Point", "Normalize", "pointNormalize", false},
	{"location.go", "Ranged", "Expand", "rangedExpand", false},
	{"location.go", "Ranged", "Shift", "rangedShift", false},
	{"location.go", "Ranged", "Reverse", "rangedReverse", false},
	{"location.go", "Ranged", "Normalize", "rangedNormalize", false},
	{"location.go", "Ambiguous", "Expand", "ambiguousExpand", false},
	{"location.go", "Ambiguous", "Shift", "ambiguousShift", false},
	{"location.go", "Ambiguous", "Reverse", "ambiguousReverse", false},
	{"location.go", "Ambiguous", "Normalize", "ambiguousNormalize", false},
	{"modifier.go", "Head", "Apply", "headApply", true},
	{"modifier.go", "Tail", "Apply", "tailApply", true},
	{"modifier.go", "HeadTail", "Apply", "headTailApply", true},
	{"modifier.go", "HeadHead", "Apply", "headHeadApply", true},
	{"modifier.go", "TailTail", "Apply", "tailTailApply", true},
}

// struct layouts the translator knows (checked against the source by checkStructs)
var structFields = map[string][]string{
	"Partial":   {"Partial5:bool", "Partial3:bool"},
	"Ranged":    {"Start:int", "End:int", "Partial:Partial"},
	"Ambiguous": {"Start:int", "End:int"},
	// [2]int modifiers: the two elements in order (read through Unpack)
	"HeadTail": {"E0:int", "E1:int"},
	"HeadHead": {"E0:int", "E1:int"},
	"TailTail": {"E0:int", "E1:int"},
	// region.go `type Segment [2]int` (read through Unpack or s[0] / s[1])
	"Segment": {"E0:int", "E1:int"},
}

var partialConsts = map[string][2]string{
	"Complete": {"false", "false"}, "Partial5": {"true", "false"},
	"Partial3": {"false", "true"}, "PartialBoth": {"true", "true"},
}

// a value during translation: a scalar Lean expression, or a struct of flattened fields
type val struct {
	typ    string // int | bool | prop | loc | Partial | Ranged | Ambiguous
	expr   string
	fields map[string]val
}

type env struct {
	vars    map[string]val
	results []string // result types of the function being translated
	fns     map[string]arithFn
	self    *arithFn // the function being translated (for self calls)
	recvVar string   // name of its receiver variable
	// extensions used by region.go only (nil / false in every other generator: nothing they generate changes)
	ext    func(e *env, stmts []ast.Stmt, k func(en *env) string) (string, bool) // statements beyond the straight-line subset
	bitops bool                                                                  // `>>` and `^` on ints (utils.go Abs)
	seq    map[string]int                                                        // order in which variables were introduced
	// a `Regions` value is seen as the list of the results of ONE method on its elements
	// (`rr[k].M()` is dynamic dispatch on the interface Region): the method, the Lean element
	// type and the value read outside the list (a Go panic)
	viewM, viewT, viewD string
	// extension used by locless.go / lockind.go only (nil elsewhere): calls beyond the integer subset
	// (a call of the function being translated on Location values, methods of interface values)
	callExt func(e *env, n *ast.CallExpr) (val, bool)
}

func (e *env) clone() *env {
	n := &env{vars: map[string]val{}, results: e.results, fns: e.fns, self: e.self, recvVar: e.recvVar,
		ext: e.ext, bitops: e.bitops, viewM: e.viewM, viewT: e.viewT, viewD: e.viewD}
	n.callExt = e.callExt
	for k, v := range e.vars {
		n.vars[k] = v
	}
	if e.seq != nil {
		n.seq = map[string]int{}
		for k, v := range e.seq {
			n.seq[k] = v
		}
	}
	return n
}

type refusal struct{ msg string }

func refuse(format string, a ...interface{}) { panic(refusal{fmt.Sprintf(format, a...)}) }

// flat returns the scalar leaves of a value in a fixed order
func flat(v val) []val {
	switch v.typ {
	case "int", "bool", "prop", "loc", "segs", "lens", "elem", "elemval":
		return []val{v}
	}
	var out []val
	for _, f := range structFields[v.typ] {
		name := strings.Split(f, ":")[0]
		out = append(out, flat(v.fields[name])...)
	}
	return out
}

// fresh struct value whose leaves are Lean variables derived from a Go name
func structVar(typ, name string) val {
	switch typ {
	case "int", "bool":
		return val{typ: typ, expr: name}
	}
	v := val{typ: typ, fields: map[string]val{}}
	for _, f := range structFields[typ] {
		p := strings.Split(f, ":")
		v.fields[p[0]] = structVar(p[1], name+"_"+p[0])
	}
	return v
}

func asBool(v val) string {
	switch v.typ {
	case "bool":
		return v.expr
	case "prop":
		return "decide (" + v.expr + ")"
	}
	refuse("expected a boolean, got %s", v.typ)
	return ""
}

func asProp(v val) string {
	switch v.typ {
	case "prop":
		return v.expr
	case "bool":
		return "(" + v.expr + " = true)"
	}
	refuse("expected a condition, got %s", v.typ)
	return ""
}

func asLoc(v val) string {
	switch v.typ {
	case "loc":
		return v.expr
	case "Ranged":
		p := v.fields["Partial"]
		return fmt.Sprintf("(Gts.Loc.ranged %s %s %s %s)", v.fields["Start"].expr, v.fields["End"].expr,
			asBool(p.fields["Partial5"]), asBool(p.fields["Partial3"]))
	case "Ambiguous":
		return fmt.Sprintf("(Gts.Loc.ambiguous %s %s)", v.fields["Start"].expr, v.fields["End"].expr)
	}
	refuse("expected a location, got %s", v.typ)
	return ""
}

func (e *env) expr(x ast.Expr) val {
	switch n := x.(type) {
	case *ast.ParenExpr:
		v := e.expr(n.X)
		if v.fields == nil {
			v.expr = "(" + v.expr + ")"
		}
		return v
	case *ast.BasicLit:
		if n.Kind != token.INT {
			refuse("literal %s", n.Value)
		}
		return val{typ: "int", expr: n.Value}
	case *ast.Ident:
		switch n.Name {
		case "true", "false":
			return val{typ: "bool", expr: n.Name}
		}
		if c, ok := partialConsts[n.Name]; ok {
			if _, shadow := e.vars[n.Name]; !shadow {
				return val{typ: "Partial", fields: map[string]val{
					"Partial5": {typ: "bool", expr: c[0]}, "Partial3": {typ: "bool", expr: c[1]}}}
			}
		}
		v, ok := e.vars[n.Name]
		if !ok {
			refuse("unknown identifier %s", n.Name)
		}
		return v
	case *ast.UnaryExpr:
		v := e.expr(n.X)
		switch n.Op {
		case token.SUB:
			return val{typ: "int", expr: "(-" + v.expr + ")"}
		case token.NOT:
			return val{typ: "prop", expr: "(¬ " + asProp(v) + ")"}
		}
		refuse("unary %s", n.Op)
	case *ast.BinaryExpr:
		l, r := e.expr(n.X), e.expr(n.Y)
		switch n.Op {
		case token.ADD, token.SUB, token.MUL:
			return val{typ: "int", expr: fmt.Sprintf("(%s %s %s)", l.expr, n.Op, r.expr)}
		case token.QUO:
			return val{typ: "int", expr: fmt.Sprintf("(Int.tdiv %s %s)", l.expr, r.expr)}
		case token.REM:
			return val{typ: "int", expr: fmt.Sprintf("(Int.tmod %s %s)", l.expr, r.expr)}
		case token.LSS, token.GTR, token.LEQ, token.GEQ, token.EQL, token.NEQ:
			if n.Op == token.EQL && l.fields != nil && l.typ == r.typ {
				// struct comparison: all leaves equal
				ls, rs := flat(l), flat(r)
				var parts []string
				for i := range ls {
					parts = append(parts, fmt.Sprintf("(%s = %s)", asScalar(ls[i]), asScalar(rs[i])))
				}
				return val{typ: "prop", expr: "(" + strings.Join(parts, " ∧ ") + ")"}
			}
			if l.typ != "int" || r.typ != "int" {
				refuse("comparison of %s and %s", l.typ, r.typ)
			}
			op := map[token.Token]string{token.LSS: "<", token.GTR: ">", token.LEQ: "≤", token.GEQ: "≥", token.EQL: "=", token.NEQ: "≠"}[n.Op]
			return val{typ: "prop", expr: fmt.Sprintf("(%s %s %s)", l.expr, op, r.expr)}
		case token.LAND:
			return val{typ: "prop", expr: fmt.Sprintf("(%s ∧ %s)", asProp(l), asProp(r))}
		case token.LOR:
			return val{typ: "prop", expr: fmt.Sprintf("(%s ∨ %s)", asProp(l), asProp(r))}
		case token.SHR, token.XOR:
			// two's-complement reading on unbounded Int (region.go generator only): `x >> k` is the
			// arithmetic shift `Int.shiftRight`, `x ^ y` the generated `ixor`
			if !e.bitops || l.typ != "int" || r.typ != "int" {
				refuse("binary %s", n.Op)
			}
			if n.Op == token.SHR {
				return val{typ: "int", expr: fmt.Sprintf("(Int.shiftRight %s (Int.toNat %s))", l.expr, r.expr)}
			}
			return val{typ: "int", expr: fmt.Sprintf("(ixor %s %s)", l.expr, r.expr)}
		}
		refuse("binary %s", n.Op)
	case *ast.SelectorExpr:
		base := e.expr(n.X)
		f, ok := base.fields[n.Sel.Name]
		if !ok {
			refuse("field %s of %s", n.Sel.Name, base.typ)
		}
		return f
	case *ast.CompositeLit:
		id, ok := n.Type.(*ast.Ident)
		if !ok {
			refuse("composite literal")
		}
		fs, ok := structFields[id.Name]
		if !ok || len(n.Elts) != len(fs) {
			refuse("composite literal of %s", id.Name)
		}
		v := val{typ: id.Name, fields: map[string]val{}}
		for i, f := range fs {
			p := strings.Split(f, ":")
			if _, kv := n.Elts[i].(*ast.KeyValueExpr); kv {
				refuse("keyed composite literal")
			}
			fv := e.expr(n.Elts[i])
			if fv.typ != p[1] && !(p[1] == "bool" && fv.typ == "prop") {
				refuse("field %s: %s for %s", p[0], fv.typ, p[1])
			}
			v.fields[p[0]] = fv
		}
		return v
	case *ast.IndexExpr:
		base := e.expr(n.X)
		if _, pair := base.fields["E0"]; pair && len(base.fields) == 2 {
			// element of a [2]int value: literal index only
			lit, ok := n.Index.(*ast.BasicLit)
			if !ok || lit.Kind != token.INT || (lit.Value != "0" && lit.Value != "1") {
				refuse("index of a [2]int value is not the literal 0 or 1")
			}
			return base.fields["E"+lit.Value]
		}
		idx := e.expr(n.Index)
		if idx.typ != "int" {
			refuse("index type %s", idx.typ)
		}
		switch base.typ {
		case "segs":
			// element of a []Segment (outside the list: a Go panic; here the default pair)
			el := fmt.Sprintf("(%s.getD (Int.toNat %s) default)", base.expr, idx.expr)
			return val{typ: "Segment", fields: map[string]val{"E0": {typ: "int", expr: el + ".1"}, "E1": {typ: "int", expr: el + ".2"}}}
		case "lens":
			// element of a Regions value, of which only the result of the view's method is observable
			return val{typ: "elem", expr: fmt.Sprintf("(%s.getD (Int.toNat %s) %s)", base.expr, idx.expr, e.viewD)}
		}
		refuse("index expression on %s", base.typ)
	case *ast.CallExpr:
		return e.call(n)
	}
	refuse("expression %T", x)
	return val{}
}

func (e *env) call(n *ast.CallExpr) val {
	if e.callExt != nil {
		if v, ok := e.callExt(e, n); ok {
			return v
		}
	}
	if identName(n.Fun) == "make" && e.ext != nil && len(n.Args) == 2 && identName(n.Args[0]) == "Regions" {
		// `make(Regions, n)`: n nil elements, seen through the view (filled by index below)
		c := e.expr(n.Args[1])
		if c.typ != "int" {
			refuse("make length")
		}
		return val{typ: "lens", expr: fmt.Sprintf("(List.replicate (Int.toNat %s) %s)", c.expr, e.viewD)}
	}
	if identName(n.Fun) == "make" {
		// `make([]Segment, 0, cap)`: the empty list (the capacity is not observable)
		at, ok := n.Args[0].(*ast.ArrayType)
		if e.ext == nil || len(n.Args) != 3 || !ok || at.Len != nil || identName(at.Elt) != "Segment" {
			refuse("call of make")
		}
		if l, ok := n.Args[1].(*ast.BasicLit); !ok || l.Value != "0" {
			refuse("make with a length other than the literal 0")
		}
		if c := e.expr(n.Args[2]); c.typ != "int" {
			refuse("make capacity")
		}
		return val{typ: "segs", expr: "[]"}
	}
	args := make([]val, len(n.Args))
	for i, a := range n.Args {
		args[i] = e.expr(a)
	}
	ints := func() []string {
		out := make([]string, len(args))
		for i, a := range args {
			if a.typ != "int" {
				refuse("integer argument expected")
			}
			out[i] = a.expr
		}
		return out
	}
	switch f := n.Fun.(type) {
	case *ast.Ident:
		switch f.Name {
		case "int":
			return args[0]
		case "len":
			if len(args) == 1 && (args[0].typ == "segs" || args[0].typ == "lens") {
				return val{typ: "int", expr: "(" + args[0].expr + ".length : Int)"}
			}
			refuse("len of %s", args[0].typ)
		case "append":
			if len(args) == 2 && args[0].typ == "segs" && args[1].typ == "Segment" && !n.Ellipsis.IsValid() {
				return val{typ: "segs", expr: fmt.Sprintf("(%s ++ [(%s, %s)])", args[0].expr, args[1].fields["E0"].expr, args[1].fields["E1"].expr)}
			}
			refuse("append")
		case "Between":
			return val{typ: "loc", expr: "(Gts.Loc.between " + ints()[0] + ")"}
		case "Point":
			return val{typ: "loc", expr: "(Gts.Loc.point " + ints()[0] + ")"}
		case "Range":
			a := ints()
			return val{typ: "Ranged", fields: map[string]val{"Start": {typ: "int", expr: a[0]}, "End": {typ: "int", expr: a[1]},
				"Partial": e.expr(ast.NewIdent("Complete"))}}
		case "PartialRange":
			return val{typ: "Ranged", fields: map[string]val{"Start": args[0], "End": args[1], "Partial": args[2]}}
		case "Join", "Order":
			ls := make([]string, len(args))
			for i, a := range args {
				ls[i] = asLoc(a)
			}
			return val{typ: "loc", expr: fmt.Sprintf("(Gts.Loc.%s [%s])", strings.ToLower(f.Name), strings.Join(ls, ", "))}
		}
		for _, fn := range e.fns {
			if fn.recv == "" && fn.name == f.Name {
				rt := "int"
				if fn.lean == "rangeWithin" || fn.lean == "rangeOverlap" || fn.lean == "isLeapYear" {
					rt = "bool"
				}
				return val{typ: rt, expr: "(" + fn.lean + " " + strings.Join(ints(), " ") + ")"}
			}
		}
		refuse("call of %s", f.Name)
	case *ast.SelectorExpr:
		recv := e.expr(f.X)
		if id, ok := f.X.(*ast.Ident); ok && recv.typ == "int" && e.self != nil && id.Name == e.recvVar {
			// a method of the function's own scalar receiver type (Between, Point)
			for _, fn := range e.fns {
				if fn.recv == e.self.recv && fn.name == f.Sel.Name && !fn.fuel {
					return val{typ: "loc", expr: "(" + fn.lean + " " + strings.Join(append([]string{recv.expr}, ints()...), " ") + ")"}
				}
			}
		}
		if recv.typ == "elem" && f.Sel.Name == e.viewM && len(args) == 0 {
			// dynamic dispatch `Region.M()` on an element of a Regions value: the element of the view
			if e.viewT == "Int" {
				return val{typ: "int", expr: recv.expr}
			}
			return val{typ: "elemval", expr: recv.expr}
		}
		if f.Sel.Name == "Len" && recv.typ == "lens" && e.viewM == "Len" && len(args) == 0 {
			// `Regions.Len()`: the generated range loop over the element lengths
			for _, fn := range e.fns {
				if fn.recv == "Regions" && fn.name == "Len" {
					return val{typ: "int", expr: "(" + fn.lean + " " + recv.expr + ")"}
				}
			}
		}
		if f.Sel.Name == "Len" && recv.typ == "Ranged" && len(args) == 0 {
			return val{typ: "int", expr: fmt.Sprintf("(%s - %s)", recv.fields["End"].expr, recv.fields["Start"].expr)}
		}
		for _, fn := range e.fns {
			if fn.recv == recv.typ && fn.name == f.Sel.Name {
				var parts []string
				for _, l := range flat(recv) {
					parts = append(parts, l.expr)
				}
				parts = append(parts, ints()...)
				return val{typ: "loc", expr: "(" + fn.lean + " " + strings.Join(parts, " ") + ")"}
			}
		}
		refuse("method %s.%s", recv.typ, f.Sel.Name)
	}
	refuse("call")
	return val{}
}

// assigned: names of variables declared OUTSIDE the statement list that it assigns (the join
// point of a conditional block); variables it defines itself are local to the block.
func (e *env) assigned(stmts []ast.Stmt, acc map[string]bool, local map[string]bool) {
	for _, s := range stmts {
		switch n := s.(type) {
		case *ast.AssignStmt:
			for _, l := range n.Lhs {
				var base *ast.Ident
				switch x := l.(type) {
				case *ast.Ident:
					base = x
				case *ast.IndexExpr:
					id, ok := x.X.(*ast.Ident)
					if !ok {
						refuse("assignment target")
					}
					base = id
				case *ast.SelectorExpr:
					for {
						if id, ok := x.X.(*ast.Ident); ok {
							base = id
							break
						}
						sx, ok := x.X.(*ast.SelectorExpr)
						if !ok {
							refuse("assignment target")
						}
						x = sx
					}
				default:
					refuse("assignment target %T", l)
				}
				if n.Tok == token.DEFINE {
					local[base.Name] = true
					continue
				}
				if !local[base.Name] {
					acc[base.Name] = true
				}
			}
		case *ast.IfStmt:
			inner := map[string]bool{}
			for k := range local {
				inner[k] = true
			}
			e.assigned(n.Body.List, acc, inner)
			if n.Else != nil {
				b, ok := n.Else.(*ast.BlockStmt)
				if !ok {
					refuse("else-if")
				}
				inner2 := map[string]bool{}
				for k := range local {
					inner2[k] = true
				}
				e.assigned(b.List, acc, inner2)
			}
		case *ast.IncDecStmt:
			id, ok := n.X.(*ast.Ident)
			if !ok {
				refuse("++ / -- on %T", n.X)
			}
			if !local[id.Name] {
				acc[id.Name] = true
			}
		case *ast.ExprStmt:
			// region.go generator: `copy(…)` of the delete-element idiom (the slice it writes is
			// re-assigned by the statement that follows; checked there)
			if c, ok := n.X.(*ast.CallExpr); !ok || e.ext == nil || identName(c.Fun) != "copy" {
				refuse("statement %T inside a conditional block that does not return", s)
			}
		default:
			refuse("statement %T inside a conditional block that does not return", s)
		}
	}
}

func returns(stmts []ast.Stmt) bool {
	if len(stmts) == 0 {
		return false
	}
	switch n := stmts[len(stmts)-1].(type) {
	case *ast.ReturnStmt:
		return true
	case *ast.IfStmt:
		if n.Else == nil {
			return false
		}
		b, ok := n.Else.(*ast.BlockStmt)
		return ok && returns(n.Body.List) && returns(b.List)
	case *ast.SwitchStmt:
		hasDefault := false
		for _, c := range n.Body.List {
			cc := c.(*ast.CaseClause)
			if cc.List == nil {
				hasDefault = true
			}
			if !returns(cc.Body) {
				return false
			}
		}
		return hasDefault
	}
	return false
}

func containsReturn(stmts []ast.Stmt) bool {
	found := false
	for _, s := range stmts {
		ast.Inspect(s, func(n ast.Node) bool {
			if _, ok := n.(*ast.ReturnStmt); ok {
				found = true
			}
			return true
		})
	}
	return found
}

var leanKeywords = map[string]bool{"end": true, "at": true, "from": true, "in": true, "then": true, "do": true,
	"fun": true, "let": true, "have": true, "show": true, "open": true, "local": true, "where": true, "with": true,
	"match": true, "if": true, "else": true, "by": true, "def": true, "theorem": true, "namespace": true, "section": true}

var leanType = map[string]string{"int": "Int", "bool": "Bool", "loc": "Gts.Loc", "segs": "List (Int × Int)"}

func (e *env) assign(lhs ast.Expr, v val, lets *[]string) {
	switch l := lhs.(type) {
	case *ast.Ident:
		if l.Name == "_" {
			return
		}
		if e.seq != nil {
			if _, seen := e.seq[l.Name]; !seen {
				e.seq[l.Name] = len(e.seq)
			}
		}
		if v.fields == nil {
			if v.typ == "prop" {
				v = val{typ: "bool", expr: asBool(v)}
			}
			lt := leanType[v.typ]
			if v.typ == "lens" {
				lt = "List " + e.viewT
			}
			*lets = append(*lets, fmt.Sprintf("let %s : %s := %s;", l.Name, lt, v.expr))
			e.vars[l.Name] = val{typ: v.typ, expr: l.Name}
			return
		}
		nv := structVar(v.typ, l.Name)
		src, dst := flat(v), flat(nv)
		for i := range src {
			*lets = append(*lets, fmt.Sprintf("let %s : %s := %s;", dst[i].expr, leanType[dst[i].typ], asScalar(src[i])))
		}
		e.vars[l.Name] = nv
	case *ast.SelectorExpr, *ast.IndexExpr:
		if ix, ok := lhs.(*ast.IndexExpr); ok {
			if base := e.expr(ix.X); base.typ == "segs" {
				// `ss[i] = Segment{…}`: List.set (outside the list: a Go panic; here no change)
				idx := e.expr(ix.Index)
				if idx.typ != "int" || v.typ != "Segment" || !isVarName(base.expr) || identName(ix.X) != base.expr {
					refuse("element assignment")
				}
				*lets = append(*lets, fmt.Sprintf("let %s : %s := %s.set (Int.toNat %s) (%s, %s);", base.expr, leanType["segs"],
					base.expr, idx.expr, v.fields["E0"].expr, v.fields["E1"].expr))
				return
			}
		}
		if ix, ok := lhs.(*ast.IndexExpr); ok {
			if base := e.expr(ix.X); base.typ == "lens" {
				// `ret[k] = r.M()` on a Regions value seen through the view of M
				idx := e.expr(ix.Index)
				if idx.typ != "int" || v.typ != "elemval" || !isVarName(base.expr) || identName(ix.X) != base.expr {
					refuse("element assignment")
				}
				*lets = append(*lets, fmt.Sprintf("let %s : List %s := %s.set (Int.toNat %s) %s;", base.expr, e.viewT, base.expr, idx.expr, v.expr))
				return
			}
		}
		cur := e.expr(lhs)
		if cur.typ != v.typ && !(cur.typ == "bool" && v.typ == "prop") {
			refuse("field assignment of %s to %s", v.typ, cur.typ)
		}
		src, dst := flat(v), flat(cur)
		for i := range src {
			if !isVarName(dst[i].expr) {
				refuse("field assignment to a non-variable")
			}
			*lets = append(*lets, fmt.Sprintf("let %s : %s := %s;", dst[i].expr, leanType[dst[i].typ], asScalar(src[i])))
		}
	default:
		refuse("assignment target %T", lhs)
	}
}

// multi translates a call that yields two integers: `Unpack(pair)` and a call of the function
// being translated on its own receiver (which consumes one unit of fuel).
func (e *env) multi(x ast.Expr, lets *[]string) []val {
	c, ok := x.(*ast.CallExpr)
	if !ok {
		refuse("two-valued right-hand side %T", x)
	}
	switch f := c.Fun.(type) {
	case *ast.Ident:
		if f.Name == "Unpack" && len(c.Args) == 1 {
			v := e.expr(c.Args[0])
			fs, ok := structFields[v.typ]
			if !ok || len(fs) != 2 || !strings.HasPrefix(fs[0], "E0:") {
				refuse("Unpack of %s", v.typ)
			}
			return []val{v.fields["E0"], v.fields["E1"]}
		}
	case *ast.SelectorExpr:
		id, ok := f.X.(*ast.Ident)
		if ok && e.self != nil && e.self.fuel && id.Name == e.recvVar && f.Sel.Name == e.self.name && len(e.results) == 2 {
			var parts []string
			for _, l := range flat(e.vars[e.recvVar]) {
				parts = append(parts, l.expr)
			}
			for _, a := range c.Args {
				v := e.expr(a)
				if v.typ != "int" {
					refuse("integer argument expected")
				}
				parts = append(parts, v.expr)
			}
			*lets = append(*lets, fmt.Sprintf("let (r0_, r1_) := %s fuel %s;", e.self.lean, strings.Join(parts, " ")))
			return []val{{typ: "int", expr: "r0_"}, {typ: "int", expr: "r1_"}}
		}
	}
	refuse("two-valued call")
	return nil
}

func asScalar(v val) string {
	if v.typ == "prop" {
		return asBool(v)
	}
	return v.expr
}

func isVarName(s string) bool {
	for _, c := range s {
		if !(c == '_' || c >= 'a' && c <= 'z' || c >= 'A' && c <= 'Z' || c >= '0' && c <= '9') {
			return false
		}
	}
	return s != ""
}

// block translates a statement list that ends in a return on every path
func (e *env) block(stmts []ast.Stmt) string { return e.blockK(stmts, nil) }

// blockK translates a statement list; when the list is exhausted the continuation k yields
// the value of the block (k == nil: the list must return on every path)
func (e *env) blockK(stmts []ast.Stmt, k func(en *env) string) string {
	if len(stmts) == 0 {
		if k == nil {
			refuse("control reaches the end of the function")
		}
		return k(e)
	}
	s, rest := stmts[0], stmts[1:]
	if e.ext != nil {
		if out, ok := e.ext(e, stmts, k); ok {
			return out
		}
	}
	switch n := s.(type) {
	case *ast.ReturnStmt:
		if k != nil {
			refuse("return inside a conditional block that does not always return")
		}
		if len(n.Results) != len(e.results) {
			refuse("return arity")
		}
		parts := make([]string, len(n.Results))
		for i, r := range n.Results {
			v := e.expr(r)
			switch e.results[i] {
			case "int":
				parts[i] = v.expr
			case "bool":
				parts[i] = asBool(v)
			case "loc":
				parts[i] = asLoc(v)
			case "Segment":
				if v.typ != "Segment" {
					refuse("return of %s for a Segment", v.typ)
				}
				parts[i] = "(" + v.fields["E0"].expr + ", " + v.fields["E1"].expr + ")"
			case "segs":
				if v.typ != "segs" {
					refuse("return of %s for a []Segment", v.typ)
				}
				parts[i] = v.expr
			case "lens":
				if v.typ != "lens" {
					refuse("return of %s for a Regions", v.typ)
				}
				parts[i] = v.expr
			default:
				refuse("result type %s", e.results[i])
			}
		}
		if len(parts) == 1 {
			return parts[0]
		}
		return "(" + strings.Join(parts, ", ") + ")"
	case *ast.AssignStmt:
		var lets []string
		switch n.Tok {
		case token.DEFINE, token.ASSIGN:
			var vals []val
			if len(n.Lhs) == 2 && len(n.Rhs) == 1 {
				vals = e.multi(n.Rhs[0], &lets)
			} else {
				if len(n.Lhs) != len(n.Rhs) {
					refuse("assignment arity")
				}
				vals = make([]val, len(n.Rhs))
				for i, r := range n.Rhs {
					vals[i] = e.expr(r)
				}
			}
			if len(n.Lhs) > 1 {
				// parallel assignment: evaluate the scalars through temporaries
				for i := range vals {
					if vals[i].fields == nil {
						tmp := fmt.Sprintf("t%d_", i)
						lets = append(lets, fmt.Sprintf("let %s := %s;", tmp, asScalar(vals[i])))
						t := vals[i].typ
						if t == "prop" {
							t = "bool"
						}
						vals[i] = val{typ: t, expr: tmp}
					}
				}
			}
			for i, l := range n.Lhs {
				e.assign(l, vals[i], &lets)
			}
		case token.ADD_ASSIGN, token.SUB_ASSIGN:
			cur, v := e.expr(n.Lhs[0]), e.expr(n.Rhs[0])
			op := "+"
			if n.Tok == token.SUB_ASSIGN {
				op = "-"
			}
			e.assign(n.Lhs[0], val{typ: "int", expr: fmt.Sprintf("(%s %s %s)", cur.expr, op, v.expr)}, &lets)
		default:
			refuse("assignment operator %s", n.Tok)
		}
		return strings.Join(lets, "\n  ") + "\n  " + e.blockK(rest, k)
	case *ast.IfStmt:
		if n.Init != nil {
			refuse("if with init")
		}
		cond := asProp(e.expr(n.Cond))
		if returns(n.Body.List) {
			if k != nil {
				refuse("return inside a conditional block that does not always return")
			}
			thenS := e.clone().block(n.Body.List)
			var elseS string
			if n.Else != nil {
				b, ok := n.Else.(*ast.BlockStmt)
				if !ok {
					refuse("else-if")
				}
				if !returns(b.List) {
					refuse("if returns, else does not")
				}
				if len(rest) != 0 {
					refuse("code after an if-else that returns on both paths")
				}
				elseS = e.clone().block(b.List)
			} else {
				elseS = e.clone().block(rest)
			}
			return fmt.Sprintf("if %s then\n  (%s)\n  else\n  (%s)", cond, thenS, elseS)
		}
		if containsReturn(n.Body.List) {
			refuse("if body returns on some paths only")
		}
		// join point over the outer variables assigned in either branch
		acc := map[string]bool{}
		e.assigned(n.Body.List, acc, map[string]bool{})
		var elseList []ast.Stmt
		if n.Else != nil {
			b, ok := n.Else.(*ast.BlockStmt)
			if !ok {
				refuse("else-if")
			}
			if containsReturn(b.List) {
				refuse("else body returns")
			}
			e.assigned(b.List, acc, map[string]bool{})
			elseList = b.List
		}
		names := make([]string, 0, len(acc))
		for kk := range acc {
			names = append(names, kk)
		}
		sort.Strings(names)
		var pat []string
		for _, kk := range names {
			v, ok := e.vars[kk]
			if !ok {
				refuse("assignment to undeclared %s", kk)
			}
			for _, l := range flat(v) {
				if !isVarName(l.expr) {
					refuse("conditional assignment to a non-variable")
				}
				pat = append(pat, l.expr)
			}
		}
		if len(pat) == 0 {
			return e.blockK(rest, k)
		}
		tuple := func(en *env) string {
			var parts []string
			for _, kk := range names {
				for _, l := range flat(en.vars[kk]) {
					parts = append(parts, asScalar(l))
				}
			}
			if len(parts) == 1 {
				return parts[0]
			}
			return "(" + strings.Join(parts, ", ") + ")"
		}
		thenS := e.clone().blockK(n.Body.List, tuple)
		elseS := e.clone().blockK(elseList, tuple)
		p := pat[0]
		if len(pat) > 1 {
			p = "(" + strings.Join(pat, ", ") + ")"
		}
		return fmt.Sprintf("let %s := if %s then\n    (%s)\n    else\n    (%s);\n  %s", p, cond, thenS, elseS, e.blockK(rest, k))
	case *ast.SwitchStmt:
		if n.Init != nil || n.Tag != nil {
			refuse("switch with init or tag")
		}
		if k != nil || len(rest) != 0 || !returns([]ast.Stmt{n}) {
			refuse("switch must end the function and return in every clause")
		}
		var def []ast.Stmt
		out, closing := "", ""
		for _, c := range n.Body.List {
			cc := c.(*ast.CaseClause)
			if cc.List == nil {
				def = cc.Body
				continue
			}
			if len(cc.List) != 1 {
				refuse("case list")
			}
			out += fmt.Sprintf("if %s then\n  (%s)\n  else\n  (", asProp(e.clone().expr(cc.List[0])), e.clone().block(cc.Body))
			closing += ")"
		}
		return out + e.clone().block(def) + closing
	case *ast.IncDecStmt:
		cur := e.expr(n.X)
		if cur.typ != "int" {
			refuse("++ / -- on %s", cur.typ)
		}
		op := "+"
		if n.Tok == token.DEC {
			op = "-"
		}
		var lets []string
		e.assign(n.X, val{typ: "int", expr: fmt.Sprintf("(%s %s 1)", cur.expr, op)}, &lets)
		return strings.Join(lets, "\n  ") + "\n  " + e.blockK(rest, k)
	}
	refuse("statement %T", s)
	return ""
}

// desugar rewrites, in place, every tagged `switch tag { case c: … }` whose tag is a plain
// variable or field selection into the equivalent chain `if tag == c {…} else {…}`
// (clauses with one value each; no fallthrough; a missing default is an empty else).
func desugar(list []ast.Stmt) {
	for i, s := range list {
		switch n := s.(type) {
		case *ast.IfStmt:
			desugar(n.Body.List)
			if b, ok := n.Else.(*ast.BlockStmt); ok {
				desugar(b.List)
			}
		case *ast.SwitchStmt:
			for _, c := range n.Body.List {
				desugar(c.(*ast.CaseClause).Body)
			}
			if n.Tag == nil {
				continue
			}
			if n.Init != nil || !pureSelector(n.Tag) {
				refuse("tagged switch with init or a tag that is not a variable / field")
			}
			var chain ast.Stmt
			var def []ast.Stmt
			var clauses []*ast.CaseClause
			for _, c := range n.Body.List {
				cc := c.(*ast.CaseClause)
				if cc.List == nil {
					def = cc.Body
					continue
				}
				if len(cc.List) != 1 {
					refuse("case list")
				}
				for _, b := range cc.Body {
					if br, ok := b.(*ast.BranchStmt); ok {
						refuse("branch statement %s in a switch", br.Tok)
					}
				}
				clauses = append(clauses, cc)
			}
			var tail ast.Stmt
			if def != nil {
				tail = &ast.BlockStmt{List: def}
			}
			for j := len(clauses) - 1; j >= 0; j-- {
				is := &ast.IfStmt{
					Cond: &ast.BinaryExpr{X: n.Tag, Op: token.EQL, Y: clauses[j].List[0]},
					Body: &ast.BlockStmt{List: clauses[j].Body},
				}
				if tail != nil {
					if b, ok := tail.(*ast.BlockStmt); ok {
						is.Else = b
					} else {
						is.Else = &ast.BlockStmt{List: []ast.Stmt{tail}}
					}
				}
				tail = is
			}
			chain = tail
			if chain == nil {
				chain = &ast.BlockStmt{}
			}
			list[i] = chain
		}
	}
}

func pureSelector(x ast.Expr) bool {
	switch n := x.(type) {
	case *ast.Ident:
		return true
	case *ast.SelectorExpr:
		return pureSelector(n.X)
	}
	return false
}

func goType(x ast.Expr) string {
	if id, ok := x.(*ast.Ident); ok {
		switch id.Name {
		case "int":
			return "int"
		case "bool":
			return "bool"
		case "Location":
			return "loc"
		}
	}
	refuse("type %T", x)
	return ""
}

func genArith(repo string) (string, error)         { return genArithGroup(repo, "") }
func genArithOrigin(repo string) (string, error)   { return genArithGroup(repo, "Origin") }
func genArithModifier(repo string) (string, error) { return genArithGroup(repo, "Modifier") }

func genArithGroup(repo, group string) (text string, err error) {
	defer func() {
		if r := recover(); r != nil {
			if rf, ok := r.(refusal); ok {
				err = fmt.Errorf("%s", rf.msg)
				return
			}
			panic(r)
		}
	}()
	fset := token.NewFileSet()
	files := map[string]*ast.File{}
	fns := map[string]arithFn{}
	for _, f := range arithFns {
		fns[f.recv+"."+f.name] = f
	}
	b := strings.Builder{}
	b.WriteString("/-\n  GENERATED by go2lean (arith.go) from the Go sources — do not edit.\n")
	b.WriteString("  Straight-line integer / location-constructor functions as pure Lean terms.\n-/\n")
	switch group {
	case "":
		b.WriteString("import Gts.Model.Loc\n")
	case "Modifier":
		b.WriteString("import Gts.Gen.Arith\n")
	}
	b.WriteString("namespace Gts.Gen\nset_option linter.unusedVariables false\n\n")
	for _, spec := range arithFns {
		if spec.group() != group {
			continue
		}
		af, ok := files[spec.file]
		if !ok {
			var perr error
			af, perr = parser.ParseFile(fset, filepath.Join(repo, spec.file), nil, 0)
			if perr != nil {
				return "", perr
			}
			files[spec.file] = af
		}
		var decl *ast.FuncDecl
		for _, d := range af.Decls {
			fd, ok := d.(*ast.FuncDecl)
			if !ok || fd.Name.Name != spec.name {
				continue
			}
			recv := ""
			if fd.Recv != nil && len(fd.Recv.List) == 1 {
				if id, ok := fd.Recv.List[0].Type.(*ast.Ident); ok {
					recv = id.Name
				}
			}
			if recv == spec.recv {
				decl = fd
			}
		}
		if decl == nil {
			return "", fmt.Errorf("%s: function %s.%s not found", spec.file, spec.recv, spec.name)
		}
		ast.Inspect(decl, func(n ast.Node) bool {
			if id, ok := n.(*ast.Ident); ok && leanKeywords[id.Name] {
				id.Name += "_"
			}
			// `else if c {…}` is `else { if c {…} }`
			if is, ok := n.(*ast.IfStmt); ok {
				if ei, ok := is.Else.(*ast.IfStmt); ok {
					is.Else = &ast.BlockStmt{List: []ast.Stmt{ei}}
				}
			}
			return true
		})
		spec := spec
		func() {
			defer func() {
				if r := recover(); r != nil {
					if rf, ok := r.(refusal); ok {
						panic(refusal{fmt.Sprintf("%s %s.%s: %s", spec.file, spec.recv, spec.name, rf.msg)})
					}
					panic(r)
				}
			}()
			desugar(decl.Body.List)
		}()
		e := &env{vars: map[string]val{}, fns: fns, self: &spec}
		var params []string
		if spec.recv != "" {
			rn := decl.Recv.List[0].Names[0].Name
			e.recvVar = rn
			switch spec.recv {
			case "Between", "Point", "Head", "Tail":
				e.vars[rn] = val{typ: "int", expr: rn}
				params = append(params, fmt.Sprintf("(%s : Int)", rn))
			default:
				v := structVar(spec.recv, rn)
				e.vars[rn] = v
				for _, l := range flat(v) {
					params = append(params, fmt.Sprintf("(%s : %s)", l.expr, map[string]string{"int": "Int", "bool": "Bool"}[l.typ]))
				}
			}
		}
		for _, p := range decl.Type.Params.List {
			t := goType(p.Type)
			for _, nm := range p.Names {
				e.vars[nm.Name] = val{typ: t, expr: nm.Name}
				params = append(params, fmt.Sprintf("(%s : %s)", nm.Name, map[string]string{"int": "Int", "bool": "Bool"}[t]))
			}
		}
		var rts []string
		for _, r := range decl.Type.Results.List {
			n := len(r.Names)
			if n == 0 {
				n = 1
			}
			for i := 0; i < n; i++ {
				e.results = append(e.results, goType(r.Type))
				rts = append(rts, map[string]string{"int": "Int", "bool": "Bool", "loc": "Gts.Loc"}[goType(r.Type)])
			}
		}
		body := func() (s string) {
			defer func() {
				if r := recover(); r != nil {
					if rf, ok := r.(refusal); ok {
						panic(refusal{fmt.Sprintf("%s %s.%s: %s", spec.file, spec.recv, spec.name, rf.msg)})
					}
					panic(r)
				}
			}()
			return e.block(decl.Body.List)
		}()
		if spec.fuel {
			// self-recursive: explicit fuel, first argument; out of fuel yields zeros (the bridge
			// theorem fixes the fuel and proves the result for every input)
			var names, types, zeros []string
			for _, p := range params {
				q := strings.SplitN(strings.Trim(p, "()"), " : ", 2)
				names = append(names, q[0])
				types = append(types, q[1])
			}
			for _, t := range rts {
				zeros = append(zeros, map[string]string{"Int": "0", "Bool": "false"}[t])
			}
			us := make([]string, len(names))
			for i := range us {
				us[i] = "_"
			}
			fmt.Fprintf(&b, "/-- %s: `%s.%s` (calls itself: fuel) -/\ndef %s : Nat → %s → %s\n  | 0, %s => (%s)\n  | fuel + 1, %s =>\n  %s\n\n",
				spec.file, spec.recv, spec.name, spec.lean, strings.Join(types, " → "), strings.Join(rts, " × "),
				strings.Join(us, ", "), strings.Join(zeros, ", "), strings.Join(names, ", "), body)
			continue
		}
		fmt.Fprintf(&b, "/-- %s: `%s%s` -/\ndef %s %s : %s :=\n  %s\n\n", spec.file,
			map[bool]string{true: spec.recv + ".", false: ""}[spec.recv != ""], spec.name,
			spec.lean, strings.Join(params, " "), strings.Join(rts, " × "), body)
	}
	b.WriteString("end Gts.Gen\n")
	return b.String(), nil
}
