package main

// iodelegate.go — the cache PROTOCOL code of the CLI (cmd/gts/io.go) as regenerated facts
// (Gts/Gen/IoDelegateFacts.lean, obligations of C14; expectation Gts/Spec/IoDelegateTable.lean, bridge
// Gts/Bridge/IoDelegate.lean).
//
// `ioDelegate` — `newIODelegate`, `TryCache`, the tee `Write`, `Commit`, `Close` and the helper
// `gtsCacheDir` — is hand-modelled in Gts/Model/CacheProto.lean (`step`: spool stdin → hash → key →
// Open → hit: copy, return true / any error: fall back; miss: Create + tee; Commit sets the flag; Close
// removes the entry unless committed).  This generator writes the code down in the NORMAL FORM of
// gbreader.go (one line `(indent, kind, text)` per statement, locals renamed in order of declaration,
// parameters by type, the receiver `recv`), so that renaming locals changes nothing and every other
// change of a statement shows in the bridge theorem of its function:
//
//   - every function and method of io.go (an inventory: a NEW function shows in `fns`); `exact` and
//     `encodePayload` are regenerated as functions by keyenc.go and are listed in `elsewhere`;
//   - the struct types of io.go field by field (`&ioDelegate{input, output, nil, false, false}` is
//     positional);
//   - derived tables, read off the normal form with go/scanner: `calls` (every call with its
//     arguments, per line, in source order), `returns` (every return with its results and the
//     innermost header it stands under), `assigns` (every assignment, also the init part of an `if`),
//     `conds` (the condition of every `if`), `under` (the chain of headers a line stands under).
//
// Everything is AST only; a statement or expression form the printer does not know is refused.

import (
	"fmt"
	"go/ast"
	"go/scanner"
	"go/token"
	"path/filepath"
	"strings"
)

// functions of io.go that another generator regenerates as functions
var ioElsewhere = map[string]string{"exact": "keyenc.go", "encodePayload": "keyenc.go"}

// ioStmtExt: `defer f(x)` (the reader has none)
func ioStmtExt(p *gbPrinter, sc *gbScope, s ast.Stmt, ind int, out *[]gbLine) bool {
	if d, ok := s.(*ast.DeferStmt); ok {
		*out = append(*out, gbLine{ind, "defer", p.expr(sc, d.Call)})
		return true
	}
	return false
}

// ioDeclName: `T.M` for a method on T or *T, the plain name for a function
func ioDeclName(fd *ast.FuncDecl) (name, recvType string) {
	if fd.Recv == nil {
		return fd.Name.Name, ""
	}
	if len(fd.Recv.List) != 1 || len(fd.Recv.List[0].Names) > 1 {
		refuse("io.go: %s: receiver list", fd.Name.Name)
	}
	t := fd.Recv.List[0].Type
	recvType = exprString(t)
	base := strings.TrimPrefix(recvType, "*")
	if !isVarName(base) {
		refuse("io.go: %s: receiver type %s", fd.Name.Name, recvType)
	}
	return base + "." + fd.Name.Name, recvType
}

// ioPrintDecl: one function or method in the normal form (its function literals behind it)
func ioPrintDecl(src *source, fd *ast.FuncDecl) []gbFn {
	name, recvType := ioDeclName(fd)
	p := &gbPrinter{src: src, top: name, ncount: map[string]int{}, fns: map[int]*gbFn{}, stmtExt: ioStmtExt}
	sc := p.open(nil)
	recv := ""
	if fd.Recv != nil {
		recv = "(recv " + recvType + ") "
		if ns := fd.Recv.List[0].Names; len(ns) == 1 && ns[0].Name != "_" {
			sc.names[ns[0].Name] = "recv"
		}
	}
	main := gbFn{name: name}
	sig := p.bindSig(sc, fd.Type)
	main.lines = append(main.lines, gbLine{0, "func", recv + sig})
	p.body(sc, fd.Type, fd.Body.List, 1, &main.lines)
	out := []gbFn{main}
	for k := 0; k < p.nfunc; k++ {
		out = append(out, *p.fns[k])
	}
	return out
}

// ---- the derived tables: a small reader of the normal-form text --------------------------------------

type ioTok struct {
	off  int
	end  int
	tok  token.Token
	text string
}

func ioScan(text string) []ioTok {
	fset := token.NewFileSet()
	f := fset.AddFile("", fset.Base(), len(text))
	var sc scanner.Scanner
	bad := false
	sc.Init(f, []byte(text), func(token.Position, string) { bad = true }, 0)
	var out []ioTok
	for {
		pos, tok, lit := sc.Scan()
		if tok == token.EOF {
			break
		}
		if tok == token.SEMICOLON && lit == "\n" {
			continue // inserted at the end of the text
		}
		t := lit
		if t == "" {
			t = tok.String()
		}
		off := f.Offset(pos)
		out = append(out, ioTok{off, off + len(t), tok, t})
	}
	if bad {
		refuse("io.go: the normal-form text %q is not a token sequence", text)
	}
	return out
}

func ioOpen(t token.Token) bool {
	return t == token.LPAREN || t == token.LBRACK || t == token.LBRACE
}
func ioClose(t token.Token) bool {
	return t == token.RPAREN || t == token.RBRACK || t == token.RBRACE
}

// ioSplit: the pieces of toks[a:b] between the separators `sep` at nesting depth 0, as texts
func ioSplit(text string, toks []ioTok, a, b int, sep token.Token) []string {
	var out []string
	depth, start := 0, a
	piece := func(i, j int) {
		if i >= j {
			out = append(out, "")
			return
		}
		out = append(out, strings.TrimSpace(text[toks[i].off:toks[j-1].end]))
	}
	for i := a; i < b; i++ {
		switch {
		case ioOpen(toks[i].tok):
			depth++
		case ioClose(toks[i].tok):
			depth--
		case toks[i].tok == sep && depth == 0:
			piece(start, i)
			start = i + 1
		}
	}
	if a < b {
		piece(start, b)
	}
	return out
}

type ioCall struct {
	callee string
	args   []string
}

// ioCalls: every call `path(args)` of the text, in source order (outer before inner)
func ioCalls(text string) []ioCall {
	toks := ioScan(text)
	var out []ioCall
	for i, t := range toks {
		if t.tok != token.LPAREN || i == 0 {
			continue
		}
		// the callee: IDENT (. IDENT)* directly in front of the parenthesis
		j := i - 1
		if toks[j].tok != token.IDENT {
			continue
		}
		for j >= 2 && toks[j-1].tok == token.PERIOD && toks[j-2].tok == token.IDENT {
			j -= 2
		}
		if j >= 1 && (toks[j-1].tok == token.PERIOD || toks[j-1].tok == token.RBRACK || toks[j-1].tok == token.FUNC) {
			continue // a call on a computed value, a conversion `[]T(x)`, a signature
		}
		callee := text[toks[j].off:toks[i-1].end]
		// the matching parenthesis
		depth, k := 0, i
		for ; k < len(toks); k++ {
			if ioOpen(toks[k].tok) {
				depth++
			} else if ioClose(toks[k].tok) {
				depth--
				if depth == 0 {
					break
				}
			}
		}
		if k == len(toks) {
			refuse("io.go: unbalanced parentheses in %q", text)
		}
		out = append(out, ioCall{callee, ioSplit(text, toks, i+1, k, token.COMMA)})
	}
	return out
}

type ioAssign struct {
	lhs []string
	op  string
	rhs []string
}

// ioAssignOf: `l1, l2 op r1, r2` with op one of := = += … at nesting depth 0
func ioAssignOf(text string) (ioAssign, bool) {
	toks := ioScan(text)
	depth := 0
	for i, t := range toks {
		switch {
		case ioOpen(t.tok):
			depth++
		case ioClose(t.tok):
			depth--
		case depth == 0 && (t.tok == token.DEFINE || t.tok == token.ASSIGN || (t.tok >= token.ADD_ASSIGN && t.tok <= token.AND_NOT_ASSIGN)):
			return ioAssign{ioSplit(text, toks, 0, i, token.COMMA), t.text, ioSplit(text, toks, i+1, len(toks), token.COMMA)}, true
		}
	}
	return ioAssign{}, false
}

// ioHeaderParts: `init; cond` of an `if` line
func ioHeaderParts(text string) (init, cond string) {
	toks := ioScan(text)
	parts := ioSplit(text, toks, 0, len(toks), token.SEMICOLON)
	switch len(parts) {
	case 1:
		return "", parts[0]
	case 2:
		return parts[0], parts[1]
	}
	refuse("io.go: `if` header %q", text)
	return
}

func leanStrs(xs []string) string {
	q := make([]string, len(xs))
	for i, x := range xs {
		q[i] = leanString(x)
	}
	return "[" + strings.Join(q, ", ") + "]"
}

// ioUnder: the chain of headers line i of f stands under, outermost first (`else of if …` for an else arm)
func ioUnder(f gbFn, i int) []string {
	var rev []string
	ind := f.lines[i].ind
	for j := i - 1; j >= 0; j-- {
		l := f.lines[j]
		if l.ind >= ind {
			continue
		}
		ind = l.ind
		if l.kind == "func" {
			break
		}
		h := strings.TrimSpace(l.kind + " " + l.text)
		if l.kind == "else" {
			for m := j - 1; m >= 0; m-- {
				if f.lines[m].ind == l.ind && f.lines[m].kind == "if" {
					h = "else of if " + f.lines[m].text
					break
				}
			}
		}
		rev = append(rev, h)
	}
	out := make([]string, len(rev))
	for k, h := range rev {
		out[len(rev)-1-k] = h
	}
	return out
}

// ---- struct types -----------------------------------------------------------------------------------

func ioStructs(src *source) [][2]interface{} {
	var out [][2]interface{}
	p := &gbPrinter{src: src, top: "types", ncount: map[string]int{}, fns: map[int]*gbFn{}}
	for _, d := range src.file.Decls {
		gd, ok := d.(*ast.GenDecl)
		if !ok || gd.Tok != token.TYPE {
			continue
		}
		for _, sp := range gd.Specs {
			ts := sp.(*ast.TypeSpec)
			var fields []string
			switch t := ts.Type.(type) {
			case *ast.StructType:
				for _, f := range t.Fields.List {
					if len(f.Names) == 0 {
						fields = append(fields, p.typ(f.Type))
					}
					for _, n := range f.Names {
						fields = append(fields, n.Name+" "+p.typ(f.Type))
					}
				}
			default:
				fields = []string{"= " + p.typ(ts.Type)}
			}
			out = append(out, [2]interface{}{ts.Name.Name, fields})
		}
	}
	return out
}

// ---- the generator ----------------------------------------------------------------------------------

func ioMangle(s string) string {
	return strings.NewReplacer("/", "_", ".", "_").Replace(s)
}

func genIoDelegateFacts(repo string) (text string, err error) {
	defer recoverRefusal(&err)
	src, perr := parseSource(filepath.Join(repo, "cmd", "gts", "io.go"))
	if perr != nil {
		return "", perr
	}
	var all []gbFn
	var elsewhere []string
	seen := map[string]bool{}
	for _, d := range src.file.Decls {
		switch dd := d.(type) {
		case *ast.FuncDecl:
			if dd.Body == nil {
				refuse("io.go: %s has no body", dd.Name.Name)
			}
			name, _ := ioDeclName(dd)
			if seen[name] {
				refuse("io.go: %s declared twice", name)
			}
			seen[name] = true
			if _, ok := ioElsewhere[name]; ok {
				elsewhere = append(elsewhere, name)
				continue
			}
			all = append(all, ioPrintDecl(src, dd)...)
		case *ast.GenDecl:
			if dd.Tok == token.VAR || dd.Tok == token.CONST {
				refuse("io.go: a package-level %s declaration (state outside the ioDelegate)", dd.Tok)
			}
		}
	}

	b := strings.Builder{}
	b.WriteString("/-\n  GENERATED by go2lean (iodelegate.go) from cmd/gts/io.go - DO NOT EDIT.  Regenerated by bin/setup and by every\n  bin/check run.\n")
	b.WriteString("  The functions and methods of io.go in the normal form of the reader facts, one line per statement\n  (indent, kind, text): locals renamed in order of declaration (`v0, v1, …`), parameters by type, the receiver\n  `recv`; and the tables read off it.  Compared with the expectation Gts/Spec/IoDelegateTable.lean by\n  Gts/Bridge/IoDelegate.lean.\n-/\n")
	b.WriteString("namespace Gts.Gen.IoDelegate\n\n")
	b.WriteString("/-- one statement: (indent, kind, text) -/\nabbrev Line := Nat × String × String\n\n")
	for _, f := range all {
		fmt.Fprintf(&b, "def fn_%s : List Line := [\n", ioMangle(f.name))
		for i, l := range f.lines {
			fmt.Fprintf(&b, "  (%d, %s, %s)%s\n", l.ind, leanString(l.kind), leanString(l.text), sepComma(i, len(f.lines)))
		}
		b.WriteString("]\n\n")
	}
	b.WriteString("/-- every function, method and function literal of io.go that is not regenerated as a function elsewhere,\nin source order -/\ndef fns : List (String × List Line) := [\n")
	for i, f := range all {
		fmt.Fprintf(&b, "  (%s, fn_%s)%s\n", leanString(f.name), ioMangle(f.name), sepComma(i, len(all)))
	}
	b.WriteString("]\n\n")
	fmt.Fprintf(&b, "/-- the functions of io.go that go2lean/keyenc.go regenerates as functions (Gts/Gen/KeyEnc.lean) -/\ndef elsewhere : List String := %s\n\n", leanStrs(elsewhere))

	b.WriteString("/-- the types io.go declares: a struct field by field in order (the literal `&ioDelegate{…}` is positional),\nanother type as `= T` -/\ndef types : List (String × List String) := [\n")
	sts := ioStructs(src)
	for i, s := range sts {
		fmt.Fprintf(&b, "  (%s, %s)%s\n", leanString(s[0].(string)), leanStrs(s[1].([]string)), sepComma(i, len(sts)))
	}
	b.WriteString("]\n\n")

	// --- derived tables
	var calls, rets, assigns, conds []string
	for _, f := range all {
		for i, l := range f.lines {
			if l.kind == "func" {
				continue
			}
			for _, c := range ioCalls(l.text) {
				on, name := "", c.callee
				if k := strings.LastIndex(c.callee, "."); k >= 0 {
					on, name = c.callee[:k], c.callee[k+1:]
				}
				calls = append(calls, fmt.Sprintf("(%s, %d, %s, %s, %s)", leanString(f.name), i, leanString(on), leanString(name), leanStrs(c.args)))
			}
			switch l.kind {
			case "return":
				toks := ioScan(l.text)
				under := ioUnder(f, i)
				inner := ""
				if len(under) > 0 {
					inner = under[len(under)-1]
				}
				rets = append(rets, fmt.Sprintf("(%s, %d, %s, %s)", leanString(f.name), i, leanStrs(ioSplit(l.text, toks, 0, len(toks), token.COMMA)), leanString(inner)))
			case "assign":
				if a, ok := ioAssignOf(l.text); ok {
					assigns = append(assigns, fmt.Sprintf("(%s, %d, %s, %s, %s)", leanString(f.name), i, leanStrs(a.lhs), leanString(a.op), leanStrs(a.rhs)))
				}
			case "if":
				init, cond := ioHeaderParts(l.text)
				conds = append(conds, fmt.Sprintf("(%s, %d, %s)", leanString(f.name), i, leanString(cond)))
				if init != "" {
					if a, ok := ioAssignOf(init); ok {
						assigns = append(assigns, fmt.Sprintf("(%s, %d, %s, %s, %s)", leanString(f.name), i, leanStrs(a.lhs), leanString(a.op), leanStrs(a.rhs)))
					}
				}
			}
		}
	}
	table := func(doc, name, typ string, rows []string) {
		fmt.Fprintf(&b, "/-- %s -/\ndef %s : List (%s) := [\n", doc, name, typ)
		for i, r := range rows {
			fmt.Fprintf(&b, "  %s%s\n", r, sepComma(i, len(rows)))
		}
		b.WriteString("]\n\n")
	}
	table("every call `on.name(args)`: (function, line of the function's table, what it is called on — a package, a\nvariable, a field path; \"\" for a plain function —, the name, the arguments), in source order (a call inside an\nargument follows the call it is an argument of)", "calls", "String × Nat × String × String × List String", calls)
	table("every `return`: (function, line, the results, the innermost `if` / `for` / `else` header it stands under,\n\"\" = the top level of the function)", "returns", "String × Nat × List String × String", rets)
	table("every assignment, also the init part of an `if` header: (function, line, left sides, operator, right sides)", "assigns", "String × Nat × List String × String × List String", assigns)
	table("the condition of every `if`: (function, line, condition)", "conds", "String × Nat × String", conds)

	b.WriteString("/-- the chain of headers every line stands under, outermost first: (function, line, headers) — lines at the top\nlevel of their function are left out -/\ndef under : List (String × Nat × List String) := [\n")
	var us []string
	for _, f := range all {
		for i, l := range f.lines {
			if l.kind == "func" {
				continue
			}
			if u := ioUnder(f, i); len(u) > 0 {
				us = append(us, fmt.Sprintf("(%s, %d, %s)", leanString(f.name), i, leanStrs(u)))
			}
		}
	}
	for i, u := range us {
		fmt.Fprintf(&b, "  %s%s\n", u, sepComma(i, len(us)))
	}
	b.WriteString("]\n\n")
	b.WriteString("end Gts.Gen.IoDelegate\n")
	return b.String(), nil
}
