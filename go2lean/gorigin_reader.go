package main

// The ORIGIN reader `makeGenbankOriginParser` (Gts/Gen/OriginReader.lean): the statements of the
// returned parser as recognised facts (`originReaderFrame`), and everything behind `state.Clear()`
// — the length guard, the request, the choice between the fast and the slow path, the check for a
// further sequence line — translated as `originReaderTail`.
//
// How the pars.State operations are read (go-pars v1.1.6 state.go, pinned), on a state seen as its
// remaining input `state : List UInt8` directly behind `state.Clear()` (offset 0):
//
//   - `if err := state.Request(n); err != nil { … }`: the request fails iff fewer than `n` bytes
//     remain (`len(state) < n`; a negative `n` "succeeds"); afterwards `n` is the requested count.
//   - `state.Buffer()`: `state[:n]` — a panic for a negative `n` (`buf[off:end]` with `end < off`).
//   - `state.Advance()`: the requested bytes are consumed (`state[n:]`); only behind a Request.
//   - `if c, err := pars.Next(state); err == nil && c == X { … }`: `Request(1)` and the first byte:
//     the condition is `state.head? = some X`.
//   - `if validateOrigin(p, length, state.Position()) == nil { A } else { B }`: the regenerated
//     `validateOrigin`: `.ok` → A, a returned error → B, a panic propagates.
//   - `parser := slowGenBankOriginParser(length)` … `if err := parser(state, result); err != nil {
//     return err }`: the regenerated slow path on (state, result.Token); an error is returned as it
//     is, a panic propagates; otherwise the state and the token are the ones it leaves.
//
// Anything else is refused.

import (
	"bytes"
	"fmt"
	"go/ast"
	"go/printer"
	"go/token"
	"strings"
)

func (c *octx) reqOf(state string) string {
	v, ok := c.vars["#req:"+state]
	if !ok {
		refuse("%s.Buffer() / %s.Advance() without a Request in front of it", state, state)
	}
	return v.expr
}

func (c *octx) stateVar(x ast.Expr) (string, bool) {
	name := identName(x)
	v, ok := c.vars[name]
	return name, ok && v.typ == "state"
}

// methodCall: x is `RECV.NAME(args…)` with RECV a plain identifier
func methodCall(x ast.Expr, name string, nargs int) (recv ast.Expr, args []ast.Expr, ok bool) {
	call, isCall := x.(*ast.CallExpr)
	if !isCall || len(call.Args) != nargs || call.Ellipsis.IsValid() {
		return nil, nil, false
	}
	sel, isSel := call.Fun.(*ast.SelectorExpr)
	if !isSel || sel.Sel.Name != name || identName(sel.X) == "" {
		return nil, nil, false
	}
	return sel.X, call.Args, true
}

// errInit: `if E := RHS; E != nil { body }` without else → (E, RHS)
func errInit(n *ast.IfStmt) (string, ast.Expr, bool) {
	as, ok := n.Init.(*ast.AssignStmt)
	if !ok || as.Tok != token.DEFINE || len(as.Lhs) != 1 || len(as.Rhs) != 1 || n.Else != nil {
		return "", nil, false
	}
	e := identName(as.Lhs[0])
	if e == "" || exprString(n.Cond) != e+" != nil" {
		return "", nil, false
	}
	return e, as.Rhs[0], true
}

func (c *octx) validateCall(x ast.Expr) (string, bool) {
	call, ok := x.(*ast.CallExpr)
	if !ok || identName(call.Fun) != "validateOrigin" || len(call.Args) != 3 {
		return "", false
	}
	p := c.bytesOf(c.expr(call.Args[0], nil), "validateOrigin")
	l := c.intOf(c.expr(call.Args[1], nil), "validateOrigin")
	if g := c.expr(call.Args[2], nil); g.typ != "ghost" {
		refuse("validateOrigin: the position argument")
	}
	c.uses["fmt9"] = true
	return fmt.Sprintf("validateOrigin %s fmt9 %s %s", c.fuelName(), p, l), true
}

func (c *octx) readerStmt(list []ast.Stmt, k func(c *octx) string) (string, bool) {
	s, rest := list[0], list[1:]
	ite := func(cond, a, b string) string {
		return fmt.Sprintf("if %s then\n%s\nelse\n%s", cond, oindent("("+a+")"), oindent("("+b+")"))
	}
	switch n := s.(type) {
	case *ast.IfStmt:
		if e, rhs, ok := errInit(n); ok {
			// if err := state.Request(n); err != nil { return <error> }
			if recv, args, ok := methodCall(rhs, "Request", 1); ok {
				st, isState := c.stateVar(recv)
				if !isState {
					refuse("Request on %s", exprString(recv))
				}
				cnt := c.intOf(c.expr(args[0], nil), "Request")
				cb := c.clone()
				cb.declare(e, oval{typ: "error"})
				if !returns(n.Body.List) {
					refuse("a failed Request does not return")
				}
				thenS := cb.stmts(n.Body.List, nil)
				r := c.tmp("r")
				c.vars["#req:"+st] = oval{typ: "req", expr: r}
				return fmt.Sprintf("let %s : Int := %s;\n", r, cnt) +
					ite(fmt.Sprintf("((%s.length : Int) < %s)", st, r), thenS, c.stmts(rest, k)), true
			}
			// if err := parser(state, result); err != nil { return err }
			if call, ok := rhs.(*ast.CallExpr); ok && len(call.Args) == 2 {
				if pv, ok := c.vars[identName(call.Fun)]; ok && pv.typ == "parser" {
					st, isState := c.stateVar(call.Args[0])
					res := identName(call.Args[1])
					rv, isRes := c.vars[res]
					if !isState || !isRes || rv.typ != "Result" {
						refuse("%s: arguments", exprString(call.Fun))
					}
					if len(n.Body.List) != 1 {
						refuse("the error of %s is not returned as it is", exprString(call.Fun))
					}
					if rs, ok := n.Body.List[0].(*ast.ReturnStmt); !ok || len(rs.Results) != 1 || identName(rs.Results[0]) != e {
						refuse("the error of %s is not returned as it is", exprString(call.Fun))
					}
					c.ownLeaves(st)
					c.ownLeaves(res)
					c.uses["fmt9"], c.uses["parsLine"] = true, true
					x := c.tmp("x")
					callS := fmt.Sprintf("slowGenBankOriginParser %s fmt9 parsLine %s %s %s", c.fuelName(), pv.expr, st, rv.fields["Token"].expr)
					delete(c.vars, "#req:"+st)
					lets := []string{fmt.Sprintf("let %s : List UInt8 := %s.2;", st, x)}
					c.setVar(res, oval{typ: "Result", fields: map[string]oval{"Token": {typ: "bytes", expr: x + ".1"}}}, &lets, false)
					return fmt.Sprintf("match %s with\n| .error e_ => .error e_\n| .ok %s =>\n%s", callS, x, ojoin(lets, c.stmts(rest, k))), true
				}
			}
			refuse("if with init: %s", exprString(rhs))
		}
		// if c, err := pars.Next(state); err == nil && c == X { body }
		if as, ok := n.Init.(*ast.AssignStmt); ok {
			if as.Tok != token.DEFINE || len(as.Lhs) != 2 || len(as.Rhs) != 1 || n.Else != nil {
				refuse("if with init")
			}
			call, isCall := as.Rhs[0].(*ast.CallExpr)
			if !isCall || exprString(call.Fun) != "pars.Next" || len(call.Args) != 1 {
				refuse("if with init")
			}
			st, isState := c.stateVar(call.Args[0])
			cv, ev := identName(as.Lhs[0]), identName(as.Lhs[1])
			cond, isBin := n.Cond.(*ast.BinaryExpr)
			if !isState || cv == "" || ev == "" || !isBin || cond.Op != token.LAND || exprString(cond.X) != ev+" == nil" {
				refuse("pars.Next: the condition is not `err == nil && c == X`")
			}
			cmp, isCmp := cond.Y.(*ast.BinaryExpr)
			if !isCmp || cmp.Op != token.EQL || identName(cmp.X) != cv {
				refuse("pars.Next: the condition is not `err == nil && c == X`")
			}
			x := c.expr(cmp.Y, nil)
			if x.typ != "byte" {
				refuse("pars.Next: comparison with a %s", x.typ)
			}
			if !returns(n.Body.List) {
				refuse("pars.Next: the body does not return")
			}
			delete(c.vars, "#req:"+st)
			cb := c.clone()
			cb.declare(cv, oval{typ: "byte", expr: x.expr})
			cb.declare(ev, oval{typ: "nil"})
			return ite(fmt.Sprintf("(%s.head? = some %s)", st, x.expr), cb.stmts(n.Body.List, nil), c.stmts(rest, k)), true
		}
		// if validateOrigin(p, length, state.Position()) == nil { A } else { B }
		if n.Init == nil {
			if b, ok := n.Cond.(*ast.BinaryExpr); ok && (b.Op == token.EQL || b.Op == token.NEQ) && identName(b.Y) == "nil" {
				if callS, ok := c.validateCall(b.X); ok {
					var elseList []ast.Stmt
					switch e := n.Else.(type) {
					case nil:
					case *ast.BlockStmt:
						elseList = e.List
					default:
						refuse("else-if")
					}
					okL, errL := n.Body.List, elseList
					if b.Op == token.NEQ {
						okL, errL = elseList, n.Body.List
					}
					c.noShadow(okL)
					c.noShadow(errL)
					okS := c.clone().stmts(append(append([]ast.Stmt{}, okL...), rest...), k)
					errS := c.clone().stmts(append(append([]ast.Stmt{}, errL...), rest...), k)
					return fmt.Sprintf("match %s with\n| .error .panic => .error .panic\n| .ok _ =>\n%s\n| .error .fail =>\n%s", callS,
						oindent("("+okS+")"), oindent("("+errS+")")), true
				}
			}
		}
	case *ast.AssignStmt:
		if len(n.Lhs) == 1 && len(n.Rhs) == 1 && n.Tok == token.DEFINE && identName(n.Lhs[0]) != "" {
			// p := state.Buffer()
			if recv, _, ok := methodCall(n.Rhs[0], "Buffer", 0); ok {
				st, isState := c.stateVar(recv)
				if !isState {
					refuse("Buffer on %s", exprString(recv))
				}
				var pre []obind
				var lets []string
				v := oval{typ: "bytes", expr: c.effect(&pre, "opt", "x", fmt.Sprintf("goSliceTo %s %s", st, c.reqOf(st)))}
				c.setVar(identName(n.Lhs[0]), v, &lets, true)
				return owrap(pre, ojoin(lets, c.stmts(rest, k))), true
			}
			// parser := slowGenBankOriginParser(length)
			if call, ok := n.Rhs[0].(*ast.CallExpr); ok && identName(call.Fun) == "slowGenBankOriginParser" && len(call.Args) == 1 {
				l := c.intOf(c.expr(call.Args[0], nil), "slowGenBankOriginParser")
				c.declare(identName(n.Lhs[0]), oval{typ: "parser", expr: l})
				return c.stmts(rest, k), true
			}
		}
	case *ast.ExprStmt:
		// state.Advance()
		if recv, _, ok := methodCall(n.X, "Advance", 0); ok {
			st, isState := c.stateVar(recv)
			if !isState {
				refuse("Advance on %s", exprString(recv))
			}
			c.ownLeaves(st)
			r := c.reqOf(st)
			delete(c.vars, "#req:"+st)
			return fmt.Sprintf("let %s : List UInt8 := %s.drop (Int.toNat %s);\n", st, st, r) + c.stmts(rest, k), true
		}
	}
	return "", false
}

// ---- Gts/Gen/OriginReader.lean ------------------------------------------------------------------

func genOriginReader(repo string) (text string, err error) {
	defer recoverRefusal(&err)
	s, perr := originSource(repo)
	if perr != nil {
		return "", perr
	}
	s.constants()
	fd := findFunc(s.sub, "makeGenbankOriginParser")
	if fd == nil {
		refuse("genbank_subparsers.go: makeGenbankOriginParser not found")
	}
	onormalise(fd)
	what := "genbank_subparsers.go `makeGenbankOriginParser`"
	ps := wantSig(what+": parameter", fd.Type.Params, "int")
	wantSig(what+": result", fd.Type.Results, "genbankSubparser")
	pre1, lit1 := innerParser(what, fd.Body.List)
	if len(pre1) != 0 {
		refuse("%s: statements in front of the returned sub-parser", what)
	}
	gs := wantSig(what+": parameter of the sub-parser", lit1.Type.Params, "*GenBank", "int")
	pre2, lit2 := innerParser(what, lit1.Body.List)
	qs := wantSig(what+": parameter of the returned parser", lit2.Type.Params, "*pars.State", "*pars.Result")
	wantSig(what+": result of the returned parser", lit2.Type.Results, "error")
	body := lit2.Body.List
	// the three statements in front of the translated tail
	if len(pre2) != 1 || len(body) < 4 {
		refuse("%s: expected `P := genbankFieldNameParser(\"ORIGIN\", depth)` and a parser of at least four statements", what)
	}
	fp := ""
	if as, ok := pre2[0].(*ast.AssignStmt); ok && as.Tok == token.DEFINE && len(as.Lhs) == 1 && len(as.Rhs) == 1 &&
		exprString(as.Rhs[0]) == "genbankFieldNameParser(\"ORIGIN\", "+gs[1]+")" {
		fp = identName(as.Lhs[0])
	}
	if fp == "" {
		refuse("%s: the statement in front of the returned parser is not `P := genbankFieldNameParser(\"ORIGIN\", %s)`", what, gs[1])
	}
	st, res := qs[0], qs[1]
	head := []string{
		"if err := " + fp + "(" + st + ", " + res + "); err != nil { return err }",
		"pars.Line(" + st + ", " + res + ")",
		st + ".Clear()",
	}
	for i, w := range head {
		got := oneLine(body[i])
		if i == 0 {
			// the name of the error variable is free
			if is, ok := body[0].(*ast.IfStmt); ok {
				if e, _, ok := errInit(is); ok {
					w = strings.ReplaceAll(w, "err", e)
				}
			}
		}
		if got != w {
			refuse("%s: statement %d of the returned parser is `%s`, expected `%s`", what, i+1, got, w)
		}
	}
	c := s.newCtx()
	c.declare(ps[0], oval{typ: "int", expr: ps[0]})
	c.declare(gs[0], ostructVar("GenBankO", gs[0]))
	c.declare(st, oval{typ: "state", expr: st})
	c.declare(res, ostructVar("Result", res))
	gb := gs[0]
	c.ret = retError(func(c *octx) string {
		return ".ok " + otuple(append(c.stateExprs([]string{gb}), c.stateExprs([]string{st})...))
	})
	var binders []string
	binders = append(binders, "("+ps[0]+" : Int)", "("+st+" : List UInt8)")
	for _, l := range oflat(c.vars[res]) {
		binders = append(binders, "("+l.expr+" : List UInt8)")
	}
	for _, l := range oflat(c.vars[gb]) {
		binders = append(binders, "("+l.expr+" : "+oleanTypeOf(l)+")")
	}
	c.f = nil
	def := func() string {
		cc := c
		cc.f = &ofn{base: "originReaderTail", reader: true}
		out, _ := s.odefWith(cc, "originReaderTail", what+": the returned parser behind `"+oneLine(body[0])+"; "+head[1]+"; "+head[2]+
			"`, on the remaining input `"+st+"`; result: the fields (Buffer, Parsed) of `"+gb+".Origin` and the remaining input", binders, body[3:],
			"List UInt8 × Bool × List UInt8")
		return out
	}()
	b := strings.Builder{}
	b.WriteString(oheader("The ORIGIN reader `makeGenbankOriginParser`: its statements as recognised facts, and the part behind\n  `state.Clear()` (length guard, request, fast or slow path, further sequence line) translated.",
		"import Gts.Gen.GoBytes\nimport Gts.Gen.OriginConsts\nimport Gts.Gen.ArithOrigin\nimport Gts.Gen.OriginValidate\nimport Gts.Gen.OriginSlow\n"))
	b.WriteString(s.readerFrame())
	b.WriteString(def)
	b.WriteString("end Gts.Gen\n")
	return b.String(), nil
}

func oneLine(st ast.Stmt) string {
	var buf bytes.Buffer
	if err := printer.Fprint(&buf, token.NewFileSet(), st); err != nil {
		refuse("%v", err)
	}
	out := ""
	for _, ln := range strings.Split(buf.String(), "\n") {
		ln = strings.Join(strings.Fields(ln), " ")
		switch {
		case ln == "":
		case out == "":
			out = ln
		case strings.HasSuffix(out, "{") || strings.HasPrefix(ln, "}"):
			out += " " + ln
		default:
			out += "; " + ln
		}
	}
	return out
}
