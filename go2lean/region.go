package main

// Generators for region.go (DESIGN.md 4.1a, third part).  Three generated modules, so that a
// refusal in one area only stops the theorems that depend on that area:
//
//	Gts/Gen/RegionSeg.lean     utils.go Abs, Segment.Len / Head / Tail / Complement        (C08, C09)
//	Gts/Gen/Region.lean        BySegment.Less, invertSegments, the merge loop of Minimize  (C09, C15)
//	Gts/Gen/RegionResize.lean  Regions.Len, the bounds and the walk of Regions.Resize       (C08)
//	Gts/Gen/RegionRec.lean     Region.Len / Head / Tail / Complement over Segment | Regions (C08)
//
// What is translated, and how it is read:
//
//   - `utils.go Abs` (the sign-mask idiom `y := x >> (intSize-1); return (x ^ y) - y`) literally:
//     Go `int` is the unbounded `Int`, `>>` is the arithmetic shift `Int.shiftRight`, `^` the
//     two's-complement exclusive-or `ixor` (generated prelude), `intSize` is 64.
//     ASSUMED READING: the constant `32 << (^uint(0) >> 63)` is 64 (a 64-bit platform); the text of
//     the constant is checked.  The bridge holds for -2^63 <= x < 2^63.
//   - `Segment` (`[2]int`) is two integers; a `Segment` / `Region` result is a pair `Int × Int`;
//     `s[0]`, `s[1]` (literal index only), `Unpack(s)`, `Segment{a, b}`.  The text of the type
//     declarations `Segment`, `Regions`, `BySegment` and of `Unpack` is checked.
//   - `BySegment.Less(i, j)`: the first statement `l, r := ss[i], ss[j]` copies two array VALUES;
//     exactly that prelude is recognised and the function is generated as a function of the two
//     segments (`ss[i]` outside the slice would be a Go panic).
//   - `range` loops over a `[]Segment` or `Regions` value become structurally recursive helper
//     functions over the list with the variables the body assigns as arguments (the loop state,
//     in order of declaration) — `invertSegments`, `Regions.Len`.
//   - `for [init]; cond; [post] { … }` loops are translated LITERALLY as a fuelled helper over the
//     loop state: `| 0 => state`, `| fuel+1 => if cond then body; post; recurse else state`.  The
//     enclosing generated function takes `fuel` as its first argument; the bridge theorems prove the
//     result for EVERY fuel above an explicit bound (so: the Go loop terminates, and with what).
//     `break`, `continue`, `return` inside a loop and nested loops are refused.
//   - a `[]Segment` is a `List (Int × Int)`: `len(ss)` is `ss.length`, `ss[k]` is
//     `ss.getD k default`, `ss[k] = v` is `List.set`, `append(ss, v)` is `ss ++ [v]`,
//     `make([]Segment, 0, cap)` is `[]`.  A read or store outside the list would be a Go panic;
//     here it yields the default pair / changes nothing (the bridges never read outside).
//     ASSUMED READING: the statement pair `copy(ss[a:], ss[a+1:]); ss = ss[:len(ss)-1]` is Go's
//     delete-element idiom and is generated as `List.eraseIdx a`; exactly that pair is recognised
//     (same slice variable, second offset = first offset + 1 syntactically).  Slices are values
//     here: aliasing of the backing array (C11's subject) is not represented.
//   - a `Regions` value is seen as the list of the results of ONE method on its elements (a call
//     `rr[k].Len()` on the interface `Region` is dynamic dispatch): in `Regions.Resize` and
//     `Regions.Len` the list of element lengths, in `Regions.Head / Tail / Complement` the list of
//     element-wise heads / tails / complements (`make(Regions, n)` is `List.replicate n default`,
//     `ret[k] = r.Complement()` is `List.set`); `reg<M>` in RegionRec.lean is the dispatch over the
//     two implementers of `Region` (checked: exactly Segment and Regions have a `Locate` method in
//     region.go) as a structurally recursive function over `Gts.Reg`.
//   - `Minimize`: `ss := flattenRegion(arg)` and `sort.Sort(BySegment(ss))` in front of the merge
//     loop are checked to be there (`minimizeFrame`) and stay hand-modelled; the rest of the body is
//     `minimizeMerge`.
//   - `Regions.Resize`: `ret := make(Regions, len(rr)); copy(ret, rr)` is checked (ret is rr); the
//     type switch gives one `resizeBounds<Kind>` per modifier kind (`ret.Len()` is `regionsLen`) and
//     the dispatcher `resizeBounds`; `left, right := 0, 0` and the walk give `resizeWalk`; the final
//     `switch Compare(left, right)` is recognised arm by arm and recorded as `resizeFinal`.
//
// Anything else is refused.

import (
	"fmt"
	"go/ast"
	"go/parser"
	"go/token"
	"path/filepath"
	"sort"
	"strings"
)

// the straight-line / loop functions of this generator (visible to calls inside it)
var regionFns = []arithFn{
	{"utils.go", "", "Abs", "gabs", false},
	{"region.go", "Segment", "Len", "segmentLen", false},
	{"region.go", "Segment", "Head", "segmentHead", false},
	{"region.go", "Segment", "Tail", "segmentTail", false},
	{"region.go", "Segment", "Complement", "segmentComplement", false},
	{"region.go", "BySegment", "Less", "bySegmentLess", false},
	{"region.go", "Regions", "Len", "regionsLen", false},
	{"region.go", "", "invertSegments", "invertSegments", false},
}

var modKinds = []struct{ kind, ctor string }{
	{"Head", "head"}, {"Tail", "tail"}, {"HeadTail", "headTail"}, {"HeadHead", "headHead"}, {"TailTail", "tailTail"},
}

// names the generated text uses itself
var regionReserved = map[string]bool{"fuel": true, "rest_": true, "st_": true, "default": true, "ixor": true, "intSize": true}

// ---- loops ------------------------------------------------------------------------------------

type loopCtx struct {
	base    string   // name of the enclosing generated definition
	what    string   // Go function, for the doc comments
	helpers []string // generated loop helpers, in source order
	fuel    bool     // a for loop was translated: the definition takes a fuel argument
	inLoop  bool
}

func (c *loopCtx) helperName() string {
	if len(c.helpers) == 0 {
		return c.base + "Loop"
	}
	return fmt.Sprintf("%sLoop%d", c.base, len(c.helpers)+1)
}

func (e *env) leanTypeOf(v val) string {
	switch v.typ {
	case "lens":
		return "List " + e.viewT
	case "elem":
		return e.viewT
	}
	t, ok := leanType[v.typ]
	if !ok {
		refuse("no Lean type for %s", v.typ)
	}
	return t
}

func (e *env) declare(name string, v val) {
	if regionReserved[name] {
		refuse("variable name %s is reserved by the generator", name)
	}
	e.vars[name] = v
	if _, seen := e.seq[name]; !seen {
		e.seq[name] = len(e.seq)
	}
}

func (e *env) bySeq(names map[string]bool) []string {
	out := make([]string, 0, len(names))
	for n := range names {
		if _, ok := e.seq[n]; !ok {
			refuse("variable %s has no declaration in the translated function", n)
		}
		out = append(out, n)
	}
	sort.Slice(out, func(i, j int) bool { return e.seq[out[i]] < e.seq[out[j]] })
	return out
}

// ownLeaves: the leaves of a variable that is bound to Lean variables derived from its own name
func (e *env) ownLeaves(name string) []val {
	v, ok := e.vars[name]
	if !ok {
		refuse("loop state variable %s is not declared", name)
	}
	var want []val
	if v.fields == nil {
		want = []val{{typ: v.typ, expr: name}}
	} else {
		want = flat(structVar(v.typ, name))
	}
	got := flat(v)
	if len(got) != len(want) {
		refuse("loop state variable %s", name)
	}
	for i := range got {
		if got[i].expr != want[i].expr {
			refuse("loop state variable %s is an alias (%s)", name, got[i].expr)
		}
	}
	return got
}

// state: the variables declared outside stmts that stmts assign, plus extra, in declaration order
func (c *loopCtx) state(e *env, stmts []ast.Stmt, locals, extra []string) []string {
	acc, local := map[string]bool{}, map[string]bool{}
	for _, l := range locals {
		local[l] = true
	}
	e.assigned(stmts, acc, local)
	for _, x := range extra {
		acc[x] = true
	}
	return e.bySeq(acc)
}

// noShadow refuses a loop body that defines (`:=`) a name already bound outside the loop: the
// recursive call at the end of the body passes the loop state by name
func (e *env) noShadow(stmts []ast.Stmt) {
	for _, s := range stmts {
		ast.Inspect(s, func(x ast.Node) bool {
			if as, ok := x.(*ast.AssignStmt); ok && as.Tok == token.DEFINE {
				for _, l := range as.Lhs {
					if n := identName(l); n != "" && n != "_" {
						if _, outer := e.vars[n]; outer || regionReserved[n] {
							refuse("the loop body defines %s, which shadows a variable of the function", n)
						}
					}
				}
			}
			return true
		})
	}
}

// freeVars: variables of the environment read below nodes that are not in exclude
func (e *env) freeVars(nodes []ast.Node, exclude map[string]bool) []string {
	found := map[string]bool{}
	for _, n := range nodes {
		if n == nil {
			continue
		}
		ast.Inspect(n, func(x ast.Node) bool {
			if id, ok := x.(*ast.Ident); ok {
				if _, isVar := e.vars[id.Name]; isVar && !exclude[id.Name] {
					found[id.Name] = true
				}
			}
			return true
		})
	}
	return e.bySeq(found)
}

// leafDecls: `(x : T)` binders and the argument names for a list of variables (aliases once)
func (e *env) leafDecls(names []string) (decls, args []string) {
	seen := map[string]bool{}
	for _, n := range names {
		for _, l := range flat(e.vars[n]) {
			if !isVarName(l.expr) {
				refuse("variable %s is not bound to a Lean variable", n)
			}
			if seen[l.expr] {
				continue
			}
			seen[l.expr] = true
			decls = append(decls, fmt.Sprintf("(%s : %s)", l.expr, e.leanTypeOf(l)))
			args = append(args, l.expr)
		}
	}
	return
}

func stateExprs(en *env, names []string) []string {
	var out []string
	for _, n := range names {
		for _, l := range flat(en.vars[n]) {
			out = append(out, asScalar(l))
		}
	}
	return out
}

func tuple(parts []string) string {
	if len(parts) == 1 {
		return parts[0]
	}
	return "(" + strings.Join(parts, ", ") + ")"
}

// proj: the i-th of m components of the right-nested tuple st_
func proj(i, m int) string {
	if m == 1 {
		return "st_"
	}
	s := "st_"
	for j := 0; j < i; j++ {
		s += ".2"
	}
	if i < m-1 {
		s += ".1"
	}
	return s
}

// rebind: `let st_ := call; let s1 : T := st_.1; …` for the state after a loop
func (e *env) rebind(call string, state []string) string {
	var leaves []val
	for _, n := range state {
		leaves = append(leaves, e.ownLeaves(n)...)
	}
	lets := []string{"let st_ := " + call + ";"}
	for i, l := range leaves {
		lets = append(lets, fmt.Sprintf("let %s : %s := %s;", l.expr, e.leanTypeOf(l), proj(i, len(leaves))))
	}
	return strings.Join(lets, "\n  ")
}

func (c *loopCtx) hook(e *env, stmts []ast.Stmt, k func(en *env) string) (string, bool) {
	switch n := stmts[0].(type) {
	case *ast.RangeStmt:
		return c.rangeLoop(e, n, stmts[1:], k), true
	case *ast.ForStmt:
		return c.forLoop(e, n, stmts[1:], k), true
	case *ast.ExprStmt:
		if call, ok := n.X.(*ast.CallExpr); ok && identName(call.Fun) == "copy" {
			return c.deleteIdiom(e, call, stmts[1:], k), true
		}
	}
	return "", false
}

// `for [KEY], VALUE := range X { body }` over a []Segment or a Regions value
func (c *loopCtx) rangeLoop(e *env, n *ast.RangeStmt, rest []ast.Stmt, k func(en *env) string) string {
	if c.inLoop {
		refuse("nested loop")
	}
	key, value := "", identName(n.Value)
	if n.Key != nil && identName(n.Key) != "_" {
		key = identName(n.Key)
		if key == "" {
			refuse("range key")
		}
	}
	if n.Tok != token.DEFINE || value == "" || value == "_" {
		refuse("range loop without an element variable")
	}
	srcName := identName(n.X)
	if srcName == "" {
		refuse("range over %T", n.X)
	}
	src := e.expr(n.X)
	locals := []string{value}
	if key != "" {
		locals = append(locals, key)
	}
	for _, l := range locals {
		if _, shadow := e.vars[l]; shadow || regionReserved[l] {
			refuse("range variable %s shadows a variable", l)
		}
	}
	e.noShadow(n.Body.List)
	{
		// the body must not assign the range variables (the generated recursion owns them)
		acc := map[string]bool{}
		e.assigned(n.Body.List, acc, map[string]bool{})
		for _, l := range locals {
			if acc[l] {
				refuse("the loop body assigns the range variable %s", l)
			}
		}
	}
	state := c.state(e, n.Body.List, locals, nil)
	for _, st := range state {
		if st == srcName {
			// Go's range evaluates the slice header once but reads the elements from the array as it goes
			refuse("the range loop assigns the slice %s it ranges over", srcName)
		}
	}
	excl := map[string]bool{}
	for _, s := range state {
		excl[s] = true
	}
	fixed := e.freeVars([]ast.Node{n.Body}, excl)
	fdecls, fargs := e.leafDecls(fixed)
	var stLeaves []val
	for _, s := range state {
		stLeaves = append(stLeaves, e.ownLeaves(s)...)
	}
	if len(stLeaves) == 0 {
		refuse("range loop without state")
	}
	name := c.helperName()
	en := e.clone()
	var pat, elemT string
	switch src.typ {
	case "segs":
		sv := structVar("Segment", value)
		en.vars[value] = sv
		pat, elemT = "("+sv.fields["E0"].expr+", "+sv.fields["E1"].expr+")", "(Int × Int)"
	case "lens":
		en.vars[value] = val{typ: "elem", expr: value}
		pat, elemT = value, e.viewT
	default:
		refuse("range over a %s", src.typ)
	}
	var types, names []string
	idxArg := ""
	if key != "" {
		en.vars[key] = val{typ: "int", expr: key}
		types, names = append(types, "Int"), append(names, key)
		idxArg = " (" + key + " + 1)"
	}
	for _, l := range stLeaves {
		types, names = append(types, e.leanTypeOf(l)), append(names, l.expr)
	}
	stNames := names
	if key != "" {
		stNames = names[1:]
	}
	recur := func(en2 *env) string {
		return strings.TrimSpace(fmt.Sprintf("%s %s", name, strings.Join(fargs, " "))) + " rest_" + idxArg + " " + strings.Join(stateExprs(en2, state), " ")
	}
	c.inLoop = true
	body := en.blockK(n.Body.List, recur)
	c.inLoop = false
	h := strings.Builder{}
	fmt.Fprintf(&h, "/-- %s: the loop `for %s := range %s` as a recursion over the list; loop state (%s)", c.what,
		map[bool]string{true: "_", false: key}[key == ""]+", "+value, srcName, strings.Join(state, ", "))
	if key != "" {
		fmt.Fprintf(&h, ", `%s` counts the elements passed", key)
	}
	h.WriteString(" -/\n")
	fmt.Fprintf(&h, "def %s %s: List %s → %s → %s\n", name, joinSp(fdecls), elemT, strings.Join(types, " → "),
		strings.Join(types[len(types)-len(stNames):], " × "))
	fmt.Fprintf(&h, "  | [], %s => %s\n", strings.Join(names, ", "), tuple(stNames))
	fmt.Fprintf(&h, "  | %s :: rest_, %s =>\n    %s\n\n", pat, strings.Join(names, ", "), indent(body, "  "))
	c.helpers = append(c.helpers, h.String())
	start := ""
	if key != "" {
		start = " 0"
	}
	call := strings.TrimSpace(fmt.Sprintf("%s %s", name, strings.Join(fargs, " "))) + " " + src.expr + start + " " + strings.Join(stateExprs(e, state), " ")
	return e.rebind(call, state) + "\n  " + e.blockK(rest, k)
}

// `for [init]; cond; [post] { body }`
func (c *loopCtx) forLoop(e *env, n *ast.ForStmt, rest []ast.Stmt, k func(en *env) string) string {
	if c.inLoop {
		refuse("nested loop")
	}
	if n.Cond == nil {
		refuse("for loop without a condition")
	}
	var lets []string
	var initNames []string
	if n.Init != nil {
		as, ok := n.Init.(*ast.AssignStmt)
		if !ok || as.Tok != token.DEFINE || len(as.Lhs) != len(as.Rhs) {
			refuse("for-loop init")
		}
		vals := make([]val, len(as.Rhs))
		for i, r := range as.Rhs {
			vals[i] = e.expr(r)
		}
		for i, l := range as.Lhs {
			nm := identName(l)
			if _, shadow := e.vars[nm]; nm == "" || nm == "_" || shadow || regionReserved[nm] {
				refuse("for-loop variable %s", nm)
			}
			e.assign(l, vals[i], &lets)
			initNames = append(initNames, nm)
		}
	}
	stmts := append([]ast.Stmt{}, n.Body.List...)
	if n.Post != nil {
		stmts = append(stmts, n.Post)
	}
	e.noShadow(stmts)
	state := c.state(e, stmts, nil, initNames)
	excl := map[string]bool{}
	for _, s := range state {
		excl[s] = true
	}
	fixed := e.freeVars([]ast.Node{n.Cond, n.Body, n.Post}, excl)
	fdecls, fargs := e.leafDecls(fixed)
	var stLeaves []val
	for _, s := range state {
		stLeaves = append(stLeaves, e.ownLeaves(s)...)
	}
	if len(stLeaves) == 0 {
		refuse("for loop without state")
	}
	name := c.helperName()
	var types, names []string
	for _, l := range stLeaves {
		types, names = append(types, e.leanTypeOf(l)), append(names, l.expr)
	}
	en := e.clone()
	cond := asProp(en.expr(n.Cond))
	pre := strings.TrimSpace(fmt.Sprintf("%s %s", name, strings.Join(fargs, " ")))
	recur := func(en2 *env) string {
		return pre + " fuel " + strings.Join(stateExprs(en2, state), " ")
	}
	c.inLoop = true
	body := en.blockK(stmts, recur)
	c.inLoop = false
	h := strings.Builder{}
	fmt.Fprintf(&h, "/-- %s: the loop `for %s` translated literally, with fuel; loop state (%s) -/\n", c.what,
		strings.ReplaceAll(exprString(n.Cond), "-/", "- /"), strings.Join(state, ", "))
	fmt.Fprintf(&h, "def %s %s: Nat → %s → %s\n", name, joinSp(fdecls), strings.Join(types, " → "), strings.Join(types, " × "))
	fmt.Fprintf(&h, "  | 0, %s => %s\n", strings.Join(names, ", "), tuple(names))
	fmt.Fprintf(&h, "  | fuel + 1, %s =>\n    if %s then\n      (%s)\n    else %s\n\n", strings.Join(names, ", "), cond, indent(body, "    "), tuple(names))
	c.helpers = append(c.helpers, h.String())
	c.fuel = true
	call := pre + " fuel " + strings.Join(stateExprs(e, state), " ")
	out := ""
	if len(lets) > 0 {
		out = strings.Join(lets, "\n  ") + "\n  "
	}
	out += e.rebind(call, state) + "\n  "
	// the variables of the init statement are scoped to the loop
	for _, nm := range initNames {
		delete(e.vars, nm)
	}
	return out + e.blockK(rest, k)
}

// offsetOf: `X + c` / `X` as (text of X, c)
func offsetOf(x ast.Expr) (string, int, bool) {
	if b, ok := x.(*ast.BinaryExpr); ok && b.Op == token.ADD {
		if l, ok := b.Y.(*ast.BasicLit); ok && l.Kind == token.INT {
			c := 0
			if _, err := fmt.Sscanf(l.Value, "%d", &c); err != nil {
				return "", 0, false
			}
			return exprString(b.X), c, true
		}
		return "", 0, false
	}
	return exprString(x), 0, true
}

// the delete-element idiom `copy(S[a:], S[a+1:]); S = S[:len(S)-1]`
func (c *loopCtx) deleteIdiom(e *env, call *ast.CallExpr, rest []ast.Stmt, k func(en *env) string) string {
	bad := func(why string) {
		refuse("copy(…) is not the delete-element idiom `copy(S[a:], S[a+1:]); S = S[:len(S)-1]`: %s", why)
	}
	if len(call.Args) != 2 || len(rest) == 0 {
		bad("arguments / no following statement")
	}
	dst, ok1 := call.Args[0].(*ast.SliceExpr)
	srcx, ok2 := call.Args[1].(*ast.SliceExpr)
	if !ok1 || !ok2 || dst.High != nil || srcx.High != nil || dst.Slice3 || srcx.Slice3 || dst.Low == nil || srcx.Low == nil {
		bad("the arguments are not S[a:], S[b:]")
	}
	s := identName(dst.X)
	if s == "" || identName(srcx.X) != s {
		bad("different slices")
	}
	sv, ok := e.vars[s]
	if !ok || sv.typ != "segs" || sv.expr != s {
		bad("not a []Segment variable")
	}
	ax, ac, ok1 := offsetOf(dst.Low)
	bx, bc, ok2 := offsetOf(srcx.Low)
	if !ok1 || !ok2 || ax != bx || bc != ac+1 {
		bad("the second offset is not the first plus one")
	}
	as, ok := rest[0].(*ast.AssignStmt)
	if !ok || as.Tok != token.ASSIGN || len(as.Lhs) != 1 || len(as.Rhs) != 1 || identName(as.Lhs[0]) != s {
		bad("not followed by S = …")
	}
	tr, ok := as.Rhs[0].(*ast.SliceExpr)
	if !ok || identName(tr.X) != s || tr.Low != nil || tr.High == nil || tr.Slice3 || exprString(tr.High) != "len("+s+") - 1" {
		bad("not followed by S = S[:len(S)-1]")
	}
	a := e.expr(dst.Low)
	if a.typ != "int" {
		bad("offset type")
	}
	let := fmt.Sprintf("let %s : %s := %s.eraseIdx (Int.toNat %s);", s, leanType["segs"], s, a.expr)
	return let + "\n  " + e.blockK(rest[1:], k)
}

func joinSp(xs []string) string {
	if len(xs) == 0 {
		return ""
	}
	return strings.Join(xs, " ") + " "
}

func indent(s, by string) string { return strings.ReplaceAll(s, "\n", "\n"+by) }

// ---- the generator ----------------------------------------------------------------------------

type rgen struct {
	fns map[string]arithFn
	out strings.Builder
}

func (g *rgen) newEnv() *env {
	return &env{vars: map[string]val{}, fns: g.fns, seq: map[string]int{}, viewM: "Len", viewT: "Int", viewD: "0"}
}

// def translates body (continuation k, nil: every path returns) and writes helpers + definition
func (g *rgen) def(lean, what string, binders []string, e *env, body []ast.Stmt, k func(en *env) string, rt string) {
	short := what
	if i := strings.Index(what, "`:"); i >= 0 {
		short = what[:i+1]
	} else if i := strings.Index(what, "` "); i >= 0 {
		short = what[:i+1]
	}
	c := &loopCtx{base: lean, what: short}
	e.ext = c.hook
	text := func() (s string) {
		defer func() {
			if r := recover(); r != nil {
				if rf, ok := r.(refusal); ok {
					panic(refusal{what + ": " + rf.msg})
				}
				panic(r)
			}
		}()
		desugar(body)
		return e.blockK(body, k)
	}()
	for _, h := range c.helpers {
		g.out.WriteString(h)
	}
	doc := "/-- " + what
	if c.fuel {
		binders = append([]string{"(fuel : Nat)"}, binders...)
		doc += " (contains a `for` loop: fuel)"
	}
	fmt.Fprintf(&g.out, "%s -/\ndef %s %s: %s :=\n  %s\n\n", doc, lean, joinSp(binders), rt, text)
}

func intBinders(names []string) []string {
	var out []string
	for _, n := range names {
		out = append(out, "("+n+" : Int)")
	}
	return out
}

func normalise(fd *ast.FuncDecl) {
	ast.Inspect(fd, func(n ast.Node) bool {
		if id, ok := n.(*ast.Ident); ok && leanKeywords[id.Name] {
			id.Name += "_"
		}
		if is, ok := n.(*ast.IfStmt); ok {
			if ei, ok := is.Else.(*ast.IfStmt); ok {
				is.Else = &ast.BlockStmt{List: []ast.Stmt{ei}}
			}
		}
		return true
	})
}

func findFunc(af *ast.File, name string) *ast.FuncDecl {
	for _, d := range af.Decls {
		if fd, ok := d.(*ast.FuncDecl); ok && fd.Recv == nil && fd.Name.Name == name {
			return fd
		}
	}
	return nil
}

func typeDeclText(af *ast.File, name string) string {
	for _, d := range af.Decls {
		gd, ok := d.(*ast.GenDecl)
		if !ok || gd.Tok != token.TYPE {
			continue
		}
		for _, s := range gd.Specs {
			ts := s.(*ast.TypeSpec)
			if ts.Name.Name != name {
				continue
			}
			if at, ok := ts.Type.(*ast.ArrayType); ok {
				if at.Len == nil {
					return "[]" + exprString(at.Elt)
				}
				return "[" + exprString(at.Len) + "]" + exprString(at.Elt)
			}
			return exprString(ts.Type)
		}
	}
	return ""
}

func singleIntParam(fd *ast.FuncDecl, n int) []string {
	var out []string
	for _, p := range fd.Type.Params.List {
		if identName(p.Type) != "int" {
			refuse("%s: parameter type", fd.Name.Name)
		}
		for _, nm := range p.Names {
			out = append(out, nm.Name)
		}
	}
	if len(out) != n {
		refuse("%s: expected %d int parameters", fd.Name.Name, n)
	}
	return out
}

func resultTypes(fd *ast.FuncDecl) []string {
	var out []string
	if fd.Type.Results == nil {
		return nil
	}
	for _, r := range fd.Type.Results.List {
		n := len(r.Names)
		if n == 0 {
			n = 1
		}
		for i := 0; i < n; i++ {
			switch t := r.Type.(type) {
			case *ast.Ident:
				out = append(out, t.Name)
			case *ast.ArrayType:
				if t.Len == nil {
					out = append(out, "[]"+exprString(t.Elt))
				} else {
					out = append(out, "?")
				}
			default:
				out = append(out, "?")
			}
		}
	}
	return out
}

func wantResults(fd *ast.FuncDecl, what string, want ...string) {
	got := resultTypes(fd)
	if strings.Join(got, ",") != strings.Join(want, ",") {
		refuse("%s: result type %v, expected %v", what, got, want)
	}
}

func recvName(fd *ast.FuncDecl, what string) string {
	if fd.Recv == nil || len(fd.Recv.List) != 1 || len(fd.Recv.List[0].Names) != 1 {
		refuse("%s: receiver", what)
	}
	n := fd.Recv.List[0].Names[0].Name
	if regionReserved[n] {
		refuse("%s: receiver name %s is reserved by the generator", what, n)
	}
	return n
}

// regionSource: the two parsed files and a generator with the functions calls may refer to
func regionSource(repo string) (g *rgen, utils, af *ast.File, err error) {
	fset := token.NewFileSet()
	utils, err = parser.ParseFile(fset, filepath.Join(repo, "utils.go"), nil, 0)
	if err != nil {
		return
	}
	af, err = parser.ParseFile(fset, filepath.Join(repo, "region.go"), nil, 0)
	if err != nil {
		return
	}
	g = &rgen{fns: map[string]arithFn{}}
	for _, f := range arithFns {
		if f.group() == "" {
			g.fns[f.recv+"."+f.name] = f
		}
	}
	for _, f := range regionFns {
		g.fns[f.recv+"."+f.name] = f
	}
	return
}

func (g *rgen) header(what, imports string) {
	g.out.WriteString("/-\n  GENERATED by go2lean (region.go) from region.go and utils.go — do not edit.\n  " + what + "\n  (how the Go is read: the header comment of go2lean/region.go)\n-/\n")
	g.out.WriteString(imports + "namespace Gts.Gen\nset_option linter.unusedVariables false\n\n")
}

func wantTypes(af *ast.File, decls ...[2]string) {
	for _, t := range decls {
		if got := typeDeclText(af, t[0]); got != t[1] {
			refuse("region.go: type %s is %q, expected %s", t[0], got, t[1])
		}
	}
}

func recoverRefusal(err *error) {
	if r := recover(); r != nil {
		if rf, ok := r.(refusal); ok {
			*err = fmt.Errorf("%s", rf.msg)
			return
		}
		panic(r)
	}
}

// genRegionSeg: Gts/Gen/RegionSeg.lean — `Abs` and the `Segment` methods (obligations of C08 and C09)
func genRegionSeg(repo string) (text string, err error) {
	defer recoverRefusal(&err)
	g, utils, af, perr := regionSource(repo)
	if perr != nil {
		return "", perr
	}
	g.header("`utils.go Abs` and the methods `Len`, `Head`, `Tail`, `Complement` of `Segment`.", "")
	wantTypes(af, [2]string{"Segment", "[2]int"})
	unpack := findFunc(utils, "Unpack")
	if unpack == nil || len(unpack.Body.List) != 1 || len(unpack.Type.Params.List) != 1 || len(unpack.Type.Params.List[0].Names) != 1 {
		refuse("utils.go: Unpack")
	}
	{
		p := unpack.Type.Params.List[0].Names[0].Name
		rs, ok := unpack.Body.List[0].(*ast.ReturnStmt)
		pt, isArr := unpack.Type.Params.List[0].Type.(*ast.ArrayType)
		if !ok || !isArr || pt.Len == nil || exprString(pt.Len) != "2" || identName(pt.Elt) != "int" || len(rs.Results) != 2 ||
			exprString(rs.Results[0]) != p+"[0]" || exprString(rs.Results[1]) != p+"[1]" {
			refuse("utils.go: Unpack is not `func Unpack(p [2]int) (int, int) { return p[0], p[1] }`")
		}
	}
	intSize := ""
	for _, d := range utils.Decls {
		if gd, ok := d.(*ast.GenDecl); ok && gd.Tok == token.CONST {
			for _, s := range gd.Specs {
				vs := s.(*ast.ValueSpec)
				if len(vs.Names) == 1 && vs.Names[0].Name == "intSize" && len(vs.Values) == 1 {
					intSize = exprString(vs.Values[0])
				}
			}
		}
	}
	if intSize != "32 << (^uint(0) >> 63)" {
		refuse("utils.go: const intSize is %q, expected `32 << (^uint(0) >> 63)`", intSize)
	}
	g.out.WriteString("/-- utils.go `const intSize = 32 << (^uint(0) >> 63)`: the width of `int`.  ASSUMED reading: a 64-bit\nplatform (`^uint(0) >> 63 = 1`) -/\ndef intSize : Int := 64\n\n")
	g.out.WriteString("/-- Go `x ^ y` on `int`, read on unbounded two's-complement integers -/\ndef ixor : Int → Int → Int\n")
	g.out.WriteString("  | .ofNat m, .ofNat n => .ofNat (m ^^^ n)\n  | .ofNat m, .negSucc n => .negSucc (m ^^^ n)\n")
	g.out.WriteString("  | .negSucc m, .ofNat n => .negSucc (m ^^^ n)\n  | .negSucc m, .negSucc n => .ofNat (m ^^^ n)\n\n")

	// ---- utils.go Abs --------------------------------------------------------------------------
	{
		fd := findFunc(utils, "Abs")
		if fd == nil {
			refuse("utils.go: Abs not found")
		}
		normalise(fd)
		wantResults(fd, "Abs", "int")
		ps := singleIntParam(fd, 1)
		e := g.newEnv()
		e.bitops = true
		e.results = []string{"int"}
		e.vars["intSize"] = val{typ: "int", expr: "intSize"}
		e.declare(ps[0], val{typ: "int", expr: ps[0]})
		g.def("gabs", "utils.go `Abs`", intBinders(ps), e, fd.Body.List, nil, "Int")
	}

	// ---- Segment methods -----------------------------------------------------------------------
	for _, m := range []struct{ name, lean, goRes, res, rt string }{
		{"Len", "segmentLen", "int", "int", "Int"}, {"Head", "segmentHead", "int", "int", "Int"},
		{"Tail", "segmentTail", "int", "int", "Int"}, {"Complement", "segmentComplement", "Region", "Segment", "Int × Int"},
	} {
		fd := findMethod(af, "Segment", m.name)
		if fd == nil {
			refuse("region.go: Segment.%s not found", m.name)
		}
		normalise(fd)
		what := "region.go `Segment." + m.name + "`"
		wantResults(fd, what, m.goRes)
		singleIntParam(fd, 0)
		rn := recvName(fd, what)
		e := g.newEnv()
		e.results = []string{m.res}
		sv := structVar("Segment", rn)
		e.declare(rn, sv)
		bs, _ := e.leafDecls([]string{rn})
		g.def(m.lean, what, bs, e, fd.Body.List, nil, m.rt)
	}

	g.out.WriteString("end Gts.Gen\n")
	return g.out.String(), nil
}

// genRegion: Gts/Gen/Region.lean — `BySegment.Less`, `invertSegments`, the merge loop of `Minimize`
// (obligations of C09 and C15)
func genRegion(repo string) (text string, err error) {
	defer recoverRefusal(&err)
	g, _, af, perr := regionSource(repo)
	if perr != nil {
		return "", perr
	}
	g.header("`BySegment.Less`, `invertSegments` and the merge loop of `Minimize`; loops are recursive helpers over\n  the loop state.", "import Gts.Gen.Arith\n")
	wantTypes(af, [2]string{"Segment", "[2]int"}, [2]string{"BySegment", "[]Segment"})
	// ---- BySegment.Less ------------------------------------------------------------------------
	{
		fd := findMethod(af, "BySegment", "Less")
		if fd == nil {
			refuse("region.go: BySegment.Less not found")
		}
		normalise(fd)
		what := "region.go `BySegment.Less`"
		wantResults(fd, what, "bool")
		ps := singleIntParam(fd, 2)
		rn := recvName(fd, what)
		if len(fd.Body.List) == 0 {
			refuse("%s: empty body", what)
		}
		as, ok := fd.Body.List[0].(*ast.AssignStmt)
		if !ok || as.Tok != token.DEFINE || len(as.Lhs) != 2 || len(as.Rhs) != 2 ||
			exprString(as.Rhs[0]) != rn+"["+ps[0]+"]" || exprString(as.Rhs[1]) != rn+"["+ps[1]+"]" ||
			identName(as.Lhs[0]) == "" || identName(as.Lhs[1]) == "" || identName(as.Lhs[0]) == identName(as.Lhs[1]) {
			refuse("%s: the first statement is not `l, r := %s[%s], %s[%s]`", what, rn, ps[0], rn, ps[1])
		}
		l, r := identName(as.Lhs[0]), identName(as.Lhs[1])
		e := g.newEnv()
		e.results = []string{"bool"}
		e.declare(l, structVar("Segment", l))
		e.declare(r, structVar("Segment", r))
		// the receiver and the indices are not visible below: any further use of them is refused
		bs, _ := e.leafDecls([]string{l, r})
		g.def("bySegmentLess", what+" as a function of the two segments `"+l+", "+r+" := "+rn+"["+ps[0]+"], "+rn+"["+ps[1]+"]` (array values: copies)",
			bs, e, fd.Body.List[1:], nil, "Bool")
	}

	// ---- invertSegments ------------------------------------------------------------------------
	{
		fd := findFunc(af, "invertSegments")
		if fd == nil {
			refuse("region.go: invertSegments not found")
		}
		normalise(fd)
		what := "region.go `invertSegments`"
		wantResults(fd, what, "[]Segment")
		pl := fd.Type.Params.List
		if len(pl) != 2 || len(pl[0].Names) != 1 || len(pl[1].Names) != 1 || identName(pl[1].Type) != "int" {
			refuse("%s: expected the parameters (ss []Segment, n int)", what)
		}
		if at, ok := pl[0].Type.(*ast.ArrayType); !ok || at.Len != nil || identName(at.Elt) != "Segment" {
			refuse("%s: expected the parameters (ss []Segment, n int)", what)
		}
		ss, n := pl[0].Names[0].Name, pl[1].Names[0].Name
		e := g.newEnv()
		e.results = []string{"segs"}
		e.declare(ss, val{typ: "segs", expr: ss})
		e.declare(n, val{typ: "int", expr: n})
		g.def("invertSegments", what, []string{"(" + ss + " : List (Int × Int))", "(" + n + " : Int)"}, e, fd.Body.List, nil, "List (Int × Int)")
	}

	g.minimize(af)
	g.out.WriteString("end Gts.Gen\n")
	return g.out.String(), nil
}

// genRegionResize: Gts/Gen/RegionResize.lean — `Regions.Len`, the bounds and the walk of
// `Regions.Resize` (obligations of C08)
func genRegionResize(repo string) (text string, err error) {
	defer recoverRefusal(&err)
	g, _, af, perr := regionSource(repo)
	if perr != nil {
		return "", perr
	}
	g.header("`Regions.Len` and `Regions.Resize`: the bounds per modifier kind, the walk over the elements, the\n  final switch as recognised facts.", "import Gts.Model.Region\n")
	wantTypes(af, [2]string{"Regions", "[]Region"})
	// ---- Regions.Len ---------------------------------------------------------------------------
	{
		fd := findMethod(af, "Regions", "Len")
		if fd == nil {
			refuse("region.go: Regions.Len not found")
		}
		normalise(fd)
		what := "region.go `Regions.Len`"
		wantResults(fd, what, "int")
		singleIntParam(fd, 0)
		rn := recvName(fd, what)
		e := g.newEnv()
		e.results = []string{"int"}
		e.declare(rn, val{typ: "lens", expr: rn})
		g.def("regionsLen", what+" on the list of the lengths of the elements (`r.Len()` on the interface Region is the element)",
			[]string{"(" + rn + " : List Int)"}, e, fd.Body.List, nil, "Int")
	}

	g.resize(af)
	g.out.WriteString("end Gts.Gen\n")
	return g.out.String(), nil
}

// genRegionRec: Gts/Gen/RegionRec.lean — `Region.Len / Head / Tail / Complement` over the whole
// tree `Segment | Regions` (obligations of C08).  For each method M the `Regions` method is
// translated on the list of the element-wise results of M (a call `r.M()` / `rr[k].M()` on the
// interface Region is dynamic dispatch: the recursive call of the generated function), and
// `reg<M>` puts it together with `Segment.M` as a structurally recursive function over `Gts.Reg`.
func genRegionRec(repo string) (text string, err error) {
	defer recoverRefusal(&err)
	g, _, af, perr := regionSource(repo)
	if perr != nil {
		return "", perr
	}
	g.header("`Region.Len / Head / Tail / Complement` over the tree `Segment | Regions`: the `Regions` methods on the\n  list of element-wise results, and the dispatch as structurally recursive functions over `Gts.Reg`.",
		"import Gts.Gen.RegionSeg\nimport Gts.Gen.RegionResize\nimport Gts.Model.Region\n")
	wantTypes(af, [2]string{"Segment", "[2]int"}, [2]string{"Regions", "[]Region"})
	// the implementers of Region in region.go: exactly Segment and Regions
	var impl []string
	for _, d := range af.Decls {
		if fd, ok := d.(*ast.FuncDecl); ok && fd.Recv != nil && fd.Name.Name == "Locate" && len(fd.Recv.List) == 1 {
			impl = append(impl, exprString(fd.Recv.List[0].Type))
		}
	}
	sort.Strings(impl)
	if strings.Join(impl, ",") != "Regions,Segment" {
		refuse("region.go: the types with a Locate method are %v, expected Segment and Regions", impl)
	}
	for _, m := range []struct{ name, elemT, def, res, rt string }{
		{"Head", "Int", "0", "int", "Int"}, {"Tail", "Int", "0", "int", "Int"}, {"Complement", "Gts.Reg", "default", "lens", "List Gts.Reg"},
	} {
		fd := findMethod(af, "Regions", m.name)
		if fd == nil {
			refuse("region.go: Regions.%s not found", m.name)
		}
		normalise(fd)
		what := "region.go `Regions." + m.name + "`"
		wantResults(fd, what, map[string]string{"int": "int", "lens": "Region"}[m.res])
		singleIntParam(fd, 0)
		rn := recvName(fd, what)
		e := g.newEnv()
		e.viewM, e.viewT, e.viewD = m.name, m.elemT, m.def
		e.results = []string{m.res}
		e.declare(rn, val{typ: "lens", expr: rn})
		g.def("regions"+m.name, what+" on the list of the element-wise results of `"+m.name+"` (`r."+m.name+"()` on the interface Region is the element)",
			[]string{"(" + rn + " : List " + m.elemT + ")"}, e, fd.Body.List, nil, m.rt)
	}
	for _, m := range []struct{ name, elemT, seg, many string }{
		{"Len", "Int", "segmentLen h t", "regionsLen (regLenList rs)"},
		{"Head", "Int", "segmentHead h t", "regionsHead (regHeadList rs)"},
		{"Tail", "Int", "segmentTail h t", "regionsTail (regTailList rs)"},
		{"Complement", "Gts.Reg", ".seg (segmentComplement h t).1 (segmentComplement h t).2", ".many (regionsComplement (regComplementList rs))"},
	} {
		fmt.Fprintf(&g.out, "mutual\n/-- region.go: `Region.%s()` — dynamic dispatch over `Segment` / `Regions` -/\ndef reg%s : Gts.Reg → %s\n  | .seg h t => %s\n  | .many rs => %s\n",
			m.name, m.name, m.elemT, m.seg, m.many)
		fmt.Fprintf(&g.out, "/-- element-wise `%s` (what the loops / index expressions of `Regions.%s` see) -/\ndef reg%sList : List Gts.Reg → List %s\n  | [] => []\n  | r :: rs => reg%s r :: reg%sList rs\nend\n\n",
			m.name, m.name, m.name, m.elemT, m.name, m.name)
	}
	g.out.WriteString("end Gts.Gen\n")
	return g.out.String(), nil
}

// ---- Minimize ---------------------------------------------------------------------------------

func (g *rgen) minimize(af *ast.File) {
	fd := findFunc(af, "Minimize")
	if fd == nil {
		refuse("region.go: Minimize not found")
	}
	normalise(fd)
	what := "region.go `Minimize`"
	wantResults(fd, what, "[]Segment")
	pl := fd.Type.Params.List
	if len(pl) != 1 || len(pl[0].Names) != 1 || identName(pl[0].Type) != "Region" {
		refuse("%s: expected the parameter (arg Region)", what)
	}
	arg := pl[0].Names[0].Name
	body := fd.Body.List
	if len(body) < 3 {
		refuse("%s: body", what)
	}
	// ss := flattenRegion(arg)
	as, ok := body[0].(*ast.AssignStmt)
	if !ok || as.Tok != token.DEFINE || len(as.Lhs) != 1 || len(as.Rhs) != 1 || identName(as.Lhs[0]) == "" ||
		exprString(as.Rhs[0]) != "flattenRegion("+arg+")" {
		refuse("%s: the first statement is not `ss := flattenRegion(%s)`", what, arg)
	}
	ss := identName(as.Lhs[0])
	// sort.Sort(BySegment(ss))
	if es, ok := body[1].(*ast.ExprStmt); !ok || exprString(es.X) != "sort.Sort(BySegment("+ss+"))" {
		refuse("%s: the second statement is not `sort.Sort(BySegment(%s))`", what, ss)
	}
	fmt.Fprintf(&g.out, "/-- %s: the statements in front of the merge loop, recognised one by one (they stay hand-modelled:\n`Reg.flatten`, `Reg.sortSegs`); `minimizeMerge` is the rest of the body -/\ndef minimizeFrame : List String := [%s]\n\n",
		what, quoteAll([]string{"ss := flattenRegion(arg)", "sort.Sort(BySegment(ss))", "minimizeMerge ss"}))
	e := g.newEnv()
	e.results = []string{"segs"}
	e.declare(ss, val{typ: "segs", expr: ss})
	g.def("minimizeMerge", what+" after `"+ss+" := flattenRegion("+arg+"); sort.Sort(BySegment("+ss+"))`: the merge loop and the return",
		[]string{"(" + ss + " : List (Int × Int))"}, e, body[2:], nil, "List (Int × Int)")
}

// ---- Regions.Resize ---------------------------------------------------------------------------

func (g *rgen) resize(af *ast.File) {
	fd := findMethod(af, "Regions", "Resize")
	if fd == nil {
		refuse("region.go: Regions.Resize not found")
	}
	normalise(fd)
	what := "region.go `Regions.Resize`"
	wantResults(fd, what, "Region")
	rr := recvName(fd, what)
	pl := fd.Type.Params.List
	if len(pl) != 1 || len(pl[0].Names) != 1 || identName(pl[0].Type) != "Modifier" {
		refuse("%s: expected the parameter (mod Modifier)", what)
	}
	mod := pl[0].Names[0].Name
	body := fd.Body.List
	if len(body) != 7 {
		refuse("%s: expected 7 statements (copy of the receiver ×2, bounds init, type switch, walk init, walk, final switch), found %d", what, len(body))
	}
	// ret := make(Regions, len(rr)); copy(ret, rr)
	as, ok := body[0].(*ast.AssignStmt)
	if !ok || as.Tok != token.DEFINE || len(as.Lhs) != 1 || len(as.Rhs) != 1 || identName(as.Lhs[0]) == "" ||
		exprString(as.Rhs[0]) != "make(Regions, len("+rr+"))" {
		refuse("%s: the first statement is not `ret := make(Regions, len(%s))`", what, rr)
	}
	ret := identName(as.Lhs[0])
	if es, ok := body[1].(*ast.ExprStmt); !ok || exprString(es.X) != "copy("+ret+", "+rr+")" {
		refuse("%s: the second statement is not `copy(%s, %s)`", what, ret, rr)
	}
	// lower, upper := …
	bi, ok := body[2].(*ast.AssignStmt)
	if !ok || bi.Tok != token.DEFINE || len(bi.Lhs) != 2 || identName(bi.Lhs[0]) == "" || identName(bi.Lhs[1]) == "" {
		refuse("%s: the third statement does not define the two bounds", what)
	}
	lower, upper := identName(bi.Lhs[0]), identName(bi.Lhs[1])
	// switch mod := mod.(type)
	ts, inner, x := typeSwitchOf(body[3])
	if ts == nil || identName(x) != mod || inner == "" {
		refuse("%s: the fourth statement is not `switch m := %s.(type)`", what, mod)
	}
	clauses := map[string][]ast.Stmt{}
	for _, c := range ts.Body.List {
		cc := c.(*ast.CaseClause)
		if len(cc.List) != 1 {
			refuse("%s: type switch: default clause or case list", what)
		}
		kind := identName(cc.List[0])
		known := false
		for _, mk := range modKinds {
			known = known || mk.kind == kind
		}
		if _, dup := clauses[kind]; !known || dup {
			refuse("%s: type switch: case %s", what, exprString(cc.List[0]))
		}
		clauses[kind] = cc.Body
	}
	boundsK := func(en *env) string {
		return tuple(stateExprs(en, []string{lower, upper}))
	}
	var arms []string
	for _, mk := range modKinds {
		e := g.newEnv()
		var bs []string
		switch mk.kind {
		case "Head", "Tail":
			e.declare(inner, val{typ: "int", expr: inner})
		default:
			e.declare(inner, structVar(mk.kind, inner))
		}
		bs, args := e.leafDecls([]string{inner})
		e.declare(rr, val{typ: "lens", expr: rr})
		e.vars[ret] = val{typ: "lens", expr: rr} // the copy: the same list
		bs = append(bs, "("+rr+" : List Int)")
		stmts := append([]ast.Stmt{body[2]}, clauses[mk.kind]...)
		doc := what + ": the bounds computed for a `" + mk.kind + "` modifier (`" + rr + "`: the lengths of the elements)"
		if _, present := clauses[mk.kind]; !present {
			doc += " — NO clause in the type switch: the initial bounds"
		}
		g.def("resizeBounds"+mk.kind, doc, bs, e, stmts, boundsK, "Int × Int")
		pat := make([]string, len(args))
		for i := range args {
			pat[i] = fmt.Sprintf("a%d_", i)
		}
		arms = append(arms, fmt.Sprintf("  | .%s %s => resizeBounds%s %s %s", mk.ctor, strings.Join(pat, " "), mk.kind, strings.Join(pat, " "), rr))
	}
	fmt.Fprintf(&g.out, "/-- %s: the type switch over the modifier kind -/\ndef resizeBounds (m : Gts.Mod) (%s : List Int) : Int × Int :=\n  match m with\n%s\n\n",
		what, rr, strings.Join(arms, "\n"))

	// left, right := 0, 0 ; for …
	wi, ok := body[4].(*ast.AssignStmt)
	if !ok || wi.Tok != token.DEFINE || len(wi.Lhs) != 2 || identName(wi.Lhs[0]) == "" || identName(wi.Lhs[1]) == "" {
		refuse("%s: the fifth statement does not define the two indices", what)
	}
	left, right := identName(wi.Lhs[0]), identName(wi.Lhs[1])
	if _, ok := body[5].(*ast.ForStmt); !ok {
		refuse("%s: the sixth statement is not the walk loop", what)
	}
	{
		e := g.newEnv()
		e.declare(rr, val{typ: "lens", expr: rr})
		e.declare(lower, val{typ: "int", expr: lower})
		e.declare(upper, val{typ: "int", expr: upper})
		walkK := func(en *env) string {
			return tuple(stateExprs(en, []string{left, lower, right, upper}))
		}
		g.def("resizeWalk", what+": `"+left+", "+right+" := …` and the walk over the lengths of the elements; result ("+left+", "+lower+", "+right+", "+upper+")",
			[]string{"(" + rr + " : List Int)", "(" + lower + " " + upper + " : Int)"}, e, body[4:6], walkK, "Int × Int × Int × Int")
	}

	// switch Compare(left, right) { case 1: … case 0: … default: … }
	final := []string{}
	sw, ok := body[6].(*ast.SwitchStmt)
	if !ok || sw.Init != nil || sw.Tag == nil || exprString(sw.Tag) != "Compare("+left+", "+right+")" {
		refuse("%s: the last statement is not `switch Compare(%s, %s)`", what, left, right)
	}
	final = append(final, "switch Compare(left, right)")
	if len(sw.Body.List) != 3 {
		refuse("%s: final switch: expected three clauses", what)
	}
	retL, retR := ret+"["+left+"]", ret+"["+right+"]"
	for _, c := range sw.Body.List {
		cc := c.(*ast.CaseClause)
		var texts []string
		for _, s := range cc.Body {
			switch n := s.(type) {
			case *ast.ReturnStmt:
				if len(n.Results) != 1 {
					refuse("%s: final switch: return", what)
				}
				texts = append(texts, "return "+finalExpr(n.Results[0]))
			case *ast.AssignStmt:
				if n.Tok != token.ASSIGN || len(n.Lhs) != 1 || len(n.Rhs) != 1 {
					refuse("%s: final switch: assignment", what)
				}
				texts = append(texts, finalExpr(n.Lhs[0])+" = "+finalExpr(n.Rhs[0]))
			default:
				refuse("%s: final switch: statement %T", what, s)
			}
		}
		got := strings.Join(texts, "; ")
		switch {
		case len(cc.List) == 1 && exprString(cc.List[0]) == "1":
			if got != "return "+retL+".Resize(Head("+lower+"))" {
				refuse("%s: final switch: case 1 is `%s`", what, got)
			}
			final = append(final, "case 1: return ret[left].Resize(Head(lower))")
		case len(cc.List) == 1 && exprString(cc.List[0]) == "0":
			if got != "return "+retL+".Resize(HeadHead{"+lower+", "+upper+"})" {
				refuse("%s: final switch: case 0 is `%s`", what, got)
			}
			final = append(final, "case 0: return ret[left].Resize(HeadHead{lower, upper})")
		case cc.List == nil:
			want := retL + " = " + retL + ".Resize(HeadTail{" + lower + ", 0}); " + retR + " = " + retR + ".Resize(HeadHead{0, " + upper + "}); return " + ret + "[" + left + ":" + right + " + 1]"
			if got != want {
				refuse("%s: final switch: default is `%s`", what, got)
			}
			final = append(final, "default: ret[left] = ret[left].Resize(HeadTail{lower, 0}); ret[right] = ret[right].Resize(HeadHead{0, upper}); return ret[left : right+1]")
		default:
			refuse("%s: final switch: case %s", what, exprString(cc.List[0]))
		}
	}
	if len(final) != 4 || !strings.HasPrefix(final[1], "case 1") || !strings.HasPrefix(final[2], "case 0") {
		refuse("%s: final switch: clause order", what)
	}
	fmt.Fprintf(&g.out, "/-- %s: the statements around the generated parts, recognised one by one -/\ndef resizeFrame : List String := [%s]\n\n", what,
		quoteAll([]string{"ret := make(Regions, len(rr)); copy(ret, rr)", "resizeBounds", "resizeWalk", "final switch"}))
	fmt.Fprintf(&g.out, "/-- %s: the final switch, recognised arm by arm (names normalised) -/\ndef resizeFinal : List String := [%s]\n\n", what, quoteAll(final))
}

// finalExpr renders the expression forms of the final switch of Resize
func finalExpr(x ast.Expr) string {
	switch n := x.(type) {
	case *ast.CompositeLit:
		var parts []string
		for _, el := range n.Elts {
			parts = append(parts, finalExpr(el))
		}
		return exprString(n.Type) + "{" + strings.Join(parts, ", ") + "}"
	case *ast.CallExpr:
		var parts []string
		for _, a := range n.Args {
			parts = append(parts, finalExpr(a))
		}
		return finalExpr(n.Fun) + "(" + strings.Join(parts, ", ") + ")"
	case *ast.SelectorExpr:
		return finalExpr(n.X) + "." + n.Sel.Name
	case *ast.IndexExpr:
		return finalExpr(n.X) + "[" + finalExpr(n.Index) + "]"
	case *ast.SliceExpr:
		lo, hi := "", ""
		if n.Low != nil {
			lo = finalExpr(n.Low)
		}
		if n.High != nil {
			hi = finalExpr(n.High)
		}
		if n.Slice3 {
			return "<3-index slice>"
		}
		return finalExpr(n.X) + "[" + lo + ":" + hi + "]"
	}
	return exprString(x)
}
