package main

// Generator for props.go (DESIGN.md 4.1a): every function of the file, statement by statement, through the typed
// translator of gfeat.go (`ftranslate`, prelude Gts/Gen/GoList.lean) — Gts/Gen/Props.lean (C01, C19).
//
//   - `string` is an ABSTRACT type `σ_` with decidable equality (props.go only compares and copies strings; the
//     model has the table once over `String` — Gts/Model/Feature.lean — and once over byte strings —
//     Gts/Model/InsdcParse.lean, GenBank.lean: the bridges instantiate `σ_` with both), the zero string that
//     `make([]string, n)` fills in is a PARAMETER `zeroStr_` (the bridges hold for every value: every cell is
//     overwritten), `Props` / `[][]string` is `List (List σ_)` (a nil row `[]`), `[]string` / `...string` is
//     `List σ_` (`nil` is `[]`), `Item` is `σ_ × σ_` (`Item{a, b}` positional).
//   - a method is a function of its receiver; `props.M(args)` is `propsM props args`.
//   - the POINTER-receiver methods `Set`, `Add`, `Del` are functions that RETURN the new value of `*props`
//     (`*props` and `(*props)[i]` are read as the value, the end of the body and every bare `return` as
//     `return props`, `props.Set(key, values...)` inside `Add` as `props = Set(props, key, values)`); the value is
//     OWNED by the function, so `append` to it / to one of its rows and stores into it are list operations.
//     Whether the caller's old slice header or another `Props` sharing the rows sees the write — aliasing and
//     capacity — is C11's subject and is modelled separately (Gts/Model/Mem.lean), not here.  Any other use of
//     the pointer (`q := props`, `p := *props` followed by a store, …) is refused.
//   - `if init; cond {…}` is `init; if cond {…}` (names are never shadowed: a second declaration is refused).
//   - `props[i][0]` on an empty row is `none` — the Go PANIC — as everywhere in GoList.
//
// The file must consist of exactly `type Props [][]string`, `type Item struct{Key, Value string}` and the nine
// methods; anything else is refused.

import (
	"fmt"
	"go/ast"
	"go/parser"
	"go/token"
	"path/filepath"
	"strings"
)

// hooks of gfeat.go that only this generator fills
var fTypExt = map[string]string{}
var fNilExt = map[string]string{}
var fLitExt func(c *fctx, n *ast.CompositeLit, pre *[]fbind) (fval, bool)

// propsPrelude: the checked slice operations of Gts/Gen/GoList.lean that props.go needs, word for word, in a namespace of
// their own — GoList and SeqPrelude define the same names in `Gts.Gen` and cannot be imported together, and the bridges of
// props.go are obligations of properties on both sides (C19: GoList, C01: SeqPrelude).  Core Lean only.
const propsPrelude = `namespace Gts.Gen.PropsGo

/-- how a loop whose body can ` + "`return`" + ` ends: ` + "`.next st`" + ` the loop is over (state ` + "`st`" + `), ` + "`.ret v`" + ` the function returned ` + "`v`" + ` -/
inductive Flow (σ ρ : Type) where
  | next (s : σ)
  | ret (r : ρ)

/-- ` + "`p[i]`" + ` -/
def goIdx {α : Type} (p : List α) (i : Int) : Option α :=
  if i < 0 then none else p[i.toNat]?

/-- ` + "`p[a:]`" + ` -/
def goFrom {α : Type} (p : List α) (a : Int) : Option (List α) :=
  if 0 ≤ a ∧ a ≤ (p.length : Int) then some (p.drop a.toNat) else none

/-- ` + "`p[:b]`" + ` -/
def goTo {α : Type} (p : List α) (b : Int) : Option (List α) :=
  if 0 ≤ b ∧ b ≤ (p.length : Int) then some (p.take b.toNat) else none

/-- ` + "`p[i] = x`" + ` -/
def goSet {α : Type} (p : List α) (i : Int) (x : α) : Option (List α) :=
  if 0 ≤ i ∧ i < (p.length : Int) then some (p.set i.toNat x) else none

/-- ` + "`copy(q, src)`" + `: the new ` + "`q`" + ` (the first ` + "`min(len(q), len(src))`" + ` cells are overwritten) -/
def goCopy {α : Type} (q src : List α) : List α :=
  src.take q.length ++ q.drop src.length

/-- ` + "`copy(q[off:], src)`" + `: the new ` + "`q`" + ` (` + "`q[off:]`" + ` can panic) -/
def goCopyAt {α : Type} (q : List α) (off : Int) (src : List α) : Option (List α) :=
  if 0 ≤ off ∧ off ≤ (q.length : Int) then some (q.take off.toNat ++ goCopy (q.drop off.toNat) src) else none

/-- ` + "`make([]T, n)`" + ` with ` + "`z`" + ` the zero value of ` + "`T`" + ` -/
def goMake {α : Type} (z : α) (n : Int) : Option (List α) :=
  if n < 0 then none else some (List.replicate n.toNat z)

end Gts.Gen.PropsGo

`

type propsMethod struct {
	name, lean string
	ptr        bool
}

var propsMethods = []propsMethod{
	{"Index", "propsIndex", false}, {"Has", "propsHas", false}, {"Keys", "propsKeys", false}, {"Items", "propsItems", false},
	{"Get", "propsGet", false}, {"Set", "propsSet", true}, {"Add", "propsAdd", true}, {"Del", "propsDel", true}, {"Clone", "propsClone", false},
}

type propsRw struct {
	recv   string
	ptr    bool
	ptrOf  map[string]bool // method name → pointer receiver
	varIdx map[string]bool // variadic methods
}

func (r *propsRw) isDeref(x ast.Expr) bool {
	if p, ok := x.(*ast.ParenExpr); ok {
		return r.isDeref(p.X)
	}
	st, ok := x.(*ast.StarExpr)
	return ok && r.ptr && identName(st.X) == r.recv
}

// methodCall: `recv.M(args)` → `M(recv, args)`
func (r *propsRw) methodCall(n *ast.CallExpr) (*ast.CallExpr, string, bool) {
	sel, ok := n.Fun.(*ast.SelectorExpr)
	if !ok || identName(sel.X) != r.recv {
		return nil, "", false
	}
	m := sel.Sel.Name
	if _, known := r.ptrOf[m]; !known {
		refuse("call of the unknown method %s.%s", r.recv, m)
	}
	if n.Ellipsis.IsValid() != r.varIdx[m] {
		refuse("%s.%s: a variadic method is called with `slice...` only (and no other method is)", r.recv, m)
	}
	args := []ast.Expr{ast.NewIdent(r.recv)}
	for _, a := range n.Args {
		args = append(args, r.expr(a))
	}
	return &ast.CallExpr{Fun: ast.NewIdent(m), Args: args}, m, true
}

func (r *propsRw) expr(x ast.Expr) ast.Expr {
	if x == nil {
		return nil
	}
	if r.isDeref(x) {
		return ast.NewIdent(r.recv)
	}
	switch n := x.(type) {
	case *ast.Ident:
		if r.ptr && n.Name == r.recv {
			refuse("the pointer receiver %s is used other than as *%s or %s.Method(…)", r.recv, r.recv, r.recv)
		}
		return n
	case *ast.BasicLit:
		return n
	case *ast.ParenExpr:
		return &ast.ParenExpr{X: r.expr(n.X)}
	case *ast.UnaryExpr:
		if n.Op == token.AND {
			refuse("address-of")
		}
		return &ast.UnaryExpr{Op: n.Op, X: r.expr(n.X)}
	case *ast.BinaryExpr:
		return &ast.BinaryExpr{X: r.expr(n.X), Op: n.Op, Y: r.expr(n.Y)}
	case *ast.IndexExpr:
		return &ast.IndexExpr{X: r.expr(n.X), Index: r.expr(n.Index)}
	case *ast.SliceExpr:
		return &ast.SliceExpr{X: r.expr(n.X), Low: r.expr(n.Low), High: r.expr(n.High), Max: r.expr(n.Max), Slice3: n.Slice3}
	case *ast.CompositeLit:
		out := &ast.CompositeLit{Type: n.Type}
		for _, e := range n.Elts {
			out.Elts = append(out.Elts, r.expr(e))
		}
		return out
	case *ast.CallExpr:
		if call, m, ok := r.methodCall(n); ok {
			if r.ptrOf[m] {
				refuse("%s.%s (pointer receiver) is called inside an expression", r.recv, m)
			}
			return call
		}
		out := &ast.CallExpr{Fun: n.Fun, Ellipsis: n.Ellipsis}
		if _, plain := n.Fun.(*ast.Ident); !plain {
			refuse("call of %s", exprString(n.Fun))
		}
		for i, a := range n.Args {
			if i == 0 && identName(n.Fun) == "make" {
				out.Args = append(out.Args, a) // a type
				continue
			}
			out.Args = append(out.Args, r.expr(a))
		}
		return out
	}
	refuse("expression %T", x)
	return nil
}

func (r *propsRw) exprs(xs []ast.Expr) []ast.Expr {
	out := make([]ast.Expr, len(xs))
	for i, x := range xs {
		out[i] = r.expr(x)
	}
	return out
}

func (r *propsRw) block(b *ast.BlockStmt) *ast.BlockStmt {
	if b == nil {
		return nil
	}
	return &ast.BlockStmt{List: r.stmts(b.List)}
}

func (r *propsRw) stmts(list []ast.Stmt) []ast.Stmt {
	var out []ast.Stmt
	for _, s := range list {
		out = append(out, r.stmt(s)...)
	}
	return out
}

func (r *propsRw) stmt(s ast.Stmt) []ast.Stmt {
	switch n := s.(type) {
	case *ast.AssignStmt:
		return []ast.Stmt{&ast.AssignStmt{Lhs: r.exprs(n.Lhs), Tok: n.Tok, Rhs: r.exprs(n.Rhs)}}
	case *ast.IncDecStmt:
		return []ast.Stmt{&ast.IncDecStmt{X: r.expr(n.X), Tok: n.Tok}}
	case *ast.ExprStmt:
		if call, ok := n.X.(*ast.CallExpr); ok {
			if mc, m, ok := r.methodCall(call); ok && r.ptrOf[m] {
				if !r.ptr {
					refuse("%s.%s (pointer receiver) is called on a value receiver", r.recv, m)
				}
				// props.Set(key, values...) passes the pointer on: props = Set(props, key, values)
				return []ast.Stmt{&ast.AssignStmt{Lhs: []ast.Expr{ast.NewIdent(r.recv)}, Tok: token.ASSIGN, Rhs: []ast.Expr{mc}}}
			}
		}
		return []ast.Stmt{&ast.ExprStmt{X: r.expr(n.X)}}
	case *ast.ReturnStmt:
		if r.ptr {
			if len(n.Results) != 0 {
				refuse("a method without result returns a value")
			}
			return []ast.Stmt{&ast.ReturnStmt{Results: []ast.Expr{ast.NewIdent(r.recv)}}}
		}
		return []ast.Stmt{&ast.ReturnStmt{Results: r.exprs(n.Results)}}
	case *ast.IfStmt:
		var out []ast.Stmt
		if n.Init != nil {
			out = append(out, r.stmt(n.Init)...)
		}
		is := &ast.IfStmt{Cond: r.expr(n.Cond), Body: r.block(n.Body)}
		switch e := n.Else.(type) {
		case nil:
		case *ast.BlockStmt:
			is.Else = r.block(e)
		case *ast.IfStmt:
			is.Else = &ast.BlockStmt{List: r.stmt(e)}
		default:
			refuse("else %T", e)
		}
		return append(out, is)
	case *ast.SwitchStmt:
		sw := &ast.SwitchStmt{Tag: r.expr(n.Tag), Body: &ast.BlockStmt{}}
		if n.Init != nil {
			in := r.stmt(n.Init)
			if len(in) != 1 {
				refuse("switch: init statement")
			}
			sw.Init = in[0]
		}
		for _, cl := range n.Body.List {
			cc, ok := cl.(*ast.CaseClause)
			if !ok {
				refuse("switch clause %T", cl)
			}
			nc := &ast.CaseClause{Body: r.stmts(cc.Body)}
			if cc.List != nil {
				nc.List = r.exprs(cc.List)
			}
			sw.Body.List = append(sw.Body.List, nc)
		}
		return []ast.Stmt{sw}
	case *ast.RangeStmt:
		return []ast.Stmt{&ast.RangeStmt{Key: r.expr(n.Key), Value: r.expr(n.Value), Tok: n.Tok, X: r.expr(n.X), Body: r.block(n.Body)}}
	case *ast.ForStmt:
		fs := &ast.ForStmt{Cond: r.expr(n.Cond), Body: r.block(n.Body)}
		if n.Init != nil {
			in := r.stmt(n.Init)
			if len(in) != 1 {
				refuse("for: init statement")
			}
			fs.Init = in[0]
		}
		if n.Post != nil {
			po := r.stmt(n.Post)
			if len(po) != 1 {
				refuse("for: post statement")
			}
			fs.Post = po[0]
		}
		return []ast.Stmt{fs}
	}
	refuse("statement %T", s)
	return nil
}

func genProps(repo string) (text string, err error) {
	defer recoverRefusal(&err)
	af, perr := parser.ParseFile(token.NewFileSet(), filepath.Join(repo, "props.go"), nil, 0)
	if perr != nil {
		refuse("%v", perr)
	}
	if got := ftypeOfDecl(af, "Props"); got != "[][]string" {
		refuse("props.go: type Props is %q", got)
	}
	if got := structText(af, "Item"); got != "Key string; Value string" {
		refuse("props.go: struct Item is %q", got)
	}
	// the inventory of the file
	rw := &propsRw{ptrOf: map[string]bool{}, varIdx: map[string]bool{}}
	want := map[string]propsMethod{}
	for _, m := range propsMethods {
		want[m.name] = m
	}
	decls := map[string]*ast.FuncDecl{}
	for _, d := range af.Decls {
		switch n := d.(type) {
		case *ast.GenDecl:
			if n.Tok != token.TYPE {
				refuse("props.go: a %s declaration", n.Tok)
			}
			for _, s := range n.Specs {
				if nm := s.(*ast.TypeSpec).Name.Name; nm != "Props" && nm != "Item" {
					refuse("props.go: type %s", nm)
				}
			}
		case *ast.FuncDecl:
			m, ok := want[n.Name.Name]
			if !ok || n.Recv == nil || len(n.Recv.List) != 1 || len(n.Recv.List[0].Names) != 1 || n.Body == nil || decls[m.name] != nil {
				refuse("props.go: function %s is not one of the nine methods of Props", n.Name.Name)
			}
			rt := n.Recv.List[0].Type
			st, ptr := rt.(*ast.StarExpr)
			if ptr {
				rt = st.X
			}
			if identName(rt) != "Props" || ptr != m.ptr {
				refuse("props.go: receiver of %s is %s", m.name, exprString(n.Recv.List[0].Type))
			}
			decls[m.name] = n
			rw.ptrOf[m.name] = ptr
			ps := n.Type.Params.List
			if len(ps) > 0 {
				_, rw.varIdx[m.name] = ps[len(ps)-1].Type.(*ast.Ellipsis)
			}
		default:
			refuse("props.go: declaration %T", d)
		}
	}
	// how the types are read (restored afterwards: the maps are shared with the feature.go generators)
	saved := map[string]string{"str": fLeanType["str"], "props": fLeanType["props"]}
	nSpecials := len(fSpecials)
	defer func() {
		fLeanType["str"], fLeanType["props"] = saved["str"], saved["props"]
		for _, k := range []string{"strs", "item", "items"} {
			delete(fLeanType, k)
			delete(fElem, k)
			delete(fZero, k)
			delete(fSliceTyps, k)
			delete(fNilExt, k)
		}
		delete(fElem, "props")
		delete(fZero, "props")
		delete(fNilExt, "props")
		for k := range fTypExt {
			delete(fTypExt, k)
		}
		fSpecials = fSpecials[:nSpecials]
		fLitExt = nil
	}()
	fLeanType["str"], fLeanType["props"] = "σ_", "List (List σ_)"
	fLeanType["strs"], fLeanType["item"], fLeanType["items"] = "List σ_", "σ_ × σ_", "List (σ_ × σ_)"
	fElem["props"], fElem["strs"], fElem["items"] = "strs", "str", "item"
	fZero["strs"], fZero["props"], fZero["items"] = "zeroStr_", "([] : List σ_)", "(zeroStr_, zeroStr_)"
	fSliceTyps["strs"], fSliceTyps["items"] = true, true
	fNilExt["strs"], fNilExt["props"], fNilExt["items"] = "([] : List σ_)", "([] : List (List σ_))", "([] : List (σ_ × σ_))"
	for k, v := range map[string]string{"[]string": "strs", "...string": "strs", "[][]string": "props", "Item": "item", "[]Item": "items"} {
		fTypExt[k] = v
	}
	fSpecials = append(fSpecials[:nSpecials:nSpecials],
		fspecial{"σ_", "{σ_ : Type} [DecidableEq σ_]", "the type of a Go `string` (abstract: compared and copied only)"},
		fspecial{"zeroStr_", "(zeroStr_ : σ_)", "the zero string `make([]string, n)` fills in"})
	fLitExt = func(c *fctx, n *ast.CompositeLit, pre *[]fbind) (fval, bool) {
		if ftypeText(n.Type) != "Item" {
			return fval{}, false
		}
		if len(n.Elts) != 2 {
			refuse("Item literal")
		}
		var parts []string
		for _, e := range n.Elts {
			if _, kv := e.(*ast.KeyValueExpr); kv {
				refuse("keyed composite literal")
			}
			parts = append(parts, c.conv(c.expr(e, pre), "str"))
		}
		return fval{typ: "item", expr: "(" + strings.Join(parts, ", ") + ")"}, true
	}

	b := strings.Builder{}
	b.WriteString("/-\n  GENERATED by go2lean (gprops.go; translator gfeat.go) from props.go — do not edit.\n" +
		"  Every function of props.go, statement by statement.  `string` is the abstract type `σ_`, `Props` is `List (List σ_)`,\n" +
		"  `none` is the Go panic (`props[i][0]` on an empty row).  The pointer-receiver methods `Set` / `Add` / `Del` RETURN the new\n" +
		"  value of `*props` (aliasing and capacity are C11's subject: Gts/Model/Mem.lean).\n" +
		"  (how the Go is read: the header comments of go2lean/gprops.go and go2lean/gfeat.go)\n-/\n" +
		propsPrelude + "namespace Gts.Gen\nopen Gts.Gen.PropsGo\nset_option linter.unusedVariables false\n\n")
	known := map[string]fcallee{}
	for _, m := range propsMethods {
		fd := decls[m.name]
		if fd == nil {
			refuse("props.go: method %s not found", m.name)
		}
		recv := fd.Recv.List[0].Names[0].Name
		rw.recv, rw.ptr = recv, m.ptr
		for _, p := range fd.Type.Params.List {
			for _, nm := range p.Names {
				if nm.Name == recv {
					refuse("%s: parameter named like the receiver", m.name)
				}
			}
		}
		body := rw.stmts(fd.Body.List)
		nd := &ast.FuncDecl{Name: fd.Name, Recv: &ast.FieldList{List: []*ast.Field{{Names: fd.Recv.List[0].Names, Type: ast.NewIdent("Props")}}},
			Type: &ast.FuncType{Params: fd.Type.Params, Results: fd.Type.Results}}
		if m.ptr {
			if fd.Type.Results != nil && len(fd.Type.Results.List) != 0 {
				refuse("%s: a pointer-receiver method with a result", m.name)
			}
			nd.Type.Results = &ast.FieldList{List: []*ast.Field{{Type: ast.NewIdent("Props")}}}
			if len(body) == 0 || !returns(body) {
				body = append(body, &ast.ReturnStmt{Results: []ast.Expr{ast.NewIdent(recv)}})
			}
		}
		nd.Body = &ast.BlockStmt{List: body}
		what := fmt.Sprintf("props.go `Props.%s`", m.name)
		if m.ptr {
			what = fmt.Sprintf("props.go `(*Props).%s`: the new value of `*%s`", m.name, recv)
		}
		// the callees known so far (a method calls earlier ones only; a cycle is refused as an unknown call)
		kn := map[string]fcallee{}
		for k, v := range known {
			kn[k] = v
		}
		def, callee := ftranslate(nd, fcfg{lean: m.lean, what: what, effect: true, known: kn, ownRecv: m.ptr})
		known[m.name] = callee
		b.WriteString(def)
	}
	b.WriteString("end Gts.Gen\n")
	return b.String(), nil
}
