package main

// Generators for the remaining methods of the seven location kinds and two functions over them
// (location.go).  One generated module each, so that a refusal stays local:
//
//	Gts/Gen/LocLen.lean         Location.Len()        over the seven kinds              (C05, C08)
//	Gts/Gen/LocRegion.lean      Location.Region()     over the seven kinds              (C05, C08)
//	Gts/Gen/LocComplement.lean  Location.Complement() over the seven kinds              (C05)
//	Gts/Gen/LocComplete.lean    asComplete                                              (C03)
//	Gts/Gen/LocStrand.lean      CheckStrand / checkStrand and the Strand constants      (C19)
//
// How the Go is read:
//
//   - `Len` / `Region` of Between, Point, Ranged, Ambiguous: the straight-line translator of
//     arith.go (`Segment{a, b}` is the pair `(a, b)`).
//   - `Len` / `Region` of Joined and Ordered: the loop machinery of region.go — the receiver is seen
//     as the list of the results of THE SAME METHOD on its elements (`loc.Len()` / `l.Region()` on the
//     interface Location is dynamic dispatch: the recursive call of the generated `locLen` /
//     `locRegion`); `range` loops become recursive helpers over that list, `make(Regions, n)` is
//     `List.replicate n default`, `rr[i] = …` is `List.set`.
//   - `Len` / `Region` of Complemented: `complement.Location.M()` is the result of M on the inner
//     location; `.Complement()` on a Region value is the generated `regComplement` of
//     Gts/Gen/RegionRec.lean (dynamic dispatch over Segment | Regions).
//   - `loc<M>` is the dispatch over the seven kinds (checked: each of them has the method) as a
//     structurally recursive function over `Gts.Loc`.
//   - `Complement`: each body must be a single `return` of `Complemented{recv}` (wrap), `recv`
//     (itself) or `recv.Location` (the inner location of a Complemented); the arm of `locComplement`
//     is generated from what is found.
//   - `asComplete`: the type switch `switch v := loc.(type)` is taken clause by clause.  `case Ranged`
//     is translated by the statement translator (`v.Partial = Complete` is a field assignment on the
//     copy `v`).  `case Joined` / `case Ordered` must be `for I, U := range v { v[<index>] =
//     asComplete(<U>) }; return v`: generated LITERALLY as a loop over a counter — Go fixes the number
//     of iterations when the loop starts and reads `v[I]` from the (already partly overwritten) slice
//     when iteration I starts: `U := v.getD I default; v := v.set <index> (self_ U)`.  The recursive
//     call goes through the parameter `self_`; `asComplete : Nat → Loc → Loc` ties the knot with
//     explicit fuel.  Slices are VALUES here: that the Go function overwrites the caller's array is
//     C11's subject (`asComplete_impure`), not represented.
//   - `Strand` constants: the block `StrandBoth Strand = iota; StrandForward; StrandReverse` is checked
//     and the identifiers are replaced by their values 0, 1, 2.  `checkStrand(ll)` is translated on the
//     list of the `CheckStrand` results of the elements (the only thing the loop reads); the tagged
//     `switch CheckStrand(l)` is evaluated once into `tag_`.  `CheckStrand`'s type switch is taken
//     clause by clause: `return checkStrand(v)` on a Joined / Ordered, or `return <constant>`.
//
// Anything else is refused.

import (
	"fmt"
	"go/ast"
	"go/parser"
	"go/token"
	"path/filepath"
	"strconv"
	"strings"
)

var kindCtor = map[string]struct{ pat, self string }{
	"Between":      {".between p", "(Gts.Loc.between p)"},
	"Point":        {".point p", "(Gts.Loc.point p)"},
	"Ranged":       {".ranged s e p5 p3", "(Gts.Loc.ranged s e p5 p3)"},
	"Ambiguous":    {".ambiguous s e", "(Gts.Loc.ambiguous s e)"},
	"Joined":       {".joined ls", "(Gts.Loc.joined ls)"},
	"Ordered":      {".ordered ls", "(Gts.Loc.ordered ls)"},
	"Complemented": {".compl l", "(Gts.Loc.compl l)"},
}

var kindArgs = map[string]string{"Between": "p", "Point": "p", "Ranged": "s e p5 p3", "Ambiguous": "s e"}

func parseLocation(repo string) (*ast.File, error) {
	fset := token.NewFileSet()
	return parser.ParseFile(fset, filepath.Join(repo, "location.go"), nil, 0)
}

func kindFns() map[string]arithFn {
	fns := map[string]arithFn{}
	for _, f := range arithFns {
		if f.group() == "" {
			fns[f.recv+"."+f.name] = f
		}
	}
	return fns
}

func lowerFirst(s string) string { return strings.ToLower(s[:1]) + s[1:] }

// straightMethod translates `func (recv K) M() T` of a contiguous kind K with the straight-line
// translator; res is the translator's result type (int | Segment)
func straightMethod(out *strings.Builder, af *ast.File, kind, method, res, rt string) string {
	fd := findMethod(af, kind, method)
	if fd == nil || fd.Body == nil {
		refuse("location.go: method %s.%s not found", kind, method)
	}
	normalise(fd)
	what := "location.go `" + kind + "." + method + "`"
	singleIntParam(fd, 0)
	rn := recvName(fd, what)
	lean := lowerFirst(kind) + method
	spec := arithFn{"location.go", kind, method, lean, false}
	e := &env{vars: map[string]val{}, fns: kindFns(), self: &spec, recvVar: rn, results: []string{res}}
	var params []string
	switch kind {
	case "Between", "Point":
		e.vars[rn] = val{typ: "int", expr: rn}
		params = append(params, fmt.Sprintf("(%s : Int)", rn))
	default:
		v := structVar(kind, rn)
		e.vars[rn] = v
		for _, l := range flat(v) {
			params = append(params, fmt.Sprintf("(%s : %s)", l.expr, map[string]string{"int": "Int", "bool": "Bool"}[l.typ]))
		}
	}
	body := func() (s string) {
		defer func() {
			if r := recover(); r != nil {
				if rf, ok := r.(refusal); ok {
					panic(refusal{what + ": " + rf.msg})
				}
				panic(r)
			}
		}()
		desugar(fd.Body.List)
		return e.block(fd.Body.List)
	}()
	fmt.Fprintf(out, "/-- %s -/\ndef %s %s : %s :=\n  %s\n\n", what, lean, strings.Join(params, " "), rt, body)
	return lean
}

// wantKindMethod: the seven kinds have the method, without parameters, with the given result type
func wantKindMethod(af *ast.File, method, goRes string) {
	for _, k := range locKinds {
		fd := findMethod(af, k, method)
		if fd == nil || fd.Body == nil {
			refuse("location.go: method %s.%s not found", k, method)
		}
		singleIntParam(fd, 0)
		wantResults(fd, k+"."+method, goRes)
	}
	wantKindDecls(af)
}

// wantKindDecls: the declarations of the seven kinds are the ones the model's `Loc` mirrors
func wantKindDecls(af *ast.File) {
	if got := structText(af, "Complemented"); got != "Location Location" {
		refuse("location.go: struct Complemented is %q", got)
	}
	for _, t := range [][2]string{{"Joined", "[]Location"}, {"Ordered", "[]Location"}, {"Between", "int"}, {"Point", "int"}} {
		if got := typeDeclText(af, t[0]); got != t[1] {
			refuse("location.go: type %s is %q, expected %s", t[0], got, t[1])
		}
	}
	if got := structText(af, "Ranged"); got != "Start int; End int; Partial Partial" {
		refuse("location.go: struct Ranged is %q", got)
	}
	if got := structText(af, "Ambiguous"); got != "Start int; End int" {
		refuse("location.go: struct Ambiguous is %q", got)
	}
	if got := structText(af, "Partial"); got != "Partial5 bool; Partial3 bool" {
		refuse("location.go: struct Partial is %q", got)
	}
}

func kindHeader(b *strings.Builder, what, imports string) {
	b.WriteString("/-\n  GENERATED by go2lean (lockind.go) from location.go — do not edit.\n  " + what + "\n  (how the Go is read: the header comment of go2lean/lockind.go)\n-/\n")
	b.WriteString(imports + "namespace Gts.Gen\nset_option linter.unusedVariables false\n\n")
}

// ---- Len ---------------------------------------------------------------------------------------

func genLocLen(repo string) (text string, err error) {
	defer recoverRefusal(&err)
	af, perr := parseLocation(repo)
	if perr != nil {
		return "", perr
	}
	wantKindMethod(af, "Len", "int")
	g := &rgen{fns: kindFns()}
	kindHeader(&g.out, "`Location.Len()` over the seven kinds: the contiguous kinds straight-line, `Joined` / `Ordered` on the\n  list of the lengths of the parts, the dispatch as a structurally recursive function over `Gts.Loc`.", "import Gts.Gen.Arith\n")
	for _, k := range []string{"Between", "Point", "Ranged", "Ambiguous"} {
		straightMethod(&g.out, af, k, "Len", "int", "Int")
	}
	for _, k := range []string{"Joined", "Ordered"} {
		fd := findMethod(af, k, "Len")
		normalise(fd)
		what := "location.go `" + k + ".Len`"
		rn := recvName(fd, what)
		e := g.newEnv()
		e.viewM, e.viewT, e.viewD = "Len", "Int", "0"
		e.results = []string{"int"}
		e.declare(rn, val{typ: "lens", expr: rn})
		g.def(lowerFirst(k)+"Len", what+" on the list of the lengths of the parts (`loc.Len()` on the interface Location is the element)",
			[]string{"(" + rn + " : List Int)"}, e, fd.Body.List, nil, "Int")
	}
	{
		fd := findMethod(af, "Complemented", "Len")
		normalise(fd)
		what := "location.go `Complemented.Len`"
		rn := recvName(fd, what)
		e := g.newEnv()
		e.viewM, e.viewT, e.viewD = "Len", "Int", "0"
		e.results = []string{"int"}
		inner := rn + "_Location"
		e.declare(rn, val{typ: "Complemented", fields: map[string]val{"Location": {typ: "elem", expr: inner}}})
		g.def("complementedLen", what+" on the length of the inner location (`"+rn+".Location.Len()` is dynamic dispatch)",
			[]string{"(" + inner + " : Int)"}, e, fd.Body.List, nil, "Int")
	}
	g.out.WriteString("mutual\n/-- location.go: `Location.Len()` — dynamic dispatch over the seven kinds -/\ndef locLen : Gts.Loc → Int\n")
	for _, k := range []string{"Between", "Point", "Ranged", "Ambiguous"} {
		fmt.Fprintf(&g.out, "  | %s => %sLen %s\n", kindCtor[k].pat, lowerFirst(k), kindArgs[k])
	}
	g.out.WriteString("  | .joined ls => joinedLen (locLenList ls)\n  | .ordered ls => orderedLen (locLenList ls)\n  | .compl l => complementedLen (locLen l)\n")
	g.out.WriteString("/-- element-wise `Len` (what the loop of `Joined.Len` / `Ordered.Len` sees) -/\ndef locLenList : List Gts.Loc → List Int\n  | [] => []\n  | l :: ls => locLen l :: locLenList ls\nend\n\n")
	g.out.WriteString("end Gts.Gen\n")
	return g.out.String(), nil
}

// ---- Region ------------------------------------------------------------------------------------

// regionCall: `.Complement()` on a Region value (the view's element type is Gts.Reg)
func regionCall(e *env, n *ast.CallExpr) (val, bool) {
	sel, ok := n.Fun.(*ast.SelectorExpr)
	if !ok || len(n.Args) != 0 || e.viewM != "Region" {
		return val{}, false
	}
	if sel.Sel.Name == "Complement" {
		// only below a call that yields a Region value (never on a Location: that is another method)
		if _, isCall := sel.X.(*ast.CallExpr); !isCall {
			return val{}, false
		}
		recv := e.expr(sel.X)
		if recv.typ != "elemval" {
			refuse("Complement() on a %s", recv.typ)
		}
		return val{typ: "elemval", expr: "(regComplement " + recv.expr + ")"}, true
	}
	return val{}, false
}

func genLocRegion(repo string) (text string, err error) {
	defer recoverRefusal(&err)
	af, perr := parseLocation(repo)
	if perr != nil {
		return "", perr
	}
	wantKindMethod(af, "Region", "Region")
	// the types the bodies mention are region.go's (checked there by region.go's own generator, on
	// which this module depends through Gts.Gen.RegionRec)
	g := &rgen{fns: kindFns()}
	kindHeader(&g.out, "`Location.Region()` over the seven kinds: the contiguous kinds as a pair (`Segment{a, b}`), `Joined` /\n  `Ordered` on the list of the regions of the parts, `Complemented` through `Region.Complement` of\n  Gts/Gen/RegionRec.lean; the dispatch as a structurally recursive function over `Gts.Loc`.",
		"import Gts.Gen.Arith\nimport Gts.Gen.RegionRec\n")
	for _, k := range []string{"Between", "Point", "Ranged", "Ambiguous"} {
		straightMethod(&g.out, af, k, "Region", "Segment", "Int × Int")
	}
	for _, k := range []string{"Joined", "Ordered"} {
		fd := findMethod(af, k, "Region")
		normalise(fd)
		what := "location.go `" + k + ".Region`"
		rn := recvName(fd, what)
		e := g.newEnv()
		e.viewM, e.viewT, e.viewD = "Region", "Gts.Reg", "default"
		e.callExt = regionCall
		e.results = []string{"lens"}
		e.declare(rn, val{typ: "lens", expr: rn})
		g.def(lowerFirst(k)+"Region", what+" on the list of the regions of the parts (`l.Region()` on the interface Location is the element); the result is the `Regions` value",
			[]string{"(" + rn + " : List Gts.Reg)"}, e, fd.Body.List, nil, "List Gts.Reg")
	}
	{
		fd := findMethod(af, "Complemented", "Region")
		normalise(fd)
		what := "location.go `Complemented.Region`"
		rn := recvName(fd, what)
		e := g.newEnv()
		e.viewM, e.viewT, e.viewD = "Region", "Gts.Reg", "default"
		e.callExt = regionCall
		inner := rn + "_Location"
		e.declare(rn, val{typ: "Complemented", fields: map[string]val{"Location": {typ: "elem", expr: inner}}})
		if len(fd.Body.List) != 1 {
			refuse("%s: expected a single return", what)
		}
		rs, ok := fd.Body.List[0].(*ast.ReturnStmt)
		if !ok || len(rs.Results) != 1 {
			refuse("%s: expected a single return", what)
		}
		v := func() (v val) {
			defer func() {
				if r := recover(); r != nil {
					if rf, ok := r.(refusal); ok {
						panic(refusal{what + ": " + rf.msg})
					}
					panic(r)
				}
			}()
			return e.expr(rs.Results[0])
		}()
		if v.typ != "elemval" {
			refuse("%s: returns a %s, expected a Region", what, v.typ)
		}
		fmt.Fprintf(&g.out, "/-- %s on the region of the inner location (`%s.Location.Region()` is dynamic dispatch; `.Complement()` on the\ninterface Region is `regComplement`) -/\ndef complementedRegion (%s : Gts.Reg) : Gts.Reg :=\n  %s\n\n", what, rn, inner, v.expr)
	}
	g.out.WriteString("mutual\n/-- location.go: `Location.Region()` — dynamic dispatch over the seven kinds -/\ndef locRegion : Gts.Loc → Gts.Reg\n")
	for _, k := range []string{"Between", "Point", "Ranged", "Ambiguous"} {
		call := fmt.Sprintf("(%sRegion %s)", lowerFirst(k), kindArgs[k])
		fmt.Fprintf(&g.out, "  | %s => .seg %s.1 %s.2\n", kindCtor[k].pat, call, call)
	}
	g.out.WriteString("  | .joined ls => .many (joinedRegion (locRegionList ls))\n  | .ordered ls => .many (orderedRegion (locRegionList ls))\n  | .compl l => complementedRegion (locRegion l)\n")
	g.out.WriteString("/-- element-wise `Region` (what the loop of `Joined.Region` / `Ordered.Region` sees) -/\ndef locRegionList : List Gts.Loc → List Gts.Reg\n  | [] => []\n  | l :: ls => locRegion l :: locRegionList ls\nend\n\n")
	g.out.WriteString("end Gts.Gen\n")
	return g.out.String(), nil
}

// ---- Complement --------------------------------------------------------------------------------

func genLocComplement(repo string) (text string, err error) {
	defer recoverRefusal(&err)
	af, perr := parseLocation(repo)
	if perr != nil {
		return "", perr
	}
	wantKindMethod(af, "Complement", "Location")
	b := strings.Builder{}
	kindHeader(&b, "`Location.Complement()` over the seven kinds: every body is a single `return` of `Complemented{recv}`,\n  `recv` or `recv.Location`; one arm per kind, generated from what the body is.", "import Gts.Model.Loc\n")
	b.WriteString("/-- location.go: `Location.Complement()` — dynamic dispatch over the seven kinds -/\ndef locComplement : Gts.Loc → Gts.Loc\n")
	for _, k := range locKinds {
		fd := findMethod(af, k, "Complement")
		what := k + ".Complement"
		rn := recvName(fd, what)
		if len(fd.Body.List) != 1 {
			refuse("%s: expected a single return", what)
		}
		rs, ok := fd.Body.List[0].(*ast.ReturnStmt)
		if !ok || len(rs.Results) != 1 {
			refuse("%s: expected a single return", what)
		}
		var arm, how string
		switch x := rs.Results[0].(type) {
		case *ast.CompositeLit:
			if identName(x.Type) != "Complemented" || len(x.Elts) != 1 || identName(x.Elts[0]) != rn {
				refuse("%s: returns %s, expected Complemented{%s}", what, exprString(x), rn)
			}
			arm, how = ".compl "+kindCtor[k].self, "Complemented{"+rn+"}"
		case *ast.Ident:
			if x.Name != rn {
				refuse("%s: returns %s", what, x.Name)
			}
			arm, how = kindCtor[k].self, rn
		case *ast.SelectorExpr:
			if k != "Complemented" || identName(x.X) != rn || x.Sel.Name != "Location" {
				refuse("%s: returns %s", what, exprString(x))
			}
			arm, how = "l", rn+".Location"
		default:
			refuse("%s: returns %T", what, rs.Results[0])
		}
		fmt.Fprintf(&b, "  | %s => %s  -- %s: `return %s`\n", kindCtor[k].pat, arm, k, how)
	}
	b.WriteString("\nend Gts.Gen\n")
	return b.String(), nil
}

// ---- asComplete --------------------------------------------------------------------------------

// typeSwitchClauses: the clauses of `switch V := X.(type)` by case type (one type per clause), and
// the default clause
func typeSwitchClauses(ts *ast.TypeSwitchStmt, what string) (order []string, clauses map[string][]ast.Stmt) {
	clauses = map[string][]ast.Stmt{}
	for _, cl := range ts.Body.List {
		cc := cl.(*ast.CaseClause)
		key := "default"
		if cc.List != nil {
			if len(cc.List) != 1 || identName(cc.List[0]) == "" {
				refuse("%s: a case with several types (the variable keeps the interface type)", what)
			}
			key = identName(cc.List[0])
		}
		if _, dup := clauses[key]; dup {
			refuse("%s: case %s twice", what, key)
		}
		clauses[key] = cc.Body
		order = append(order, key)
	}
	return
}

// clauseOf: the clause Go selects for a value of the given kind (source order; interface cases by
// method set)
func clauseOf(kind string, order []string, what string) string {
	for _, c := range order {
		switch c {
		case kind:
			return c
		case "locationSlice":
			if kind == "Joined" || kind == "Ordered" {
				return c
			}
		case "contiguousLocation":
			if kind == "Between" || kind == "Point" || kind == "Ranged" || kind == "Ambiguous" {
				return c
			}
		case "default", "Between", "Point", "Ranged", "Ambiguous", "Joined", "Ordered", "Complemented":
		default:
			refuse("%s: case %s", what, c)
		}
	}
	for _, c := range order {
		if c == "default" {
			return c
		}
	}
	return ""
}

func genLocComplete(repo string) (text string, err error) {
	defer recoverRefusal(&err)
	af, perr := parseLocation(repo)
	if perr != nil {
		return "", perr
	}
	wantKindDecls(af)
	fd := findFunc(af, "asComplete")
	if fd == nil || fd.Body == nil {
		refuse("location.go: asComplete not found")
	}
	normalise(fd)
	checkReserved(fd, "asComplete")
	what := "location.go `asComplete`"
	wantResults(fd, what, "Location")
	pl := fd.Type.Params.List
	if len(pl) != 1 || len(pl[0].Names) != 1 || identName(pl[0].Type) != "Location" {
		refuse("%s: expected one Location parameter", what)
	}
	loc := pl[0].Names[0].Name
	if len(fd.Body.List) != 1 {
		refuse("%s: body is not a single type switch", what)
	}
	ts, v, x := typeSwitchOf(fd.Body.List[0])
	if ts == nil || identName(x) != loc || v == "" || v == "_" || v == loc {
		refuse("%s: body is not `switch v := %s.(type)`", what, loc)
	}
	order, clauses := typeSwitchClauses(ts, what)
	for _, c := range order {
		if c == "locationSlice" || c == "contiguousLocation" {
			refuse("%s: case %s (interface cases are outside the subset here)", what, c)
		}
	}
	var loops, arms strings.Builder
	nloops := 0
	for _, k := range locKinds {
		cl := clauseOf(k, order, what)
		if cl == "" {
			refuse("%s: no clause for %s (the function would not return)", what, k)
		}
		body := clauses[cl]
		switch {
		case cl == "default":
			// v has the type of loc
			if len(body) != 1 || !(isReturnOf(body[0], v) || isReturnOf(body[0], loc)) {
				refuse("%s: default clause is not `return %s`", what, v)
			}
			fmt.Fprintf(&arms, "  | %s => %s  -- default: `return %s`\n", kindCtor[k].pat, kindCtor[k].self, v)
		case k == "Ranged" || k == "Ambiguous":
			e := &env{vars: map[string]val{}, fns: kindFns(), results: []string{"loc"}}
			sv := structVar(k, v)
			e.vars[v] = sv
			var ps []string
			for _, l := range flat(sv) {
				ps = append(ps, l.expr)
			}
			stmts := append([]ast.Stmt{}, body...)
			t := func() (s string) {
				defer func() {
					if r := recover(); r != nil {
						if rf, ok := r.(refusal); ok {
							panic(refusal{what + ", case " + k + ": " + rf.msg})
						}
						panic(r)
					}
				}()
				desugar(stmts)
				return e.block(stmts)
			}()
			fmt.Fprintf(&arms, "  | .%s %s =>  -- case %s\n    %s\n", strings.ToLower(k), strings.Join(ps, " "), k, indent(t, "  "))
		case k == "Joined" || k == "Ordered":
			// for I, U := range v { v[IDX] = asComplete(U) }; return v
			if len(body) != 2 || !isReturnOf(body[1], v) {
				refuse("%s, case %s: expected a loop and `return %s`", what, k, v)
			}
			rg, ok := body[0].(*ast.RangeStmt)
			if !ok || rg.Tok != token.DEFINE || identName(rg.X) != v || len(rg.Body.List) != 1 {
				refuse("%s, case %s: expected `for i, u := range %s { … }` with one statement", what, k, v)
			}
			idx, elem := identName(rg.Key), identName(rg.Value)
			if idx == "" || idx == "_" || elem == "" || elem == "_" || idx == elem || idx == v || elem == v {
				refuse("%s, case %s: range variables", what, k)
			}
			as, ok := rg.Body.List[0].(*ast.AssignStmt)
			if !ok || as.Tok != token.ASSIGN || len(as.Lhs) != 1 || len(as.Rhs) != 1 {
				refuse("%s, case %s: loop body is not one assignment", what, k)
			}
			ix, ok := as.Lhs[0].(*ast.IndexExpr)
			if !ok || identName(ix.X) != v {
				refuse("%s, case %s: the loop does not store into %s", what, k, v)
			}
			call, ok := as.Rhs[0].(*ast.CallExpr)
			if !ok || identName(call.Fun) != "asComplete" || len(call.Args) != 1 || identName(call.Args[0]) != elem {
				refuse("%s, case %s: the loop does not store `asComplete(%s)`", what, k, elem)
			}
			ie := &env{vars: map[string]val{idx: {typ: "int", expr: idx}}}
			iv := ie.expr(ix.Index)
			if iv.typ != "int" {
				refuse("%s, case %s: index type", what, k)
			}
			nloops++
			name := "asCompleteLoop"
			if nloops > 1 {
				name = fmt.Sprintf("asCompleteLoop%d", nloops)
			}
			fmt.Fprintf(&loops, "/-- %s, case %s: the loop `for %s, %s := range %s { %s[%s] = asComplete(%s) }` over a counter: the number\nof iterations is fixed when the loop starts, `%s` is read from the slice when iteration `%s` starts (a read or\nstore outside the slice would be a Go panic; here the default / no change) -/\n",
				what, k, idx, elem, v, v, strings.ReplaceAll(exprString(ix.Index), "-/", "- /"), elem, elem, idx)
			fmt.Fprintf(&loops, "def %s (self_ : Gts.Loc → Gts.Loc) : Nat → Int → List Gts.Loc → List Gts.Loc\n  | 0, %s, %s => %s\n  | todo_ + 1, %s, %s =>\n    let %s : Gts.Loc := %s.getD (Int.toNat %s) default;\n    let %s : List Gts.Loc := %s.set (Int.toNat %s) (self_ %s);\n    %s self_ todo_ (%s + 1) %s\n\n",
				name, idx, v, v, idx, v, elem, v, idx, v, v, iv.expr, elem, name, idx, v)
			fmt.Fprintf(&arms, "  | .%s %s => .%s (%s self_ %s.length 0 %s)  -- case %s\n", strings.ToLower(k), v, strings.ToLower(k), name, v, v, k)
		case k == "Complemented":
			// v.Location = asComplete(v.Location); return v   (v is a copy of the struct value: no
			// store is visible to the caller except through slices inside, which is C11's subject)
			if len(body) != 2 || !isReturnOf(body[1], v) {
				refuse("%s, case %s: expected one assignment and `return %s`", what, k, v)
			}
			as, ok := body[0].(*ast.AssignStmt)
			if !ok || as.Tok != token.ASSIGN || len(as.Lhs) != 1 || len(as.Rhs) != 1 {
				refuse("%s, case %s: first statement is not one assignment", what, k)
			}
			isField := func(e ast.Expr) bool {
				se, ok := e.(*ast.SelectorExpr)
				return ok && identName(se.X) == v && se.Sel.Name == "Location"
			}
			call, ok := as.Rhs[0].(*ast.CallExpr)
			if !isField(as.Lhs[0]) || !ok || identName(call.Fun) != "asComplete" || len(call.Args) != 1 || !isField(call.Args[0]) {
				refuse("%s, case %s: expected `%s.Location = asComplete(%s.Location)`", what, k, v, v)
			}
			fmt.Fprintf(&arms, "  | .compl l => .compl (self_ l)  -- case Complemented: `%s.Location = asComplete(%s.Location); return %s`\n", v, v, v)
		default:
			refuse("%s: case %s is outside the subset", what, k)
		}
	}
	for _, r := range []string{"todo_", "self_", "fuel"} {
		if v == r || loc == r {
			refuse("%s: the name %s is reserved by the generator", what, r)
		}
	}
	b := strings.Builder{}
	kindHeader(&b, "`asComplete`: the type switch clause by clause; the loops of the `Joined` / `Ordered` clauses literally\n  (counter, live reads); the recursive call through `self_`, the knot tied with explicit fuel.", "import Gts.Gen.Arith\n")
	b.WriteString(loops.String())
	fmt.Fprintf(&b, "/-- %s: the body, with `self_` for the function itself -/\ndef asCompleteBody (self_ : Gts.Loc → Gts.Loc) : Gts.Loc → Gts.Loc\n%s\n", what, arms.String())
	b.WriteString("/-- location.go `asComplete` (calls itself: fuel; out of fuel yields the argument) -/\ndef asComplete : Nat → Gts.Loc → Gts.Loc\n  | 0, loc_ => loc_\n  | fuel + 1, loc_ => asCompleteBody (asComplete fuel) loc_\n\n")
	b.WriteString("end Gts.Gen\n")
	return b.String(), nil
}

// ---- CheckStrand -------------------------------------------------------------------------------

// strandConsts checks `const ( StrandBoth Strand = iota; StrandForward; StrandReverse )` and returns
// the values
func strandConsts(af *ast.File) map[string]int {
	if got := typeDeclText(af, "Strand"); got != "int" {
		refuse("location.go: type Strand is %q, expected int", got)
	}
	for _, d := range af.Decls {
		gd, ok := d.(*ast.GenDecl)
		if !ok || gd.Tok != token.CONST || len(gd.Specs) == 0 {
			continue
		}
		first := gd.Specs[0].(*ast.ValueSpec)
		if identName(first.Type) != "Strand" {
			continue
		}
		out := map[string]int{}
		for i, s := range gd.Specs {
			vs := s.(*ast.ValueSpec)
			if len(vs.Names) != 1 {
				refuse("location.go: Strand constants: several names in one line")
			}
			if i == 0 {
				if len(vs.Values) != 1 || identName(vs.Values[0]) != "iota" {
					refuse("location.go: Strand constants: the first is not `= iota`")
				}
			} else if vs.Type != nil || len(vs.Values) != 0 {
				refuse("location.go: Strand constants: %s is not an implicit repetition of iota", vs.Names[0].Name)
			}
			out[vs.Names[0].Name] = i
		}
		return out
	}
	refuse("location.go: the Strand constant block was not found")
	return nil
}

// substConsts replaces the identifiers of constants by integer literals (in place)
func substConsts(n ast.Node, consts map[string]int) {
	ast.Inspect(n, func(x ast.Node) bool {
		switch p := x.(type) {
		case *ast.ReturnStmt:
			for i, r := range p.Results {
				if v, ok := consts[identName(r)]; ok {
					p.Results[i] = &ast.BasicLit{Kind: token.INT, Value: strconv.Itoa(v)}
				}
			}
		case *ast.CaseClause:
			for i, r := range p.List {
				if v, ok := consts[identName(r)]; ok {
					p.List[i] = &ast.BasicLit{Kind: token.INT, Value: strconv.Itoa(v)}
				}
			}
		case *ast.BinaryExpr:
			if v, ok := consts[identName(p.X)]; ok {
				p.X = &ast.BasicLit{Kind: token.INT, Value: strconv.Itoa(v)}
			}
			if v, ok := consts[identName(p.Y)]; ok {
				p.Y = &ast.BasicLit{Kind: token.INT, Value: strconv.Itoa(v)}
			}
		case *ast.AssignStmt:
			for i, r := range p.Rhs {
				if v, ok := consts[identName(r)]; ok {
					p.Rhs[i] = &ast.BasicLit{Kind: token.INT, Value: strconv.Itoa(v)}
				}
			}
		}
		return true
	})
}

// hoistSwitchTags rewrites `switch CALL { … }` into `tag_ := CALL; switch tag_ { … }` (the tag is
// evaluated once), in statement lists below n
func hoistSwitchTags(list []ast.Stmt) []ast.Stmt {
	var out []ast.Stmt
	for _, s := range list {
		switch n := s.(type) {
		case *ast.SwitchStmt:
			for _, c := range n.Body.List {
				cc := c.(*ast.CaseClause)
				cc.Body = hoistSwitchTags(cc.Body)
			}
			if call, ok := n.Tag.(*ast.CallExpr); ok && n.Init == nil {
				out = append(out, &ast.AssignStmt{Lhs: []ast.Expr{ast.NewIdent("tag_")}, Tok: token.DEFINE, Rhs: []ast.Expr{call}})
				n.Tag = ast.NewIdent("tag_")
			}
		case *ast.RangeStmt:
			n.Body.List = hoistSwitchTags(n.Body.List)
		case *ast.ForStmt:
			n.Body.List = hoistSwitchTags(n.Body.List)
		case *ast.IfStmt:
			n.Body.List = hoistSwitchTags(n.Body.List)
			if b, ok := n.Else.(*ast.BlockStmt); ok {
				b.List = hoistSwitchTags(b.List)
			}
		}
		out = append(out, s)
	}
	return out
}

// desugarLoops: `desugar` (tagged switch -> if chain) inside loop bodies, which arith.go's desugar does
// not enter
func desugarLoops(list []ast.Stmt) {
	for _, s := range list {
		switch n := s.(type) {
		case *ast.RangeStmt:
			desugar(n.Body.List)
			desugarLoops(n.Body.List)
		case *ast.ForStmt:
			desugar(n.Body.List)
			desugarLoops(n.Body.List)
		}
	}
}

func genLocStrand(repo string) (text string, err error) {
	defer recoverRefusal(&err)
	af, perr := parseLocation(repo)
	if perr != nil {
		return "", perr
	}
	wantKindDecls(af)
	consts := strandConsts(af)
	for _, c := range []string{"StrandBoth", "StrandForward", "StrandReverse"} {
		if _, ok := consts[c]; !ok || len(consts) != 3 {
			refuse("location.go: the Strand constants are %v", consts)
		}
	}
	g := &rgen{fns: kindFns()}
	kindHeader(&g.out, "`CheckStrand` / `checkStrand` and the `Strand` constants: `checkStrand` on the list of the `CheckStrand`\n  results of the elements, `CheckStrand` as a structurally recursive function over `Gts.Loc`.", "import Gts.Gen.Arith\n")
	for _, c := range []string{"StrandBoth", "StrandForward", "StrandReverse"} {
		fmt.Fprintf(&g.out, "/-- location.go: `%s` (position %d of the `iota` block) -/\ndef %s : Int := %d\n\n", c, consts[c], lowerFirst(c), consts[c])
	}
	// ---- checkStrand(ll []Location) Strand ----
	{
		fd := findFunc(af, "checkStrand")
		if fd == nil || fd.Body == nil {
			refuse("location.go: checkStrand not found")
		}
		normalise(fd)
		what := "location.go `checkStrand`"
		wantResults(fd, what, "Strand")
		pl := fd.Type.Params.List
		if len(pl) != 1 || len(pl[0].Names) != 1 {
			refuse("%s: expected one parameter", what)
		}
		if at, ok := pl[0].Type.(*ast.ArrayType); !ok || at.Len != nil || identName(at.Elt) != "Location" {
			refuse("%s: expected a []Location parameter", what)
		}
		ll := pl[0].Names[0].Name
		ast.Inspect(fd, func(x ast.Node) bool {
			if id, ok := x.(*ast.Ident); ok && id.Name == "tag_" {
				refuse("%s: the identifier tag_ is reserved by the generator", what)
			}
			return true
		})
		substConsts(fd.Body, consts)
		fd.Body.List = hoistSwitchTags(fd.Body.List)
		desugarLoops(fd.Body.List)
		e := g.newEnv()
		e.viewM, e.viewT, e.viewD = "CheckStrand", "Int", "0"
		e.results = []string{"int"}
		e.callExt = func(e *env, n *ast.CallExpr) (val, bool) {
			if identName(n.Fun) == "CheckStrand" && len(n.Args) == 1 {
				a := e.expr(n.Args[0])
				if a.typ != "elem" {
					refuse("CheckStrand called on a %s", a.typ)
				}
				return val{typ: "int", expr: a.expr}, true
			}
			return val{}, false
		}
		e.declare(ll, val{typ: "lens", expr: ll})
		g.def("checkStrandOfList", what+" on the list of the `CheckStrand` results of the elements (all the loop reads of them)",
			[]string{"(" + ll + " : List Int)"}, e, fd.Body.List, nil, "Int")
	}
	// ---- CheckStrand(loc Location) Strand ----
	{
		fd := findFunc(af, "CheckStrand")
		if fd == nil || fd.Body == nil {
			refuse("location.go: CheckStrand not found")
		}
		what := "location.go `CheckStrand`"
		wantResults(fd, what, "Strand")
		pl := fd.Type.Params.List
		if len(pl) != 1 || len(pl[0].Names) != 1 || identName(pl[0].Type) != "Location" {
			refuse("%s: expected one Location parameter", what)
		}
		loc := pl[0].Names[0].Name
		if len(fd.Body.List) != 1 {
			refuse("%s: body is not a single type switch", what)
		}
		ts, v, x := typeSwitchOf(fd.Body.List[0])
		if ts == nil || identName(x) != loc {
			refuse("%s: body is not `switch v := %s.(type)`", what, loc)
		}
		order, clauses := typeSwitchClauses(ts, what)
		g.out.WriteString("mutual\n/-- location.go: `CheckStrand` — the type switch, clause by clause -/\ndef locCheckStrand : Gts.Loc → Int\n")
		for _, k := range locKinds {
			cl := clauseOf(k, order, what)
			if cl == "" {
				refuse("%s: no clause for %s (the function would not return)", what, k)
			}
			body := clauses[cl]
			if len(body) != 1 {
				refuse("%s, case %s: expected a single return", what, cl)
			}
			rs, ok := body[0].(*ast.ReturnStmt)
			if !ok || len(rs.Results) != 1 {
				refuse("%s, case %s: expected a single return", what, cl)
			}
			var arm string
			if c, isConst := consts[identName(rs.Results[0])]; isConst {
				arm = fmt.Sprintf("%d  -- %s", c, identName(rs.Results[0]))
			} else if call, isCall := rs.Results[0].(*ast.CallExpr); isCall && identName(call.Fun) == "checkStrand" &&
				len(call.Args) == 1 && identName(call.Args[0]) == v && v != "_" && (cl == "Joined" || cl == "Ordered") && !call.Ellipsis.IsValid() {
				arm = "checkStrandOfList (locCheckStrandList ls)  -- checkStrand(" + v + ")"
			} else {
				refuse("%s, case %s: returns %s", what, cl, exprString(rs.Results[0]))
			}
			fmt.Fprintf(&g.out, "  | %s => %s\n", kindCtor[k].pat, arm)
		}
		g.out.WriteString("/-- element-wise `CheckStrand` (what the loop of `checkStrand` sees) -/\ndef locCheckStrandList : List Gts.Loc → List Int\n  | [] => []\n  | l :: ls => locCheckStrand l :: locCheckStrandList ls\nend\n\n")
	}
	g.out.WriteString("end Gts.Gen\n")
	return g.out.String(), nil
}
