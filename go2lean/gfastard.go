package main

// gfastard.go — the mapping closure of the FASTA READER as a generated FUNCTION
// (Gts/Gen/FastaRead.lean; bridge Gts/Bridge/FastaRead.lean, obligations of C17).
//
//	var FastaParser = pars.Seq(A0, A1, A2).Map(func(R *pars.Result) error {
//		D := string(R.Children[k1].Token)
//		B := R.Children[k2].Token
//		L := bytes.Split(B, []byte{c})
//		for I := range L { L[I] = bytes.TrimSuffix(L[I], []byte{…}) }
//		X := bytes.Join(L, nil | []byte{…})
//		R.SetValue(Fasta{D, X})
//		return nil
//	})
//
// The closure is checked STATEMENT BY STATEMENT (the names R, D, B, L, I, X are free; the shape is
// not): anything else — one more statement, a different library call, another loop form, the two
// fields of the Fasta literal in another order — is refused.  What is emitted:
//
//	facts        the constructor and the source text of the arguments of `pars.Seq(…)`, the child indices k1, k2
//	fastaData    body ↦ data: `bytes.Split` on ONE byte (`bytesSplitByte`, a re-implemented left-to-right scan),
//	             the range loop LITERALLY (one round per element of the slice as it was when the loop started,
//	             the index read and the store checked: `none` is the Go panic), `bytes.TrimSuffix`
//	             (`bytesTrimSuffix` of Gts/Gen/GbReaderPrelude.lean), `bytes.Join` (`bytesJoin`)
//	fastaMap     the tokens of the children ↦ (Desc, Data), the two `Children[k]` checked
//
// The byte literals, the separator of Join and the indices are COPIED from the source; that they are
// '\n', '\r', nil, 1 and 2 is what the bridge proves (it compares with the model `Gts.Fasta.fastaBody`).

import (
	"fmt"
	"go/ast"
	"go/parser"
	"go/token"
	"path/filepath"
	"strconv"
	"strings"
)

const fastaReadPrelude = `/-- the scan of ` + "`bytes.Split(s, []byte{c})`" + `: ` + "`cur`" + ` is the piece collected since the last separator -/
def bytesSplitByteFrom (c : UInt8) : List UInt8 → List UInt8 → List (List UInt8)
  | [], cur => [cur]
  | b :: t, cur => if b == c then cur :: bytesSplitByteFrom c t [] else bytesSplitByteFrom c t (cur ++ [b])

/-- ` + "`bytes.Split(s, []byte{c})`" + `: the pieces between the occurrences of ` + "`c`" + ` (never empty: ` + "`n`" + ` separators give ` + "`n + 1`" + ` pieces) -/
def bytesSplitByte (s : List UInt8) (c : UInt8) : List (List UInt8) := bytesSplitByteFrom c s []

/-- ` + "`bytes.Join(s, sep)`" + `: the elements with ` + "`sep`" + ` between them (` + "`nil`" + ` is the empty separator) -/
def bytesJoin : List (List UInt8) → List UInt8 → List UInt8
  | [], _ => []
  | [a], _ => a
  | a :: b :: t, sep => a ++ sep ++ bytesJoin (b :: t) sep
`

type fastaRdShape struct {
	ctor           string
	seqArgs        []string
	descIdx        int
	bodyIdx        int
	splitByte      byte
	trimLit        []byte
	joinSep        []byte
	src            []string // the statements, for the doc comments
	loopSrc        string
	childDescFirst bool
}

// frChildToken: `R.Children[k].Token` -> k
func frChildToken(what string, x ast.Expr, res string) int {
	sel, ok := x.(*ast.SelectorExpr)
	if !ok || sel.Sel.Name != "Token" {
		refuse("%s: `%s` is not `%s.Children[k].Token`", what, nodeText(x), res)
	}
	ix, ok := sel.X.(*ast.IndexExpr)
	if !ok || exprString(ix.X) != res+".Children" {
		refuse("%s: `%s` is not `%s.Children[k].Token`", what, nodeText(x), res)
	}
	lit, ok := ix.Index.(*ast.BasicLit)
	if !ok || lit.Kind != token.INT {
		refuse("%s: the child index `%s` is not an integer literal", what, nodeText(ix.Index))
	}
	k, err := strconv.Atoi(lit.Value)
	if err != nil || k < 0 {
		refuse("%s: child index %s", what, lit.Value)
	}
	return k
}

// frDefine: `name := rhs` with one fresh variable
func frDefine(what string, s ast.Stmt) (string, ast.Expr) {
	as, ok := s.(*ast.AssignStmt)
	if !ok || as.Tok != token.DEFINE || len(as.Lhs) != 1 || len(as.Rhs) != 1 || identName(as.Lhs[0]) == "" || identName(as.Lhs[0]) == "_" {
		refuse("%s: `%s` is not `name := expression`", what, nodeText(s))
	}
	return identName(as.Lhs[0]), as.Rhs[0]
}

func frCall(what string, x ast.Expr, fun string, nargs int) *ast.CallExpr {
	call, ok := x.(*ast.CallExpr)
	if !ok || exprString(call.Fun) != fun || len(call.Args) != nargs || call.Ellipsis.IsValid() {
		refuse("%s: `%s` is not a call of %s with %d arguments", what, nodeText(x), fun, nargs)
	}
	return call
}

func frBytesLit(what string, x ast.Expr) []byte {
	cl, ok := x.(*ast.CompositeLit)
	if !ok {
		refuse("%s: `%s` is not a []byte{…} literal", what, nodeText(x))
	}
	bs, ok := rfByteLits(cl)
	if !ok {
		refuse("%s: `%s` is not a []byte{…} literal of character literals", what, nodeText(x))
	}
	return bs
}

func fastaReadShape(repo string) fastaRdShape {
	fset := token.NewFileSet()
	af, err := parser.ParseFile(fset, filepath.Join(repo, "seqio", "fasta.go"), nil, 0)
	if err != nil {
		refuse("seqio/fasta.go: %v", err)
	}
	what := "fasta.go `FastaParser`"
	var val ast.Expr
	for _, d := range af.Decls {
		gd, ok := d.(*ast.GenDecl)
		if !ok || gd.Tok != token.VAR {
			continue
		}
		for _, sp := range gd.Specs {
			vs := sp.(*ast.ValueSpec)
			for i, n := range vs.Names {
				if n.Name == "FastaParser" {
					if len(vs.Values) != len(vs.Names) {
						refuse("%s: no initialiser", what)
					}
					val = vs.Values[i]
				}
			}
		}
	}
	if val == nil {
		refuse("%s: not a package variable of seqio/fasta.go", what)
	}
	// X.Map(func(R *pars.Result) error { … }) with X = pars.Seq(a0, a1, a2)
	outer, ok := val.(*ast.CallExpr)
	if !ok || len(outer.Args) != 1 {
		refuse("%s: the initialiser is not `….Map(func …)`", what)
	}
	msel, ok := outer.Fun.(*ast.SelectorExpr)
	if !ok || msel.Sel.Name != "Map" {
		refuse("%s: the initialiser is not `….Map(func …)`", what)
	}
	lit, ok := outer.Args[0].(*ast.FuncLit)
	if !ok {
		refuse("%s: the argument of Map is not a function literal", what)
	}
	inner, ok := msel.X.(*ast.CallExpr)
	if !ok || inner.Ellipsis.IsValid() {
		refuse("%s: the receiver of Map is not a call", what)
	}
	sh := fastaRdShape{ctor: exprString(inner.Fun)}
	for _, a := range inner.Args {
		sh.seqArgs = append(sh.seqArgs, nodeText(a))
	}
	res := wantSig(what+": parameter of the Map function", lit.Type.Params, "*pars.Result")[0]
	wantSig(what+": result of the Map function", lit.Type.Results, "error")
	list := lit.Body.List
	if len(list) != 7 {
		refuse("%s: the Map function has %d statements, the known shape has 7", what, len(list))
	}
	for _, s := range list {
		sh.src = append(sh.src, strings.Join(strings.Fields(nodeText(s)), " "))
	}
	// 1. D := string(R.Children[k1].Token)
	dName, rhs := frDefine(what, list[0])
	sh.descIdx = frChildToken(what, frCall(what, rhs, "string", 1).Args[0], res)
	// 2. B := R.Children[k2].Token
	bName, rhs := frDefine(what, list[1])
	sh.bodyIdx = frChildToken(what, rhs, res)
	// 3. L := bytes.Split(B, []byte{c})
	lName, rhs := frDefine(what, list[2])
	call := frCall(what, rhs, "bytes.Split", 2)
	if identName(call.Args[0]) != bName {
		refuse("%s: `%s` does not split the body token `%s`", what, nodeText(rhs), bName)
	}
	sep := frBytesLit(what, call.Args[1])
	if len(sep) != 1 {
		refuse("%s: bytes.Split on a separator of %d bytes (one byte is known)", what, len(sep))
	}
	sh.splitByte = sep[0]
	// 4. for I := range L { L[I] = bytes.TrimSuffix(L[I], []byte{…}) }
	rs, ok := list[3].(*ast.RangeStmt)
	if !ok || rs.Tok != token.DEFINE || rs.Value != nil || identName(rs.Key) == "" || identName(rs.Key) == "_" || identName(rs.X) != lName || len(rs.Body.List) != 1 {
		refuse("%s: `%s` is not `for i := range %s { one statement }`", what, sh.src[3], lName)
	}
	iName := identName(rs.Key)
	if iName == lName {
		refuse("%s: the loop variable shadows the slice", what)
	}
	elem := lName + "[" + iName + "]"
	as, ok := rs.Body.List[0].(*ast.AssignStmt)
	if !ok || as.Tok != token.ASSIGN || len(as.Lhs) != 1 || len(as.Rhs) != 1 || strings.Join(strings.Fields(nodeText(as.Lhs[0])), "") != elem {
		refuse("%s: the loop body `%s` is not `%s = …`", what, nodeText(rs.Body.List[0]), elem)
	}
	call = frCall(what, as.Rhs[0], "bytes.TrimSuffix", 2)
	if strings.Join(strings.Fields(nodeText(call.Args[0])), "") != elem {
		refuse("%s: `%s` does not trim `%s`", what, nodeText(as.Rhs[0]), elem)
	}
	sh.trimLit = frBytesLit(what, call.Args[1])
	// 5. X := bytes.Join(L, nil | []byte{…})
	xName, rhs := frDefine(what, list[4])
	call = frCall(what, rhs, "bytes.Join", 2)
	if identName(call.Args[0]) != lName {
		refuse("%s: `%s` does not join `%s`", what, nodeText(rhs), lName)
	}
	if identName(call.Args[1]) != "nil" {
		sh.joinSep = frBytesLit(what, call.Args[1])
	}
	// the six names are different variables
	seen := map[string]bool{}
	for _, n := range []string{res, dName, bName, lName, iName, xName} {
		if seen[n] {
			refuse("%s: the variable `%s` is declared twice", what, n)
		}
		seen[n] = true
	}
	// 6. R.SetValue(Fasta{D, X})
	es, ok := list[5].(*ast.ExprStmt)
	if !ok {
		refuse("%s: `%s` is not `%s.SetValue(Fasta{…})`", what, sh.src[5], res)
	}
	call = frCall(what, es.X, res+".SetValue", 1)
	cl, ok := call.Args[0].(*ast.CompositeLit)
	if !ok || exprString(cl.Type) != "Fasta" || len(cl.Elts) != 2 {
		refuse("%s: `%s` does not store a `Fasta{desc, data}`", what, sh.src[5])
	}
	first, second := cl.Elts[0], cl.Elts[1]
	if kv, isKV := first.(*ast.KeyValueExpr); isKV {
		kv2, isKV2 := second.(*ast.KeyValueExpr)
		if !isKV2 || identName(kv.Key) != "Desc" || identName(kv2.Key) != "Data" {
			refuse("%s: `%s`: the keyed fields are not Desc, Data in this order", what, sh.src[5])
		}
		first, second = kv.Value, kv2.Value
	}
	if identName(first) != dName || identName(second) != xName {
		refuse("%s: `%s` is not `Fasta{%s, %s}` (description, joined data)", what, sh.src[5], dName, xName)
	}
	// the declaration of Fasta: Desc string; Data []byte in this order
	fastaFields := ""
	for _, d := range af.Decls {
		if gd, ok := d.(*ast.GenDecl); ok && gd.Tok == token.TYPE {
			for _, sp := range gd.Specs {
				ts := sp.(*ast.TypeSpec)
				if st, ok := ts.Type.(*ast.StructType); ok && ts.Name.Name == "Fasta" {
					for _, f := range st.Fields.List {
						for _, n := range f.Names {
							fastaFields += n.Name + " " + nodeText(f.Type) + ";"
						}
					}
				}
			}
		}
	}
	if fastaFields != "Desc string;Data []byte;" {
		refuse("%s: type Fasta has the fields `%s`, expected `Desc string;Data []byte;`", what, fastaFields)
	}
	// 7. return nil
	ret, ok := list[6].(*ast.ReturnStmt)
	if !ok || len(ret.Results) != 1 || identName(ret.Results[0]) != "nil" {
		refuse("%s: `%s` is not `return nil`", what, sh.src[6])
	}
	return sh
}

func genFastaRead(repo string) (text string, err error) {
	defer recoverRefusal(&err)
	sh := fastaReadShape(repo)
	b := strings.Builder{}
	b.WriteString("/-\n  GENERATED by go2lean (gfastard.go) from seqio/fasta.go (`FastaParser`) — do not edit.\n")
	b.WriteString("  The function handed to `.Map(…)`: from the tokens of the children of the sequence to (Desc, Data), checked\n  statement by statement and translated; the constructor in front of `.Map` as facts.\n")
	b.WriteString("  (how the Go is read: the header comment of go2lean/gfastard.go)\n-/\n")
	b.WriteString("import Gts.Gen.GbReaderPrelude\nnamespace Gts.Gen.FastaRead\nopen Gts.Gen\n\n")
	b.WriteString(fastaReadPrelude)
	b.WriteString("\n/-! ### facts: `var FastaParser = <ctor>(<args>).Map(func …)` -/\n\n")
	fmt.Fprintf(&b, "/-- the constructor in front of `.Map` -/\ndef fastaParserCtor : String := %s\n\n", strconv.Quote(sh.ctor))
	qs := make([]string, len(sh.seqArgs))
	for i, a := range sh.seqArgs {
		qs[i] = strconv.Quote(strings.Join(strings.Fields(a), " "))
	}
	fmt.Fprintf(&b, "/-- the source text of its arguments, in order -/\ndef fastaParserArgs : List String := [%s]\n\n", strings.Join(qs, ", "))
	fmt.Fprintf(&b, "/-- `%s` -/\ndef fastaDescChild : Nat := %d\n\n", sh.src[0], sh.descIdx)
	fmt.Fprintf(&b, "/-- `%s` -/\ndef fastaBodyChild : Nat := %d\n\n", sh.src[1], sh.bodyIdx)
	b.WriteString("/-! ### the computation -/\n\n")
	fmt.Fprintf(&b, "/-- `%s`: one round per element the slice had when the loop started (first argument: the rounds left;\nsecond: the index); the read and the store of `lines[i]` are checked (`none` = the Go panic) -/\n", sh.src[3])
	b.WriteString("def fastaData_range : Nat → Nat → List (List UInt8) → Option (List (List UInt8))\n")
	b.WriteString("  | 0, _, lines => some lines\n")
	b.WriteString("  | k + 1, i, lines =>\n")
	b.WriteString("    match lines[i]? with\n")
	b.WriteString("    | none => none\n")
	fmt.Fprintf(&b, "    | some x => fastaData_range k (i + 1) (lines.set i (bytesTrimSuffix x %s))\n\n", leanBytes(sh.trimLit))
	fmt.Fprintf(&b, "/-- the statements `%s` … `%s`: the data of the record, given the body token -/\n", sh.src[2], sh.src[4])
	b.WriteString("def fastaData (body : List UInt8) : Option (List UInt8) :=\n")
	fmt.Fprintf(&b, "  let lines := bytesSplitByte body %d\n", sh.splitByte)
	b.WriteString("  match fastaData_range lines.length 0 lines with\n")
	b.WriteString("  | none => none\n")
	fmt.Fprintf(&b, "  | some lines => some (bytesJoin lines %s)\n\n", leanBytes(sh.joinSep))
	fmt.Fprintf(&b, "/-- the whole Map function: the tokens of the children ↦ the `Fasta{Desc, Data}` it stores (`%s`);\n`none` = a Go panic (a child that does not exist) -/\n", sh.src[5])
	b.WriteString("def fastaMap (children : List (List UInt8)) : Option (List UInt8 × List UInt8) :=\n")
	b.WriteString("  match children[fastaDescChild]? with\n  | none => none\n  | some desc =>\n")
	b.WriteString("    match children[fastaBodyChild]? with\n    | none => none\n    | some body =>\n")
	b.WriteString("      match fastaData body with\n      | none => none\n      | some data => some (desc, data)\n\n")
	b.WriteString("end Gts.Gen.FastaRead\n")
	return b.String(), nil
}
