// go2lean regenerates lean/Gts/Gen/*.lean from the Go sources of the repository under
// verification (DESIGN.md 4.1).  It works on the AST alone (go/parser), is deliberately small
// and refuses (exit status 1) every source shape it does not know: a refusal means the tie
// between the Lean model and the code is broken and is reported as such by bin/check.
//
//	go2lean -repo /repo -out lean/Gts/Gen
//
// One generator per output file; add new ones to `gens`.  A file is only rewritten when its
// content changes (so that lake does not rebuild for nothing).
package main

import (
	"bytes"
	"flag"
	"fmt"
	"os"
	"path/filepath"
	"strings"
)

// A generator reads sources below repo and returns the complete text of one Lean file.
type generator struct {
	file string // output file name inside -out
	src  string // what it reads (for messages)
	run  func(repo string) (string, error)
}

var gens = []generator{
	{file: "Nucleotide.lean", src: "nucleotide.go", run: genNucleotide},
	{file: "Arith.lean", src: "utils.go, location.go", run: genArith},
	{file: "ArithOrigin.lean", src: "seqio/origin.go", run: genArithOrigin},
	{file: "ArithModifier.lean", src: "modifier.go", run: genArithModifier},
	{file: "LocRec.lean", src: "location.go (recursive methods)", run: genLocRec},
	{file: "LocPred.lean", src: "location.go (LocationWithin, LocationOverlap)", run: genLocPred},
	{file: "LocLess.lean", src: "location.go (LocationLess)", run: genLocLess},
	{file: "PushRules.lean", src: "location.go (LocationList.Push)", run: genPushRules},
	{file: "RegionSeg.lean", src: "region.go, utils.go (Abs, Segment methods)", run: genRegionSeg},
	{file: "Region.lean", src: "region.go (BySegment.Less, invertSegments, Minimize loop)", run: genRegion},
	{file: "RegionResize.lean", src: "region.go (Regions.Len, Regions.Resize bounds and walk)", run: genRegionResize},
	{file: "RegionRec.lean", src: "region.go (Region.Len / Head / Tail / Complement over Segment | Regions)", run: genRegionRec},
	{file: "LocLen.lean", src: "location.go (Len of the seven kinds)", run: genLocLen},
	{file: "LocRegion.lean", src: "location.go (Region of the seven kinds)", run: genLocRegion},
	{file: "LocComplement.lean", src: "location.go (Complement of the seven kinds)", run: genLocComplement},
	{file: "LocComplete.lean", src: "location.go (asComplete)", run: genLocComplete},
	{file: "LocStrand.lean", src: "location.go (CheckStrand, checkStrand)", run: genLocStrand},
	{file: "Cli.lean", src: "cmd/gts/*.go", run: genCli},
	{file: "CliWriters.lean", src: "cmd/gts/*.go (functions that write sequences), seqio/filetype.go, seqio/writer.go", run: genCliWriters},
	{file: "Date.lean", src: "seqio/date.go", run: genDate},
	{file: "MolTop.lean", src: "molecule.go, topology.go", run: genMolTop},
	{file: "GoBytes.lean", src: "(fixed prelude: Go's byte-slice operations)", run: genGoBytes},
	{file: "OriginConsts.lean", src: "seqio/genbank_subparsers.go (spaceByte, isBaseCharacter, maxOriginResidues)", run: genOriginConsts},
	{file: "OriginValidate.lean", src: "seqio/genbank_subparsers.go (validateOrigin)", run: genOriginValidate},
	{file: "OriginBuf.lean", src: "seqio/origin.go (NewOrigin, Origin.Bytes / String / Len)", run: genOriginBuf},
	{file: "OriginSlow.lean", src: "seqio/genbank_subparsers.go (slowGenBankOriginParser)", run: genOriginSlow},
	{file: "OriginReader.lean", src: "seqio/genbank_subparsers.go (makeGenbankOriginParser)", run: genOriginReader},
	{file: "PanicSites.lean", src: "the parser files anchored by C07", run: genPanicSites},
	{file: "CacheFile.lean", src: "cmd/cache/header.go, cmd/cache/file.go, cmd/gts/io.go", run: genCacheFile},
	{file: "KeyEnc.lean", src: "cmd/gts/io.go (exact, encodePayload)", run: genKeyEnc},
	{file: "GoList.lean", src: "(fixed prelude: Go's slice and map operations on lists)", run: genGoList},
	{file: "SortSearch.lean", src: "$GOROOT/src/sort/search.go (sort.Search)", run: genSortSearch},
	{file: "FeatLess.lean", src: "feature.go (FeatureSlice.Less)", run: genFeatLess},
	{file: "FeatInsert.lean", src: "feature.go (FeatureSlice.Insert)", run: genFeatInsert},
	{file: "FeatFilter.lean", src: "feature.go (filter constructors, FeatureSlice.Filter)", run: genFeatFilter},
	{file: "FeatSelector.lean", src: "feature.go (shiftSelector, toQualifier)", run: genFeatSelector},
	{file: "FeatRepair.lean", src: "feature.go (Repair)", run: genFeatRepair},
	{file: "Props.lean", src: "props.go (Index, Has, Keys, Items, Get, Set, Add, Del, Clone)", run: genProps},
	{file: "SeqPrelude.lean", src: "(fixed prelude: how a Sequence and the non-byte slices are read)", run: genSeqPrelude},
	{file: "SeqFilter.lean", src: "feature.go (filter combinators, FeatureSlice.Filter)", run: genSeqFilter},
	{file: "SeqInsert.lean", src: "sequence.go (insert, Insert, Embed)", run: genSeqInsert},
	{file: "SeqDelete.lean", src: "sequence.go (Delete, Erase)", run: genSeqDelete},
	{file: "SeqRotate.lean", src: "sequence.go (Rotate)", run: genSeqRotate},
	{file: "SeqSlice.lean", src: "sequence.go (Slice)", run: genSeqSlice},
	{file: "SeqConcat.lean", src: "sequence.go (Concat)", run: genSeqConcat},
	{file: "SeqReverse.lean", src: "sequence.go (Reverse)", run: genSeqReverse},
	{file: "SeqComplement.lean", src: "nucleotide.go (replaceBytes, Complement, Transcribe)", run: genSeqComplement},
	{file: "CliList.lean", src: "(fixed prelude of the CLI-step / locator translator: checked slice operations, map-as-set, sort.Ints, strings.IndexByte)", run: genCliList},
	{file: "CliDelete.lean", src: "cmd/gts/delete.go (the per-record step)", run: genCliDelete},
	{file: "CliInsert.lean", src: "cmd/gts/insert.go, infix.go (the per-record steps)", run: genCliInsert},
	{file: "CliSplit.lean", src: "cmd/gts/split.go (the per-record step)", run: genCliSplit},
	{file: "CliRotate.lean", src: "cmd/gts/rotate.go (the per-record step)", run: genCliRotate},
	{file: "CliExtract.lean", src: "cmd/gts/extract.go (containsRegion, the per-record step)", run: genCliExtract},
	{file: "Locator.lean", src: "locator.go (the locator constructors, tryLocation, AsLocator)", run: genLocator},
	{file: "GbReaderPrelude.lean", src: "(fixed prelude: bytes.Index, strings.IndexByte, TrimSuffix, strings.Repeat as the reader's plain computations read them)", run: genGbReaderPrelude},
	{file: "GbReaderFns.lean", src: "seqio/genbank.go, genbank_subparsers.go, insdc.go, reference.go, strings.go, dictionary.go (the reader's plain computations)", run: genGbReaderFns},
	{file: "GbReaderDispatch.lean", src: "seqio/genbank.go (tryAllParsers)", run: genGbReaderDispatch},
	{file: "GbReaderFacts.lean", src: "seqio/genbank.go, genbank_subparsers.go, insdc.go, reference.go, utils.go (the reader's structure)", run: genGbReaderFacts},
	{file: "GoStrings.lean", src: "(fixed prelude of the seqio writer translator: strings, slices, fmt verbs)", run: genGoStrings},
	{file: "InsdcWrite.lean", src: "seqio/insdc.go (GetQualifierType, QualifierIO.String, QualifierFormatter.String, INSDCFormatter.String)", run: genInsdcWrite},
	{file: "FastaWrite.lean", src: "seqio/fasta.go (Fasta.WriteTo, FastaWriter.WriteSeq)", run: genFastaWrite},
	{file: "FastaRead.lean", src: "seqio/fasta.go (the Map function of FastaParser)", run: genFastaRead},
	{file: "GbFields.lean", src: "seqio/genbank.go (GenBankFields.ID, GenBankFields.String)", run: genGbFields},
	{file: "GenBankWrite.lean", src: "seqio/genbank.go (GenBank.String)", run: genGenBankWrite},
	{file: "GbSlice.lean", src: "seqio/genbank.go (GenBankFields.Slice)", run: genGbSlice},
	{file: "IoDelegateFacts.lean", src: "cmd/gts/io.go (the cache protocol: newIODelegate, TryCache, Write, Commit, Close as facts)", run: genIoDelegateFacts},
	{file: "IoDelegate.lean", src: "cmd/gts/io.go (gtsCacheDir, newIODelegate, Commit, Write, Close, TryCache as functions over I/O primitives)", run: genIoDelegateFn},
	{file: "ParsPrelude.lean", src: "(fixed prelude of the go-pars translator: checked slice operations, the result value, loops)", run: genParsPrelude},
	{file: "Pars.lean", src: "the module directory of github.com/go-pars/pars (stack.go, state.go and the primitive parsers as functions)", run: genParsFns},
	{file: "ParsFacts.lean", src: "the module directory of github.com/go-pars/pars (pin, inventory of what gts uses, the reached declarations as facts)", run: genParsFacts},
	{file: "CmdSelect.lean", src: "cmd/gts/select.go (the filter, the step), clear.go, define.go, annotate.go (the per-record steps)", run: genCmdSelect},
	{file: "CmdReverse.lean", src: "cmd/gts/reverse.go, complement.go (the per-record steps)", run: genCmdReverse},
	{file: "CmdRepair.lean", src: "cmd/gts/repair.go (the per-record step)", run: genCmdRepair},
	{file: "CmdSearch.lean", src: "cmd/gts/search.go (the per-record step)", run: genCmdSearch},
	{file: "CmdSort.lean", src: "cmd/gts/sort.go (byLength.Less)", run: genCmdSort},
	{file: "CmdFacts.lean", src: "cmd/gts/*.go (the command functions without a regenerated tie of their own, as facts; the inventory of cmd/gts)", run: genCmdFacts},
}

func writeIfChanged(path string, content []byte) (bool, error) {
	old, err := os.ReadFile(path)
	if err == nil && bytes.Equal(old, content) {
		return false, nil
	}
	if err := os.MkdirAll(filepath.Dir(path), 0755); err != nil {
		return false, err
	}
	tmp := path + ".tmp"
	if err := os.WriteFile(tmp, content, 0644); err != nil {
		return false, err
	}
	return true, os.Rename(tmp, path)
}

func main() {
	repo := flag.String("repo", "/repo", "root of the Go repository to read")
	out := flag.String("out", "", "directory receiving the generated Lean files (lean/Gts/Gen)")
	verbose := flag.Bool("v", false, "report every file")
	flag.StringVar(&parsDirFlag, "pars", "", "directory of the pinned module github.com/go-pars/pars (default: `go list -m` in -repo, offline)")
	flag.Parse()
	if *out == "" {
		fmt.Fprintln(os.Stderr, "go2lean: -out is required")
		os.Exit(2)
	}
	failed := false
	for _, g := range gens {
		text, err := g.run(*repo)
		if err != nil {
			// outside the subset: the generated module becomes one that does not compile, so that
			// exactly the theorems depending on it stop checking (not every property)
			fmt.Printf("go2lean: REFUSED %s (%s): %v\n", g.file, g.src, err)
			msg := strings.NewReplacer("\"", "'", "\\", "/", "\n", " ").Replace(err.Error())
			name := strings.TrimSuffix(g.file, ".lean")
			text = fmt.Sprintf("/-\n  GENERATED by go2lean: the current source of %s is outside the translator's subset.\n  Every module importing this one fails to build until the translator (or the source) is looked at.\n-/\nnamespace Gts.Gen\n\ntheorem go2lean_refused_%s : False := by\n  fail \"go2lean refused %s: %s\"\n\nend Gts.Gen\n",
				g.src, name, g.src, msg)
		}
		changed, err := writeIfChanged(filepath.Join(*out, g.file), []byte(text))
		if err != nil {
			fmt.Fprintf(os.Stderr, "go2lean: %s: %v\n", g.file, err)
			failed = true
			continue
		}
		if changed {
			fmt.Printf("go2lean: %s rewritten from %s\n", g.file, g.src)
		} else if *verbose {
			fmt.Printf("go2lean: %s unchanged\n", g.file)
		}
	}
	if failed {
		os.Exit(1)
	}
}
