// go2lean regenerates lean/Gts/Gen/*.lean from the Go sources of the repository under
// verification (DESIGN.md 4.1).  It works on the AST alone (go/parser), is deliberately small
// and refuses (exit status 1) every source shape it does not know: a refusal means the tie
// between the Lean model and the code is broken and is reported as such by bin/check.
//
//	go2lean -repo /repo -out lean/Gts/Gen
//
// One generator per output file; add new ones to `gens`.  A file is only rewritten when its
// content changes (so that lake does not rebuild for nothing).
package main

import (
	"bytes"
	"flag"
	"fmt"
	"os"
	"path/filepath"
)

// A generator reads sources below repo and returns the complete text of one Lean file.
type generator struct {
	file string // output file name inside -out
	src  string // what it reads (for messages)
	run  func(repo string) (string, error)
}

var gens = []generator{
	{file: "Nucleotide.lean", src: "nucleotide.go", run: genNucleotide},
	{file: "Arith.lean", src: "utils.go, location.go, modifier.go, seqio/origin.go, seqio/date.go", run: genArith},
	{file: "Cli.lean", src: "cmd/gts/*.go", run: genCli},
	{file: "Date.lean", src: "seqio/date.go", run: genDate},
	{file: "MolTop.lean", src: "molecule.go, topology.go", run: genMolTop},
	{file: "PanicSites.lean", src: "the parser files anchored by C07", run: genPanicSites},
}

func writeIfChanged(path string, content []byte) (bool, error) {
	old, err := os.ReadFile(path)
	if err == nil && bytes.Equal(old, content) {
		return false, nil
	}
	if err := os.MkdirAll(filepath.Dir(path), 0755); err != nil {
		return false, err
	}
	tmp := path + ".tmp"
	if err := os.WriteFile(tmp, content, 0644); err != nil {
		return false, err
	}
	return true, os.Rename(tmp, path)
}

func main() {
	repo := flag.String("repo", "/repo", "root of the Go repository to read")
	out := flag.String("out", "", "directory receiving the generated Lean files (lean/Gts/Gen)")
	verbose := flag.Bool("v", false, "report every file")
	flag.Parse()
	if *out == "" {
		fmt.Fprintln(os.Stderr, "go2lean: -out is required")
		os.Exit(2)
	}
	failed := false
	for _, g := range gens {
		text, err := g.run(*repo)
		if err != nil {
			fmt.Fprintf(os.Stderr, "go2lean: %s: refused: %v\n", g.src, err)
			failed = true
			continue
		}
		changed, err := writeIfChanged(filepath.Join(*out, g.file), []byte(text))
		if err != nil {
			fmt.Fprintf(os.Stderr, "go2lean: %s: %v\n", g.file, err)
			failed = true
			continue
		}
		if changed {
			fmt.Printf("go2lean: %s rewritten from %s\n", g.file, g.src)
		} else if *verbose {
			fmt.Printf("go2lean: %s unchanged\n", g.file)
		}
	}
	if failed {
		os.Exit(1)
	}
}
