package main

// The "world" of the seqio WRITER translator (gwriter.go): the declarations of the packages seqio and
// gts (types, functions, methods, constants), Go types as canonical strings, and their Lean reading.
//
// A Go type is a string: `string`, `int`, `bool`, `byte`, `[]T`, `[N]T`, `map[K]V`, `*T`,
// `func(A,B)R`, `interface{}`, or a named type `pkg.Name`.  How the types are READ in Lean:
//
//	string, []byte          List UInt8            (a Go string is its bytes)
//	int, time.Month         Int                   (unbounded: no overflow)
//	bool / byte             Bool / UInt8
//	[]T                     List T                (a VALUE: no capacity, no aliasing)
//	[2]T                    T × T
//	map[string]string       Option (List (List UInt8 × List UInt8))   (`none` = the nil map)
//	func(A, B) R            A → B → R
//	struct type pkg.Name    structure Name        (generated from the Go declaration, field by field)
//	gts.Location            Gts.Loc               (the model's locations; `String()` is a parameter)
//	gts.Region              Option (Int × Int)    (`some (h, t)` iff the dynamic type is gts.Segment{h, t})
//	*seqio.Origin           the structure Origin  (a nil pointer is outside the reading)
//	other named types       the reading of their underlying type

import (
	"fmt"
	"go/ast"
	"go/parser"
	"go/token"
	"os"
	"path/filepath"
	"sort"
	"strconv"
	"strings"
)

type wconst struct {
	typ string // Go type ("" = untyped)
	str *string
	num *int64
}

type wpkg struct {
	name    string
	dir     string
	fset    *token.FileSet
	files   []*ast.File
	types   map[string]*ast.TypeSpec
	funcs   map[string]*ast.FuncDecl // "F" or "T.M" (pointer receivers without the star)
	ptrRecv map[string]bool          // "T.M" declared on *T
	fileOf  map[*ast.FuncDecl]*ast.File
	consts  map[string]wconst
	vars    map[string]bool
}

type wworld struct {
	pkgs map[string]*wpkg
}

// the import path expected behind every package qualifier the translator reads
var wImports = map[string]string{
	"gts": "github.com/go-gts/gts", "strings": "strings", "fmt": "fmt", "strconv": "strconv",
	"wrap": "github.com/go-wrap/wrap", "io": "io", "time": "time", "pars": "github.com/go-pars/pars",
}

func wLoadPkg(name, dir string) *wpkg {
	p := &wpkg{name: name, dir: dir, fset: token.NewFileSet(), types: map[string]*ast.TypeSpec{}, funcs: map[string]*ast.FuncDecl{},
		ptrRecv: map[string]bool{}, fileOf: map[*ast.FuncDecl]*ast.File{}, consts: map[string]wconst{}, vars: map[string]bool{}}
	ents, err := os.ReadDir(dir)
	if err != nil {
		refuse("%s: %v", dir, err)
	}
	var names []string
	for _, e := range ents {
		n := e.Name()
		if e.IsDir() || !strings.HasSuffix(n, ".go") || strings.HasSuffix(n, "_test.go") || n == "verif_export.go" {
			continue
		}
		names = append(names, n)
	}
	sort.Strings(names)
	for _, n := range names {
		f, err := parser.ParseFile(p.fset, filepath.Join(dir, n), nil, parser.SkipObjectResolution)
		if err != nil {
			refuse("%v", err)
		}
		p.files = append(p.files, f)
		for _, d := range f.Decls {
			switch d := d.(type) {
			case *ast.FuncDecl:
				key := d.Name.Name
				if d.Recv != nil {
					if len(d.Recv.List) != 1 {
						continue
					}
					rt := d.Recv.List[0].Type
					ptr := false
					if st, ok := rt.(*ast.StarExpr); ok {
						rt, ptr = st.X, true
					}
					id, ok := rt.(*ast.Ident)
					if !ok {
						continue
					}
					key = id.Name + "." + d.Name.Name
					p.ptrRecv[key] = ptr
				}
				if _, dup := p.funcs[key]; dup {
					refuse("%s: %s declared twice", dir, key)
				}
				p.funcs[key] = d
				p.fileOf[d] = f
			case *ast.GenDecl:
				switch d.Tok {
				case token.TYPE:
					for _, s := range d.Specs {
						ts := s.(*ast.TypeSpec)
						if ts.TypeParams != nil {
							continue
						}
						p.types[ts.Name.Name] = ts
					}
				case token.VAR:
					for _, s := range d.Specs {
						for _, nm := range s.(*ast.ValueSpec).Names {
							p.vars[nm.Name] = true
						}
					}
				case token.CONST:
					p.readConsts(d)
				}
			}
		}
	}
	return p
}

// readConsts registers the constants of the forms `N [T] = "lit" | 123 | iota` and the implicit
// repetition of `iota` lines; other constant expressions are not registered (a use is refused).
func (p *wpkg) readConsts(d *ast.GenDecl) {
	lastIota, lastTyp := false, ""
	for i, s := range d.Specs {
		vs := s.(*ast.ValueSpec)
		typ := ""
		if vs.Type != nil {
			if id, ok := vs.Type.(*ast.Ident); ok {
				typ = id.Name
			} else {
				lastIota = false
				continue
			}
		}
		if len(vs.Values) == 0 {
			if lastIota && len(vs.Names) == 1 && vs.Type == nil {
				n := int64(i)
				p.consts[vs.Names[0].Name] = wconst{typ: lastTyp, num: &n}
			}
			continue
		}
		lastIota = false
		if len(vs.Names) != 1 || len(vs.Values) != 1 {
			continue
		}
		switch v := vs.Values[0].(type) {
		case *ast.Ident:
			if v.Name == "iota" {
				n := int64(i)
				p.consts[vs.Names[0].Name] = wconst{typ: typ, num: &n}
				lastIota, lastTyp = true, typ
			}
		case *ast.BasicLit:
			switch v.Kind {
			case token.STRING:
				if s, err := strconv.Unquote(v.Value); err == nil {
					p.consts[vs.Names[0].Name] = wconst{typ: typ, str: &s}
				}
			case token.INT:
				if n, err := strconv.ParseInt(v.Value, 0, 64); err == nil {
					p.consts[vs.Names[0].Name] = wconst{typ: typ, num: &n}
				}
			}
		}
	}
}

func wLoadWorld(repo string) *wworld {
	return &wworld{pkgs: map[string]*wpkg{
		"seqio": wLoadPkg("seqio", filepath.Join(repo, "seqio")),
		"gts":   wLoadPkg("gts", repo),
	}}
}

// checkImports: every qualifier of wImports that the file uses is the expected package, unaliased
func (p *wpkg) checkImports(f *ast.File) {
	seen := map[string]string{}
	for _, im := range f.Imports {
		path, _ := strconv.Unquote(im.Path.Value)
		name := path[strings.LastIndex(path, "/")+1:]
		if im.Name != nil {
			name = im.Name.Name
		}
		seen[name] = path
	}
	for name, path := range seen {
		if want, ok := wImports[name]; ok && want != path {
			refuse("%s: the qualifier %s is the package %q, not %q", p.fset.Position(f.Pos()).Filename, name, path, want)
		}
	}
	for name, want := range wImports {
		for n2, path := range seen {
			if path == want && n2 != name {
				refuse("%s: the package %q is imported as %s", p.fset.Position(f.Pos()).Filename, want, n2)
			}
		}
	}
}

// ---- types ----------------------------------------------------------------------------------------

// typ renders a type expression met in package p as a canonical string
func (w *wworld) typ(p *wpkg, e ast.Expr) string {
	switch t := e.(type) {
	case *ast.Ident:
		switch t.Name {
		case "string", "int", "bool", "byte", "error", "int64":
			return t.Name
		}
		if _, ok := p.types[t.Name]; ok {
			return p.name + "." + t.Name
		}
		refuse("unknown type %s in package %s", t.Name, p.name)
	case *ast.SelectorExpr:
		if id, ok := t.X.(*ast.Ident); ok {
			return id.Name + "." + t.Sel.Name
		}
	case *ast.ArrayType:
		if t.Len == nil {
			return "[]" + w.typ(p, t.Elt)
		}
		if l, ok := t.Len.(*ast.BasicLit); ok && l.Kind == token.INT {
			return "[" + l.Value + "]" + w.typ(p, t.Elt)
		}
	case *ast.MapType:
		return "map[" + w.typ(p, t.Key) + "]" + w.typ(p, t.Value)
	case *ast.StarExpr:
		return "*" + w.typ(p, t.X)
	case *ast.ParenExpr:
		return w.typ(p, t.X)
	case *ast.FuncType:
		var ps []string
		if t.Params != nil {
			for _, f := range t.Params.List {
				n := len(f.Names)
				if n == 0 {
					n = 1
				}
				for i := 0; i < n; i++ {
					ps = append(ps, w.typ(p, f.Type))
				}
			}
		}
		if t.Results == nil || len(t.Results.List) != 1 || len(t.Results.List[0].Names) > 1 {
			refuse("function type with other than one result")
		}
		return "func(" + strings.Join(ps, ",") + ")" + w.typ(p, t.Results.List[0].Type)
	case *ast.InterfaceType:
		if t.Methods == nil || len(t.Methods.List) == 0 {
			return "interface{}"
		}
	}
	refuse("type expression %s outside the subset", exprString(e))
	return ""
}

type wfield struct{ name, typ string }

// named splits "pkg.Name" and finds the declaration
func (w *wworld) named(t string) (*wpkg, *ast.TypeSpec, bool) {
	i := strings.IndexByte(t, '.')
	if i <= 0 || strings.ContainsAny(t[:i], "[]*() ") {
		return nil, nil, false
	}
	p, ok := w.pkgs[t[:i]]
	if !ok {
		return nil, nil, false
	}
	ts, ok := p.types[t[i+1:]]
	return p, ts, ok
}

// types that are not read through their declaration
var wOpaque = map[string]string{
	"gts.Location": "Gts.Loc",
	"gts.Region":   "Option (Int × Int)",
	"time.Month":   "Int",
	// the value of gts.Range(a, b): a gts.Ranged read as a Location
	"gts.Ranged!loc":  "Gts.Loc",
	"strings.Builder": "List UInt8",
	// `parser := parseReferenceInfo(prefix)`: the parser is its prefix
	"seqio.refParser!": "List UInt8",
}

// structOf: the fields of a named struct type
func (w *wworld) structOf(t string) ([]wfield, bool) {
	if _, ok := wOpaque[t]; ok {
		return nil, false
	}
	p, ts, ok := w.named(t)
	if !ok {
		return nil, false
	}
	st, ok := ts.Type.(*ast.StructType)
	if !ok {
		return nil, false
	}
	var out []wfield
	for _, f := range st.Fields.List {
		if len(f.Names) == 0 {
			refuse("type %s: embedded field", t)
		}
		ft := w.typ(p, f.Type)
		for _, n := range f.Names {
			out = append(out, wfield{n.Name, ft})
		}
	}
	return out, true
}

// under: one step from a named non-struct type to what it is declared as ("" when t is not such a type)
func (w *wworld) under(t string) string {
	if _, ok := wOpaque[t]; ok {
		return ""
	}
	p, ts, ok := w.named(t)
	if !ok {
		return ""
	}
	if _, isStruct := ts.Type.(*ast.StructType); isStruct {
		return ""
	}
	if _, isIface := ts.Type.(*ast.InterfaceType); isIface {
		refuse("interface type %s outside the reading", t)
	}
	if ts.Assign.IsValid() {
		refuse("type alias %s", t)
	}
	return w.typ(p, ts.Type)
}

// base resolves named non-struct types down to a structural type (or a struct / opaque name)
func (w *wworld) base(t string) string {
	for i := 0; i < 10; i++ {
		u := w.under(t)
		if u == "" {
			return t
		}
		t = u
	}
	refuse("type %s: declaration chain too long", t)
	return ""
}

// kind: string | int | bool | byte | slice | array | map | func | struct | ptr | loc | region | other
func (w *wworld) kind(t string) string {
	b := w.base(t)
	switch {
	case b == "string", b == "int", b == "bool", b == "byte":
		return b
	case b == "time.Month":
		return "int"
	case b == "gts.Location", b == "gts.Ranged!loc":
		return "loc"
	case b == "gts.Region":
		return "region"
	case strings.HasPrefix(b, "[]"):
		return "slice"
	case strings.HasPrefix(b, "map["):
		return "map"
	case strings.HasPrefix(b, "["):
		return "array"
	case strings.HasPrefix(b, "func("):
		return "func"
	case strings.HasPrefix(b, "*"):
		return "ptr"
	}
	if _, ok := w.structOf(b); ok {
		return "struct"
	}
	return "other"
}

// elem: the element type of a slice or array type
func (w *wworld) elem(t string) string {
	b := w.base(t)
	if strings.HasPrefix(b, "[]") {
		return b[2:]
	}
	if strings.HasPrefix(b, "[") {
		return b[strings.IndexByte(b, ']')+1:]
	}
	refuse("type %s has no elements", t)
	return ""
}

func (w *wworld) arrayLen(t string) int {
	b := w.base(t)
	n, err := strconv.Atoi(b[1:strings.IndexByte(b, ']')])
	if err != nil {
		refuse("array type %s", t)
	}
	return n
}

// funcSig splits "func(A,B)R"
func wFuncSig(b string) ([]string, string) {
	depth, i := 0, 4
	start := 5
	var ps []string
	for i = 4; i < len(b); i++ {
		switch b[i] {
		case '(', '[':
			depth++
		case ')', ']':
			depth--
			if depth == 0 && b[i] == ')' {
				if i > start {
					ps = append(ps, b[start:i])
				}
				return ps, b[i+1:]
			}
		case ',':
			if depth == 1 {
				ps = append(ps, b[start:i])
				start = i + 1
			}
		}
	}
	refuse("function type %s", b)
	return nil, ""
}

// structName: the name of the generated Lean structure for a struct type
func wStructName(t string) string {
	t = strings.TrimPrefix(t, "*")
	return t[strings.IndexByte(t, '.')+1:]
}

// lean: the Lean reading of a Go type; struct types are noted in `need`
func (w *wworld) lean(t string, need map[string]bool) string {
	if l, ok := wOpaque[t]; ok {
		return l
	}
	switch t {
	case "string", "[]byte":
		return "List UInt8"
	case "int":
		return "Int"
	case "bool":
		return "Bool"
	case "byte":
		return "UInt8"
	case "map[string]string":
		return "Option (List (List UInt8 × List UInt8))"
	case "*seqio.Origin":
		t = "seqio.Origin"
	}
	if _, ok := w.structOf(t); ok {
		if need != nil {
			need[t] = true
		}
		return wStructName(t)
	}
	if u := w.under(t); u != "" {
		return w.lean(u, need)
	}
	switch {
	case strings.HasPrefix(t, "[]"):
		return "List " + wParen(w.lean(t[2:], need))
	case strings.HasPrefix(t, "func("):
		ps, r := wFuncSig(t)
		var out []string
		for _, p := range ps {
			out = append(out, wParen(w.lean(p, need)))
		}
		out = append(out, wParen(w.lean(r, need)))
		return strings.Join(out, " → ")
	case strings.HasPrefix(t, "["):
		if w.arrayLen(t) != 2 {
			refuse("array type %s: only pairs are read", t)
		}
		e := wParen(w.lean(w.elem(t), need))
		return e + " × " + e
	}
	refuse("no Lean reading for the type %s", t)
	return ""
}

func wParen(s string) string {
	if strings.ContainsAny(s, " ") && !(strings.HasPrefix(s, "(") && strings.HasSuffix(s, ")")) {
		return "(" + s + ")"
	}
	return s
}

// structDecls renders the Lean structures for the struct types in need (and what they need), in
// dependency order
func (w *wworld) structDecls(need map[string]bool, skip map[string]bool) (string, []string) {
	var order []string
	done := map[string]bool{}
	var visit func(t string)
	visit = func(t string) {
		if done[t] {
			return
		}
		done[t] = true
		fs, _ := w.structOf(t)
		sub := map[string]bool{}
		for _, f := range fs {
			w.lean(f.typ, sub)
		}
		var ks []string
		for k := range sub {
			ks = append(ks, k)
		}
		sort.Strings(ks)
		for _, k := range ks {
			visit(k)
		}
		order = append(order, t)
	}
	var ks []string
	for k := range need {
		ks = append(ks, k)
	}
	sort.Strings(ks)
	for _, k := range ks {
		visit(k)
	}
	b := strings.Builder{}
	var emitted []string
	for _, t := range order {
		if skip[t] {
			continue
		}
		emitted = append(emitted, t)
		fs, _ := w.structOf(t)
		fmt.Fprintf(&b, "/-- the Go struct `%s` -/\nstructure %s where\n", t, wStructName(t))
		for _, f := range fs {
			fmt.Fprintf(&b, "  /-- `%s` -/\n  %s : %s\n", f.typ, f.name, w.lean(f.typ, nil))
		}
		b.WriteString("\n")
	}
	return b.String(), emitted
}
