package main

// Statements of the seqio WRITER translator (see gwriter.go).

import (
	"fmt"
	"go/ast"
	"go/printer"
	"go/token"
	"strings"
)

// assignedIn: the variables of the enclosing scopes that the statements assign (syntactically)
func (c *wctx) assignedIn(list []ast.Stmt) []string {
	set := map[string]bool{}
	root := func(e ast.Expr) string {
		for {
			switch v := e.(type) {
			case *ast.Ident:
				return v.Name
			case *ast.SelectorExpr:
				e = v.X
			case *ast.IndexExpr:
				e = v.X
			case *ast.ParenExpr:
				e = v.X
			case *ast.StarExpr:
				e = v.X
			default:
				return ""
			}
		}
	}
	for _, s := range list {
		ast.Inspect(s, func(n ast.Node) bool {
			switch v := n.(type) {
			case *ast.FuncLit:
				return false
			case *ast.AssignStmt:
				if v.Tok == token.DEFINE {
					return true
				}
				for _, l := range v.Lhs {
					if r := root(l); r != "" {
						set[r] = true
					}
				}
			case *ast.IncDecStmt:
				if r := root(v.X); r != "" {
					set[r] = true
				}
			case *ast.CallExpr:
				// builder methods and X.WriteTo(&b)
				if sel, ok := v.Fun.(*ast.SelectorExpr); ok {
					if id, ok := sel.X.(*ast.Ident); ok {
						if vr := c.vars[id.Name]; vr != nil && vr.builder && sel.Sel.Name != "String" {
							set[id.Name] = true
						}
					}
					if sel.Sel.Name == "WriteTo" && len(v.Args) == 1 {
						if u, ok := v.Args[0].(*ast.UnaryExpr); ok && u.Op == token.AND {
							if r := root(u.X); r != "" {
								set[r] = true
							}
						}
					}
				}
			}
			return true
		})
	}
	var out []string
	for _, n := range c.order {
		if set[n] && c.vars[n] != nil {
			out = append(out, n)
		}
	}
	return out
}

// declaredIn: refuse a `:=` / range variable inside the statements that shadows a variable in scope
func (c *wctx) checkShadow(id *ast.Ident) {
	if id.Name == "_" {
		return
	}
	if _, ok := c.vars[id.Name]; ok {
		refuse("%s: %s is declared again in an inner scope (shadowing is outside the subset)", c.at(id), id.Name)
	}
	switch id.Name {
	case "len", "append", "make", "string", "nil", "true", "false", "fmt", "strings", "strconv", "wrap", "gts", "io", "time", "pars":
		refuse("%s: the local variable %s shadows a name the translator reads literally", c.at(id), id.Name)
	}
	if _, ok := c.f.p.funcs[id.Name]; ok {
		refuse("%s: the local variable %s shadows a function of the package", c.at(id), id.Name)
	}
	if _, ok := c.f.p.consts[id.Name]; ok {
		refuse("%s: the local variable %s shadows a constant of the package", c.at(id), id.Name)
	}
}

func (c *wctx) tuplePat(js []string) string {
	switch len(js) {
	case 0:
		return "_"
	case 1:
		return wname(js[0])
	}
	var ns []string
	for _, j := range js {
		ns = append(ns, wname(j))
	}
	return "(" + strings.Join(ns, ", ") + ")"
}

func (c *wctx) tupleVal(js []string) string {
	if len(js) == 0 {
		return "()"
	}
	return c.tuplePat(js)
}

func (c *wctx) tupleType(js []string) string {
	if len(js) == 0 {
		return "Unit"
	}
	var ts []string
	for _, j := range js {
		ts = append(ts, wParen(c.lean(c.vars[j].typ)))
	}
	return strings.Join(ts, " × ")
}

// scoped translates an inner region first as pure text, then — when it needs a checked operation — in Option
func (c *wctx) scoped(gen func(in *wctx) string) (string, bool) {
	snap := c.f.snapshot()
	var text string
	in := c.clone()
	in.eff = false
	if wCatch(func() { text = gen(in) }) {
		return text, false
	}
	c.f.restore(snap)
	if !c.eff {
		panic(wNeedEffect{})
	}
	in = c.clone()
	in.eff = true
	return gen(in), true
}

// join: a region whose value is the tuple of the variables js, then the rest
func (c *wctx) join(js []string, gen func(in *wctx, done func(in *wctx) string) string, next func(c *wctx) string) string {
	for _, j := range js {
		c.marks[j] = true
	}
	text, eff := c.scoped(func(in *wctx) string {
		return gen(in, func(in2 *wctx) string {
			for _, j := range js {
				if in2.vars[j] != c.vars[j] && in2.vars[j].typ != c.vars[j].typ {
					refuse("internal: %s changes its type", j)
				}
			}
			if in2.eff {
				return "some " + c.tupleVal(js)
			}
			return c.tupleVal(js)
		})
	})
	if eff {
		return fmt.Sprintf("(%s).bind fun %s =>\n%s", text, c.tuplePat(js), next(c))
	}
	return fmt.Sprintf("let %s : %s := %s;\n%s", c.tuplePat(js), c.tupleType(js), text, next(c))
}

func (c *wctx) stmts(list []ast.Stmt, k func(c *wctx) string) string {
	if len(list) == 0 {
		return k(c)
	}
	if c.f.stmtExt != nil {
		if text, ok := c.f.stmtExt(c, list, k); ok {
			return text
		}
	}
	s, rest := list[0], list[1:]
	next := func(c *wctx) string { return c.stmts(rest, k) }
	switch s := s.(type) {
	case *ast.ReturnStmt:
		if len(rest) != 0 {
			refuse("%s: statements behind a return", c.at(s))
		}
		if c.ret == nil {
			refuse("%s: return inside a loop", c.at(s))
		}
		var pre []wbind
		var vals []wval
		if len(s.Results) == 1 {
			v := c.exprN(s.Results[0], &pre)
			if v.multi != nil {
				refuse("%s: return of a multi-valued call", c.at(s))
			}
			vals = []wval{v}
		} else {
			for _, r := range s.Results {
				vals = append(vals, c.expr(r, &pre))
			}
		}
		return wwrap(pre, c.ret(c, vals))
	case *ast.AssignStmt:
		return c.assign(s, next)
	case *ast.ExprStmt:
		return c.exprStmt(s, next)
	case *ast.IfStmt:
		return c.ifStmt(s, next)
	case *ast.SwitchStmt:
		return c.switchStmt(s, next)
	case *ast.RangeStmt:
		return c.rangeStmt(s, next)
	case *ast.BlockStmt:
		if wReturns(s.List) {
			refuse("%s: a block with a return", c.at(s))
		}
		js := c.assignedIn(s.List)
		return c.join(js, func(in *wctx, done func(*wctx) string) string { return "(" + in.stmts(s.List, done) + ")" }, next)
	}
	refuse("%s: statement outside the subset", c.at(s))
	return ""
}

// ---- assignments -----------------------------------------------------------------------------------------

func (c *wctx) assign(s *ast.AssignStmt, next func(c *wctx) string) string {
	w := c.f.m.w
	var pre []wbind
	define := s.Tok == token.DEFINE
	if s.Tok != token.DEFINE && s.Tok != token.ASSIGN {
		// x op= e
		if len(s.Lhs) != 1 || len(s.Rhs) != 1 {
			refuse("%s: assignment outside the subset", c.at(s))
		}
		op, ok := map[token.Token]token.Token{token.ADD_ASSIGN: token.ADD, token.SUB_ASSIGN: token.SUB}[s.Tok]
		if !ok {
			refuse("%s: assignment operator %s", c.at(s), s.Tok)
		}
		return c.assign(&ast.AssignStmt{Lhs: s.Lhs, Tok: token.ASSIGN, TokPos: s.TokPos,
			Rhs: []ast.Expr{&ast.BinaryExpr{X: s.Lhs[0], Op: op, OpPos: s.TokPos, Y: s.Rhs[0]}}}, next)
	}
	// the values
	var vals []wval
	switch {
	case len(s.Rhs) == 1 && len(s.Lhs) == 2:
		// v, ok := m[k]  |  v, ok := x.(T)  |  a, b := f()
		switch r := s.Rhs[0].(type) {
		case *ast.IndexExpr:
			m := c.expr(r.X, &pre)
			if w.base(m.typ) != "map[string]string" {
				refuse("%s: comma-ok index on a %s", c.at(s), m.typ)
			}
			k := c.expr(r.Index, &pre)
			if c.kind(k.typ) != "string" {
				refuse("%s: map key of type %s", c.at(s), k.typ)
			}
			g := fmt.Sprintf("(wsMapGet %s %s)", m.expr, k.expr)
			vals = []wval{{typ: "string", expr: "(" + g + ".getD [])"}, {typ: "bool", expr: g + ".isSome"}}
		case *ast.TypeAssertExpr:
			x := c.expr(r.X, &pre)
			if r.Type == nil || c.kind(x.typ) != "region" || w.typ(c.f.p, r.Type) != "gts.Segment" {
				refuse("%s: type assertion outside the subset (a gts.Region tested for gts.Segment)", c.at(s))
			}
			vals = []wval{{typ: "gts.Segment", expr: "((" + x.expr + ").getD ((0 : Int), (0 : Int)))"}, {typ: "bool", expr: "(" + x.expr + ").isSome"}}
		case *ast.CallExpr:
			v := c.exprN(r, &pre)
			if len(v.multi) != 2 {
				refuse("%s: two variables are assigned from a call with one result", c.at(s))
			}
			t := c.tmp("r")
			return wwrap(pre, fmt.Sprintf("let %s := %s;\n", t, v.expr)+
				c.assignVals(s, define, []wval{{typ: v.multi[0], expr: t + ".1"}, {typ: v.multi[1], expr: t + ".2"}}, next))
		default:
			refuse("%s: assignment outside the subset", c.at(s))
		}
	case len(s.Rhs) == len(s.Lhs):
		for _, r := range s.Rhs {
			vals = append(vals, wScalar(c.expr(r, &pre)))
		}
	default:
		refuse("%s: assignment outside the subset", c.at(s))
	}
	return wwrap(pre, c.assignVals(s, define, vals, next))
}

func (c *wctx) assignVals(s *ast.AssignStmt, define bool, vals []wval, next func(c *wctx) string) string {
	w := c.f.m.w
	// plain variables on the left: one (tuple) let
	allIdent := true
	for _, l := range s.Lhs {
		if _, ok := l.(*ast.Ident); !ok {
			allIdent = false
		}
	}
	if allIdent {
		var pats, exprs, types []string
		anyNew := false
		for i, l := range s.Lhs {
			id := l.(*ast.Ident)
			v := vals[i]
			if id.Name == "_" {
				pats, exprs, types = append(pats, "_"), append(exprs, v.expr), append(types, wParen(c.lean(v.typ)))
				continue
			}
			old, exists := c.vars[id.Name]
			inThisScope := false
			if exists {
				// declared in this very block?  (c.order of the enclosing scopes is a prefix: a variable is of this
				// block when the enclosing context does not know it — tracked through `own`)
				inThisScope = c.own(id.Name)
			}
			var typ string
			switch {
			case define && (!exists || !inThisScope):
				c.checkShadow(id)
				anyNew = true
				typ = v.typ
				if v.typ == "nil" {
					refuse("%s: nil without a type", c.at(s))
				}
				nv := c.declare(id.Name, typ)
				c.ownSet(id.Name)
				c.noteFresh(nv, s.Rhs, i)
			case exists:
				typ = old.typ
				c.marks[id.Name] = true
				if old.builder {
					refuse("%s: a strings.Builder is assigned", c.at(s))
				}
				old2 := *old
				c.vars[id.Name] = &old2
				c.noteFresh(c.vars[id.Name], s.Rhs, i)
			default:
				refuse("%s: assignment to the unknown variable %s", c.at(s), id.Name)
			}
			pats = append(pats, wname(id.Name))
			exprs = append(exprs, c.convertTo(v, typ, s))
			types = append(types, wParen(c.lean(typ)))
		}
		if define && !anyNew {
			refuse("%s: := without a new variable", c.at(s))
		}
		// strings.Builder{}
		if len(s.Lhs) == 1 {
			return fmt.Sprintf("let %s : %s := %s;\n%s", pats[0], strings.Join(types, " × "), exprs[0], next(c))
		}
		return fmt.Sprintf("let (%s) : %s := (%s);\n%s", strings.Join(pats, ", "), strings.Join(types, " × "), strings.Join(exprs, ", "), next(c))
	}
	if define || len(s.Lhs) != 1 {
		refuse("%s: assignment outside the subset", c.at(s))
	}
	v := vals[0]
	switch l := s.Lhs[0].(type) {
	case *ast.SelectorExpr:
		// x.F = v   |   x[i].F = v
		switch base := l.X.(type) {
		case *ast.Ident:
			vr := c.vars[base.Name]
			if vr == nil {
				refuse("%s: assignment to a field of %s", c.at(s), base.Name)
			}
			c.marks[base.Name] = true
			ft := c.fieldType(vr.typ, l.Sel.Name, s)
			return fmt.Sprintf("let %s : %s := { %s with %s := %s };\n%s", wname(base.Name), c.lean(vr.typ), wname(base.Name), l.Sel.Name,
				c.convertTo(v, ft, s), next(c))
		case *ast.IndexExpr:
			id, ok := base.X.(*ast.Ident)
			if !ok || c.vars[id.Name] == nil || !c.vars[id.Name].fresh {
				refuse("%s: a store through a slice that was not made in this function", c.at(s))
			}
			vr := c.vars[id.Name]
			c.marks[id.Name] = true
			var pre []wbind
			i := c.intExpr(base.Index, &pre)
			et := w.elem(vr.typ)
			ft := c.fieldType(et, l.Sel.Name, s)
			cell := c.bind(&pre, fmt.Sprintf("wsIdx %s %s", wname(id.Name), i), "x")
			upd := fmt.Sprintf("wsSet %s %s { %s with %s := %s }", wname(id.Name), i, cell, l.Sel.Name, c.convertTo(v, ft, s))
			pre = append(pre, wbind{wname(id.Name), upd})
			return wwrap(pre, next(c))
		}
	case *ast.IndexExpr:
		id, ok := l.X.(*ast.Ident)
		if !ok || c.vars[id.Name] == nil || !c.vars[id.Name].fresh {
			refuse("%s: a store through a slice that was not made in this function", c.at(s))
		}
		vr := c.vars[id.Name]
		c.marks[id.Name] = true
		var pre []wbind
		i := c.intExpr(l.Index, &pre)
		if !c.eff {
			panic(wNeedEffect{})
		}
		pre = append(pre, wbind{wname(id.Name), fmt.Sprintf("wsSet %s %s %s", wname(id.Name), i, c.convertTo(v, w.elem(vr.typ), s))})
		return wwrap(pre, next(c))
	}
	refuse("%s: assignment outside the subset", c.at(s))
	return ""
}

func (c *wctx) fieldType(t, field string, n ast.Node) string {
	fs, ok := c.f.m.w.structOf(strings.TrimPrefix(t, "*"))
	if !ok {
		refuse("%s: field %s of a %s", c.at(n), field, t)
	}
	for _, f := range fs {
		if f.name == field {
			return f.typ
		}
	}
	refuse("%s: the type %s has no field %s", c.at(n), t, field)
	return ""
}

// noteFresh: `x := []T{}`, `x := make(…)`, `x = append(x, …)` keep / make x a slice of this function;
// `b := strings.Builder{}` makes a builder
func (c *wctx) noteFresh(v *wvar, rhs []ast.Expr, i int) {
	if len(rhs) <= i {
		v.fresh = false
		return
	}
	switch r := rhs[i].(type) {
	case *ast.CompositeLit:
		v.fresh = c.kind(v.typ) == "slice"
	case *ast.CallExpr:
		f := exprString(r.Fun)
		v.fresh = f == "make" || f == "append"
	default:
		v.fresh = false
	}
}

// own / ownSet: the variables declared in the block this context translates
func (c *wctx) own(name string) bool { return c.owned[name] }
func (c *wctx) ownSet(name string) {
	if c.owned == nil {
		c.owned = map[string]bool{}
	}
	c.owned[name] = true
}

// ---- expression statements ---------------------------------------------------------------------------------

func (c *wctx) exprStmt(s *ast.ExprStmt, next func(c *wctx) string) string {
	call, ok := s.X.(*ast.CallExpr)
	if !ok {
		refuse("%s: statement outside the subset", c.at(s))
	}
	sel, ok := call.Fun.(*ast.SelectorExpr)
	if !ok {
		refuse("%s: statement outside the subset", c.at(s))
	}
	var pre []wbind
	app := func(b, what string) string {
		c.marks[b] = true
		return wwrap(pre, fmt.Sprintf("let %s : List UInt8 := %s ++ %s;\n%s", wname(b), wname(b), what, next(c)))
	}
	if id, ok := sel.X.(*ast.Ident); ok {
		if v := c.vars[id.Name]; v != nil && v.builder {
			if len(call.Args) != 1 {
				refuse("%s: builder call outside the subset", c.at(s))
			}
			a := c.expr(call.Args[0], &pre)
			switch sel.Sel.Name {
			case "WriteString":
				if c.kind(a.typ) != "string" {
					refuse("%s: WriteString of a %s", c.at(s), a.typ)
				}
				return app(id.Name, a.expr)
			case "WriteByte":
				if c.kind(a.typ) != "byte" {
					refuse("%s: WriteByte of a %s", c.at(s), a.typ)
				}
				return app(id.Name, "["+a.expr+"]")
			}
			refuse("%s: builder method %s outside the subset", c.at(s), sel.Sel.Name)
		}
	}
	// X.WriteTo(&b)
	if sel.Sel.Name == "WriteTo" && len(call.Args) == 1 {
		if u, ok := call.Args[0].(*ast.UnaryExpr); ok && u.Op == token.AND {
			if id, ok := u.X.(*ast.Ident); ok {
				if v := c.vars[id.Name]; v != nil && v.builder {
					r := c.expr(sel.X, &pre)
					t := strings.TrimPrefix(r.typ, "*")
					p, _, ok := c.f.m.w.named(t)
					if !ok {
						refuse("%s: WriteTo of a %s", c.at(s), r.typ)
					}
					c.f.m.checkWriteTo(p, wStructName(t))
					sv := c.callKey(p, wStructName(t)+".String", []wval{r}, s, &pre)
					return app(id.Name, sv.expr)
				}
			}
		}
	}
	refuse("%s: statement outside the subset", c.at(s))
	return ""
}

// ---- if / switch ------------------------------------------------------------------------------------------------

func (c *wctx) ifStmt(s *ast.IfStmt, next func(c *wctx) string) string {
	var elseList []ast.Stmt
	switch e := s.Else.(type) {
	case nil:
	case *ast.BlockStmt:
		elseList = e.List
	case *ast.IfStmt:
		elseList = []ast.Stmt{e}
	}
	bodyT := wTerminates(s.Body.List)
	elseT := s.Else != nil && wTerminates(elseList)
	anyRet := wReturns(s.Body.List) || wReturns(elseList)
	switch {
	case !anyRet:
		// join
		all := append(append([]ast.Stmt{}, s.Body.List...), elseList...)
		js := c.assignedIn(all)
		return c.join(js, func(in *wctx, done func(*wctx) string) string {
			var initList []ast.Stmt
			if s.Init != nil {
				initList = []ast.Stmt{s.Init}
			}
			return "(" + in.stmts(initList, func(in *wctx) string {
				var pre []wbind
				cond := wAsProp(in.expr(s.Cond, &pre))
				th := in.clone().stmts(s.Body.List, done)
				el := in.clone().stmts(elseList, done)
				return wwrap(pre, fmt.Sprintf("if %s then\n(%s)\nelse\n(%s)", cond, th, el))
			}) + ")"
		}, next)
	case bodyT && (s.Else == nil || elseT):
		in := c.clone()
		var initList []ast.Stmt
		if s.Init != nil {
			initList = []ast.Stmt{s.Init}
		}
		return in.stmts(initList, func(in *wctx) string {
			var pre []wbind
			cond := wAsProp(in.expr(s.Cond, &pre))
			th := in.clone().stmts(s.Body.List, func(*wctx) string { refuse("%s: internal", c.at(s)); return "" })
			var el string
			if s.Else == nil {
				// the init variables go out of scope: the rest is translated in the outer context
				el = next(c)
			} else {
				el = in.clone().stmts(elseList, func(*wctx) string { refuse("%s: internal", c.at(s)); return "" })
			}
			return wwrap(pre, fmt.Sprintf("if %s then\n(%s)\nelse\n(%s)", cond, th, el))
		})
	}
	refuse("%s: an if of which some paths return and others go on", c.at(s))
	return ""
}

func (c *wctx) switchStmt(s *ast.SwitchStmt, next func(c *wctx) string) string {
	var clauses []*ast.CaseClause
	var def *ast.CaseClause
	for _, cl := range s.Body.List {
		cc := cl.(*ast.CaseClause)
		for _, st := range cc.Body {
			if br, ok := st.(*ast.BranchStmt); ok {
				refuse("%s: %s in a switch", c.at(br), br.Tok)
			}
		}
		if cc.List == nil {
			if def != nil {
				refuse("%s: two default clauses", c.at(cc))
			}
			def = cc
			continue
		}
		clauses = append(clauses, cc)
	}
	nT, nR := 0, 0
	var all []ast.Stmt
	bodies := clauses
	if def != nil {
		bodies = append(append([]*ast.CaseClause{}, clauses...), def)
	}
	for _, cc := range bodies {
		if wTerminates(cc.Body) {
			nT++
		}
		if wReturns(cc.Body) {
			nR++
		}
		all = append(all, cc.Body...)
	}
	var initList []ast.Stmt
	if s.Init != nil {
		initList = []ast.Stmt{s.Init}
	}
	// the chain of tests
	chain := func(in *wctx, leaf func(in *wctx, body []ast.Stmt) string, noMatch func(in *wctx) string) string {
		return in.stmts(initList, func(in *wctx) string {
			var pre []wbind
			tag := wval{}
			head := ""
			if s.Tag != nil {
				tag = wScalar(in.expr(s.Tag, &pre))
				t := in.tmp("tag")
				head = fmt.Sprintf("let %s : %s := %s;\n", t, in.lean(tag.typ), tag.expr)
				tag.expr = t
			}
			var build func(i int) string
			build = func(i int) string {
				if i == len(clauses) {
					if def != nil {
						return leaf(in.clone(), def.Body)
					}
					return noMatch(in)
				}
				var conds []string
				for _, e := range clauses[i].List {
					var p2 []wbind
					v := in.expr(e, &p2)
					if len(p2) > 0 {
						refuse("%s: a checked operation in a case expression", in.at(e))
					}
					if s.Tag != nil {
						if !v.lit && in.f.m.w.base(v.typ) != in.f.m.w.base(tag.typ) {
							refuse("%s: case of type %s for a tag of type %s", in.at(e), v.typ, tag.typ)
						}
						switch in.kind(tag.typ) {
						case "int", "string", "byte":
						default:
							refuse("%s: switch on a %s", in.at(e), tag.typ)
						}
						conds = append(conds, "("+tag.expr+" = "+v.expr+")")
					} else {
						conds = append(conds, wAsProp(v))
					}
				}
				cond := conds[0]
				if len(conds) > 1 {
					cond = "(" + strings.Join(conds, " ∨ ") + ")"
				}
				return fmt.Sprintf("if %s then\n(%s)\nelse\n(%s)", cond, leaf(in.clone(), clauses[i].Body), build(i+1))
			}
			return wwrap(pre, head+build(0))
		})
	}
	switch {
	case nR == 0:
		js := c.assignedIn(all)
		return c.join(js, func(in *wctx, done func(*wctx) string) string {
			return "(" + chain(in, func(in *wctx, body []ast.Stmt) string { return in.stmts(body, done) }, done) + ")"
		}, next)
	case nT == len(bodies):
		return chain(c.clone(), func(in *wctx, body []ast.Stmt) string {
			return in.stmts(body, func(*wctx) string { refuse("%s: internal", c.at(s)); return "" })
		}, func(*wctx) string { return next(c) })
	}
	refuse("%s: a switch of which some clauses return and others go on", c.at(s))
	return ""
}

// ---- range loops -----------------------------------------------------------------------------------------------

func (c *wctx) rangeStmt(s *ast.RangeStmt, next func(c *wctx) string) string {
	w := c.f.m.w
	if s.Tok != token.DEFINE {
		refuse("%s: a range loop that does not declare its variables", c.at(s))
	}
	if wReturns(s.Body.List) {
		refuse("%s: a return inside a loop", c.at(s))
	}
	ast.Inspect(s.Body, func(n ast.Node) bool {
		switch v := n.(type) {
		case *ast.BranchStmt:
			refuse("%s: %s inside a loop", c.at(v), v.Tok)
		case *ast.ForStmt:
			refuse("%s: a three-clause for loop", c.at(v))
		}
		return true
	})
	var pre []wbind
	xs := c.expr(s.X, &pre)
	if c.kind(xs.typ) != "slice" {
		refuse("%s: range over a %s", c.at(s), xs.typ)
	}
	et := w.elem(xs.typ)
	key, val := "_", "_"
	if s.Key != nil {
		key = s.Key.(*ast.Ident).Name
	}
	if s.Value != nil {
		val = s.Value.(*ast.Ident).Name
	}
	state := c.assignedIn(s.Body.List)
	live := false
	if id, ok := s.X.(*ast.Ident); ok {
		for _, st := range state {
			if st == id.Name {
				if val != "_" {
					refuse("%s: the loop assigns the slice it ranges over", c.at(s))
				}
				live = true
			}
		}
	}
	_ = live
	c.f.nloop++
	helper := c.f.base + "Loop"
	if c.f.nloop > 1 {
		helper += fmt.Sprint(c.f.nloop)
	}
	for _, st := range state {
		c.marks[st] = true
	}
	// the body, in a scope of its own, with its own free-variable set
	var body string
	var free []string
	var usedSpecials map[string]bool
	gen := func(eff bool) {
		in := c.clone()
		in.eff = eff
		in.ret = nil
		in.marks = map[string]bool{}
		in.owned = nil
		savedUsed := c.f.used
		c.f.used = map[string]bool{}
		if key != "_" {
			in.checkShadow(s.Key.(*ast.Ident))
			in.declare(key, "int")
		}
		if val != "_" {
			in.checkShadow(s.Value.(*ast.Ident))
			in.declare(val, et)
		}
		body = in.stmts(s.Body.List, func(in2 *wctx) string {
			// the recursive call
			call := helper + " §FREE§ rest_"
			if key != "_" {
				call += " (" + wname(key) + " + 1)"
			}
			for _, st := range state {
				call += " " + wname(st)
			}
			return call
		})
		free = nil
		isState := map[string]bool{}
		for _, st := range state {
			isState[st] = true
		}
		for _, n := range c.order {
			if in.marks[n] && !isState[n] && c.vars[n] != nil && n != key && n != val && c.vars[n].typ != "closure!" {
				free = append(free, n)
			}
		}
		usedSpecials = c.f.used
		c.f.used = savedUsed
		for k := range usedSpecials {
			c.f.used[k] = true
		}
		for k := range in.marks {
			c.marks[k] = true
		}
	}
	snap := c.f.snapshot()
	eff := false
	nl := c.f.nloop
	outerUsed := c.f.used
	if !wCatch(func() { gen(false) }) {
		c.f.used = outerUsed
		c.f.restore(snap)
		c.f.nloop = nl
		if !c.eff {
			panic(wNeedEffect{})
		}
		eff = true
		gen(true)
	}
	// the helper
	var binders, passFree []string
	for _, sp := range wSpecials {
		if usedSpecials[sp.name] {
			binders = append(binders, sp.binder)
			passFree = append(passFree, sp.name)
		}
	}
	for _, n := range free {
		binders = append(binders, fmt.Sprintf("(%s : %s)", wname(n), c.lean(c.vars[n].typ)))
		passFree = append(passFree, wname(n))
	}
	body = strings.ReplaceAll(body, " §FREE§", wJoinLead(passFree))
	var argTypes, nilPat, consPat []string
	argTypes = append(argTypes, "List "+wParen(c.lean(et)))
	nilPat = append(nilPat, "[]")
	vn := wname(val)
	if val == "_" {
		vn = "_"
	}
	consPat = append(consPat, vn+" :: rest_")
	if key != "_" {
		argTypes = append(argTypes, "Int")
		nilPat = append(nilPat, wname(key))
		consPat = append(consPat, wname(key))
	}
	for _, st := range state {
		argTypes = append(argTypes, wParen(c.lean(c.vars[st].typ)))
		nilPat = append(nilPat, wname(st))
		consPat = append(consPat, wname(st))
	}
	rt := c.tupleType(state)
	done := c.tupleVal(state)
	if eff {
		rt = "Option " + wParen(rt)
		done = "some " + done
	}
	var stNames []string
	for _, st := range state {
		stNames = append(stNames, st)
	}
	vars := key + ", " + val
	if s.Value == nil {
		vars = key
	}
	doc := fmt.Sprintf("/-- %s: the loop `for %s := range %s`, a recursion over the slice; loop state (%s) -/", c.f.what, vars,
		leanCommentBare(c.src(s.X)), strings.Join(stNames, ", "))
	h := fmt.Sprintf("%s\ndef %s%s : %s → %s\n  | %s => %s\n  | %s =>\n%s\n", doc, helper, wJoinLead(binders), strings.Join(argTypes, " → "), rt,
		strings.Join(nilPat, ", "), done, strings.Join(consPat, ", "), wIndent(wIndent(body)))
	c.f.helpers = append(c.f.helpers, h)
	// the call
	call := helper + wJoinLead(passFree) + " " + xs.expr
	if key != "_" {
		call += " (0 : Int)"
	}
	for _, st := range state {
		call += " " + wname(st)
	}
	if eff {
		return wwrap(pre, fmt.Sprintf("(%s).bind fun %s =>\n%s", call, c.tuplePat(state), next(c)))
	}
	return wwrap(pre, fmt.Sprintf("let %s : %s := %s;\n%s", c.tuplePat(state), c.tupleType(state), call, next(c)))
}

// src: the Go text of a node on one line
func (c *wctx) src(n ast.Node) string {
	b := strings.Builder{}
	if err := printer.Fprint(&b, c.f.p.fset, n); err != nil {
		return exprString(n.(ast.Expr))
	}
	return strings.Join(strings.Fields(b.String()), " ")
}

func wJoinLead(xs []string) string {
	if len(xs) == 0 {
		return ""
	}
	return " " + strings.Join(xs, " ")
}

func leanCommentBare(s string) string {
	return strings.NewReplacer("-/", "- /", "/-", "/ -", "`", "'").Replace(s)
}
