package main

// Generator for the RECURSIVE location methods (DESIGN.md 4.1a, second part): for each of
// Expand / Shift / Reverse / Normalize the seven receiver kinds of location.go are put together
// into one structurally recursive Lean function `Gts.Gen.<method> : Loc → … → Loc`.
//
//   - Between / Point / Ranged / Ambiguous: the straight-line translation of arith.go
//     (`betweenExpand`, …) is called.
//   - Joined / Ordered: the method body must have one of two shapes, both checked statement by
//     statement on the AST:
//     MAP   X := make([]Location, len(recv)); for I, L := range recv { X[I] = L.M(params…) };
//     return Join|Order(X...)
//     LOOP  X := make([]Location, len(recv)); for a, b := e1, e2; cond; a, b = e3, e4 {
//     X[i1], X[i2] = recv[j1].M(params…), recv[j2].M(params…) }; return Join|Order(X...)
//     The element-wise call is pure, so LOOP is generated as a fuelled loop over the list
//     `src` of element-wise results: the index arithmetic, the loop condition, the order of the
//     two stores and the step are translated literally (`Joined.Reverse`'s two-pointer swap).
//   - Complemented: `return Complemented{recv.Location.M(params…)}`.
//
// A call `L.M(…)` on a value of the interface type Location is dynamic dispatch on the kind: the
// recursive call of the generated function.  Anything else is refused.

import (
	"fmt"
	"go/ast"
	"go/parser"
	"go/token"
	"path/filepath"
	"strings"
)

var locMethods = []string{"Expand", "Shift", "Reverse", "Normalize"}

type locArm struct {
	ctor string // join | order (composite kinds)
	loop string // "" for MAP; name of the generated loop function for LOOP
}

func findMethod(af *ast.File, recv, name string) *ast.FuncDecl {
	for _, d := range af.Decls {
		fd, ok := d.(*ast.FuncDecl)
		if !ok || fd.Name.Name != name || fd.Recv == nil || len(fd.Recv.List) != 1 {
			continue
		}
		if id, ok := fd.Recv.List[0].Type.(*ast.Ident); ok && id.Name == recv {
			return fd
		}
	}
	return nil
}

func identName(x ast.Expr) string {
	if id, ok := x.(*ast.Ident); ok {
		return id.Name
	}
	return ""
}

// paramNames: the int parameters of a method, in order
func paramNames(fd *ast.FuncDecl) []string {
	var out []string
	for _, p := range fd.Type.Params.List {
		if identName(p.Type) != "int" {
			refuse("%s: parameter type", fd.Name.Name)
		}
		for _, n := range p.Names {
			out = append(out, n.Name)
		}
	}
	return out
}

// isElemCall: x is `<elem>.M(params…)` with exactly the method's own parameters
func isElemCall(x ast.Expr, method string, params []string) (recv ast.Expr, ok bool) {
	c, isCall := x.(*ast.CallExpr)
	if !isCall || len(c.Args) != len(params) {
		return nil, false
	}
	sel, isSel := c.Fun.(*ast.SelectorExpr)
	if !isSel || sel.Sel.Name != method {
		return nil, false
	}
	for i, a := range c.Args {
		if identName(a) != params[i] {
			return nil, false
		}
	}
	return sel.X, true
}

// isMake: `X := make([]Location, len(recv))`
func isMake(s ast.Stmt, recv string) (string, bool) {
	as, ok := s.(*ast.AssignStmt)
	if !ok || as.Tok != token.DEFINE || len(as.Lhs) != 1 || len(as.Rhs) != 1 {
		return "", false
	}
	c, ok := as.Rhs[0].(*ast.CallExpr)
	if !ok || identName(c.Fun) != "make" || len(c.Args) != 2 {
		return "", false
	}
	at, ok := c.Args[0].(*ast.ArrayType)
	if !ok || at.Len != nil || identName(at.Elt) != "Location" {
		return "", false
	}
	lc, ok := c.Args[1].(*ast.CallExpr)
	if !ok || identName(lc.Fun) != "len" || len(lc.Args) != 1 || identName(lc.Args[0]) != recv {
		return "", false
	}
	return identName(as.Lhs[0]), true
}

// isCtorReturn: `return Join(X...)` / `return Order(X...)`
func isCtorReturn(s ast.Stmt, x string) (string, bool) {
	rs, ok := s.(*ast.ReturnStmt)
	if !ok || len(rs.Results) != 1 {
		return "", false
	}
	c, ok := rs.Results[0].(*ast.CallExpr)
	if !ok || !c.Ellipsis.IsValid() || len(c.Args) != 1 || identName(c.Args[0]) != x {
		return "", false
	}
	switch identName(c.Fun) {
	case "Join":
		return "join", true
	case "Order":
		return "order", true
	}
	return "", false
}

// intExpr translates an integer / boolean expression over the loop variables and `len(X)`
func loopExpr(x ast.Expr, vars map[string]bool, arr, recv string) val {
	e := &env{vars: map[string]val{}}
	for v := range vars {
		e.vars[v] = val{typ: "int", expr: v}
	}
	// len(X) and len(recv) are the length of the list
	var rewrite func(x ast.Expr) ast.Expr
	rewrite = func(x ast.Expr) ast.Expr {
		switch n := x.(type) {
		case *ast.CallExpr:
			if identName(n.Fun) == "len" && len(n.Args) == 1 && (identName(n.Args[0]) == arr || identName(n.Args[0]) == recv) {
				return ast.NewIdent("len_")
			}
			refuse("call in a loop expression")
		case *ast.BinaryExpr:
			return &ast.BinaryExpr{X: rewrite(n.X), Op: n.Op, Y: rewrite(n.Y)}
		case *ast.ParenExpr:
			return &ast.ParenExpr{X: rewrite(n.X)}
		case *ast.UnaryExpr:
			return &ast.UnaryExpr{Op: n.Op, X: rewrite(n.X)}
		}
		return x
	}
	e.vars["len_"] = val{typ: "int", expr: "(src.length : Int)"}
	return e.expr(rewrite(x))
}

// compositeArm analyses `func (recv K) M(params…) Location` for K = Joined / Ordered
func compositeArm(fd *ast.FuncDecl, kind, method string, loops *strings.Builder) locArm {
	recv := fd.Recv.List[0].Names[0].Name
	params := paramNames(fd)
	body := fd.Body.List
	if len(body) != 3 {
		refuse("%s.%s: expected make / loop / return", kind, method)
	}
	arr, ok := isMake(body[0], recv)
	if !ok {
		refuse("%s.%s: first statement is not `X := make([]Location, len(%s))`", kind, method, recv)
	}
	ctor, ok := isCtorReturn(body[2], arr)
	if !ok {
		refuse("%s.%s: last statement is not `return Join|Order(%s...)`", kind, method, arr)
	}
	switch loop := body[1].(type) {
	case *ast.RangeStmt:
		// MAP
		idx, elem := identName(loop.Key), identName(loop.Value)
		if loop.Tok != token.DEFINE || idx == "" || elem == "" || identName(loop.X) != recv || len(loop.Body.List) != 1 {
			refuse("%s.%s: range loop shape", kind, method)
		}
		as, ok := loop.Body.List[0].(*ast.AssignStmt)
		if !ok || as.Tok != token.ASSIGN || len(as.Lhs) != 1 || len(as.Rhs) != 1 {
			refuse("%s.%s: range loop body", kind, method)
		}
		ix, ok := as.Lhs[0].(*ast.IndexExpr)
		if !ok || identName(ix.X) != arr || identName(ix.Index) != idx {
			refuse("%s.%s: range loop stores to %v", kind, method, as.Lhs[0])
		}
		r, ok := isElemCall(as.Rhs[0], method, params)
		if !ok || identName(r) != elem {
			refuse("%s.%s: range loop does not store `%s.%s(%s)`", kind, method, elem, method, strings.Join(params, ", "))
		}
		return locArm{ctor: ctor}
	case *ast.ForStmt:
		// LOOP
		init, ok := loop.Init.(*ast.AssignStmt)
		if !ok || init.Tok != token.DEFINE || len(init.Lhs) != len(init.Rhs) || len(init.Lhs) == 0 {
			refuse("%s.%s: for-loop init", kind, method)
		}
		vars := map[string]bool{}
		var names []string
		for _, l := range init.Lhs {
			n := identName(l)
			if n == "" || leanKeywords[n] || n == "src" || n == "fuel" || n == arr {
				refuse("%s.%s: loop variable", kind, method)
			}
			vars[n] = true
			names = append(names, n)
		}
		noVars := map[string]bool{}
		var inits []string
		for _, r := range init.Rhs {
			v := loopExpr(r, noVars, arr, recv)
			if v.typ != "int" {
				refuse("%s.%s: loop init type", kind, method)
			}
			inits = append(inits, v.expr)
		}
		cond := asProp(loopExpr(loop.Cond, vars, arr, recv))
		post, ok := loop.Post.(*ast.AssignStmt)
		if !ok || post.Tok != token.ASSIGN || len(post.Lhs) != len(names) || len(post.Rhs) != len(names) {
			refuse("%s.%s: for-loop post statement", kind, method)
		}
		var steps []string
		for i, l := range post.Lhs {
			if identName(l) != names[i] {
				refuse("%s.%s: for-loop post assigns %v", kind, method, l)
			}
			v := loopExpr(post.Rhs[i], vars, arr, recv)
			if v.typ != "int" {
				refuse("%s.%s: loop step type", kind, method)
			}
			steps = append(steps, v.expr)
		}
		if len(loop.Body.List) != 1 {
			refuse("%s.%s: for-loop body", kind, method)
		}
		as, ok := loop.Body.List[0].(*ast.AssignStmt)
		if !ok || as.Tok != token.ASSIGN || len(as.Lhs) != len(as.Rhs) {
			refuse("%s.%s: for-loop body statement", kind, method)
		}
		var lets []string
		// Go evaluates the index expressions and the right-hand sides first, then stores left to right
		for i, rhs := range as.Rhs {
			r, ok := isElemCall(rhs, method, params)
			if !ok {
				refuse("%s.%s: loop body value", kind, method)
			}
			ix, ok := r.(*ast.IndexExpr)
			if !ok || identName(ix.X) != recv {
				refuse("%s.%s: loop body reads %v", kind, method, r)
			}
			j := loopExpr(ix.Index, vars, arr, recv)
			lets = append(lets, fmt.Sprintf("let v%d_ := src.getD (Int.toNat %s) default", i, j.expr))
		}
		for i, lhs := range as.Lhs {
			ix, ok := lhs.(*ast.IndexExpr)
			if !ok || identName(ix.X) != arr {
				refuse("%s.%s: loop body stores to %v", kind, method, lhs)
			}
			j := loopExpr(ix.Index, vars, arr, recv)
			lets = append(lets, fmt.Sprintf("let k%d_ := Int.toNat %s", i, j.expr))
		}
		for i := range as.Lhs {
			lets = append(lets, fmt.Sprintf("let %s := %s.set k%d_ v%d_", arr, arr, i, i))
		}
		name := strings.ToLower(kind) + method + "Loop"
		ints := strings.Repeat("Int → ", len(names))
		fmt.Fprintf(loops, "/-- location.go `%s.%s`: the loop `for %s := …; %s; …` on the element-wise results `src`\n(`%s[k].%s(…)` is `src[k]`; `%s` is the slice being filled; a read outside `src` would be a Go panic) -/\n",
			kind, method, strings.Join(names, ", "), strings.ReplaceAll(exprString(loop.Cond), "-/", "- /"), recv, method, arr)
		fmt.Fprintf(loops, "def %s (src : List Gts.Loc) : Nat → %sList Gts.Loc → List Gts.Loc\n", name, ints)
		us := strings.Repeat("_, ", len(names))
		fmt.Fprintf(loops, "  | 0, %s%s => %s\n", us, arr, arr)
		fmt.Fprintf(loops, "  | fuel + 1, %s, %s =>\n    if %s then\n      %s\n      %s src fuel %s %s\n    else %s\n\n",
			strings.Join(names, ", "), arr, cond, strings.Join(lets, "\n      "), name, strings.Join(steps, " "), arr, arr)
		call := fmt.Sprintf("(%s src (src.length + 1) %s (List.replicate src.length default))", name, strings.Join(inits, " "))
		return locArm{ctor: ctor, loop: call}
	}
	refuse("%s.%s: second statement is neither a range loop nor a for loop", kind, method)
	return locArm{}
}

// complementedArm checks `return Complemented{recv.Location.M(params…)}`
func complementedArm(fd *ast.FuncDecl, method string) {
	recv := fd.Recv.List[0].Names[0].Name
	params := paramNames(fd)
	if len(fd.Body.List) != 1 {
		refuse("Complemented.%s: expected one return statement", method)
	}
	rs, ok := fd.Body.List[0].(*ast.ReturnStmt)
	if !ok || len(rs.Results) != 1 {
		refuse("Complemented.%s: expected one return statement", method)
	}
	cl, ok := rs.Results[0].(*ast.CompositeLit)
	if !ok || identName(cl.Type) != "Complemented" || len(cl.Elts) != 1 {
		refuse("Complemented.%s: does not return Complemented{…}", method)
	}
	r, ok := isElemCall(cl.Elts[0], method, params)
	if !ok {
		refuse("Complemented.%s: inner call", method)
	}
	sel, ok := r.(*ast.SelectorExpr)
	if !ok || identName(sel.X) != recv || sel.Sel.Name != "Location" {
		refuse("Complemented.%s: inner receiver", method)
	}
}

func genLocRec(repo string) (text string, err error) {
	defer func() {
		if r := recover(); r != nil {
			if rf, ok := r.(refusal); ok {
				err = fmt.Errorf("%s", rf.msg)
				return
			}
			panic(r)
		}
	}()
	fset := token.NewFileSet()
	af, perr := parser.ParseFile(fset, filepath.Join(repo, "location.go"), nil, 0)
	if perr != nil {
		return "", perr
	}
	have := map[string]string{}
	for _, f := range arithFns {
		have[f.recv+"."+f.name] = f.lean
	}
	var loops, defs strings.Builder
	for _, m := range locMethods {
		var params []string
		for _, kind := range []string{"Between", "Point", "Ranged", "Ambiguous", "Joined", "Ordered", "Complemented"} {
			fd := findMethod(af, kind, m)
			if fd == nil {
				refuse("location.go: method %s.%s not found", kind, m)
			}
			p := paramNames(fd)
			if params == nil {
				params = p
			} else if strings.Join(p, ",") != strings.Join(params, ",") {
				refuse("%s.%s: parameter names differ from the other kinds (%v / %v)", kind, m, p, params)
			}
		}
		for i, p := range params {
			if leanKeywords[p] {
				params[i] = p + "_"
			}
		}
		for _, kind := range []string{"Between", "Point", "Ranged", "Ambiguous"} {
			if have[kind+"."+m] == "" {
				refuse("%s.%s is not translated by arith.go", kind, m)
			}
		}
		arms := map[string]locArm{}
		for _, kind := range []string{"Joined", "Ordered"} {
			arms[kind] = compositeArm(findMethod(af, kind, m), kind, m, &loops)
		}
		complementedArm(findMethod(af, "Complemented", m), m)
		fn := strings.ToLower(m)
		ps := strings.Join(params, " ")
		pc := strings.Join(params, ", ")
		ints := strings.Repeat("Int → ", len(params))
		us := strings.TrimSuffix(strings.Repeat("_, ", len(params)), ", ")
		composite := func(kind string) string {
			a := arms[kind]
			list := fmt.Sprintf("(%sList ls %s)", fn, ps)
			if a.loop != "" {
				return fmt.Sprintf("Gts.Loc.%s (let src := %s; %s)", a.ctor, list, a.loop)
			}
			return fmt.Sprintf("Gts.Loc.%s %s", a.ctor, list)
		}
		fmt.Fprintf(&defs, "mutual\n/-- location.go: `Location.%s(%s)` — dynamic dispatch over the seven kinds -/\ndef %s : Gts.Loc → %sGts.Loc\n", m, pc, fn, ints)
		fmt.Fprintf(&defs, "  | .between p, %s => %s p %s\n", pc, have["Between."+m], ps)
		fmt.Fprintf(&defs, "  | .point p, %s => %s p %s\n", pc, have["Point."+m], ps)
		fmt.Fprintf(&defs, "  | .ranged s e p5 p3, %s => %s s e p5 p3 %s\n", pc, have["Ranged."+m], ps)
		fmt.Fprintf(&defs, "  | .ambiguous s e, %s => %s s e %s\n", pc, have["Ambiguous."+m], ps)
		fmt.Fprintf(&defs, "  | .joined ls, %s => %s\n", pc, composite("Joined"))
		fmt.Fprintf(&defs, "  | .ordered ls, %s => %s\n", pc, composite("Ordered"))
		fmt.Fprintf(&defs, "  | .compl l, %s => .compl (%s l %s)\n", pc, fn, ps)
		fmt.Fprintf(&defs, "/-- element-wise `%s` (the loop over the parts of a `Joined` / `Ordered`) -/\ndef %sList : List Gts.Loc → %sList Gts.Loc\n", m, fn, ints)
		fmt.Fprintf(&defs, "  | [], %s => []\n  | l :: ls, %s => %s l %s :: %sList ls %s\nend\n\n", us, pc, fn, ps, fn, ps)
	}
	b := strings.Builder{}
	b.WriteString("/-\n  GENERATED by go2lean (locrec.go) from location.go — do not edit.\n")
	b.WriteString("  `Location.Expand / Shift / Reverse / Normalize` over all seven kinds as structurally recursive\n  functions; contiguous kinds call the straight-line translations of Gts/Gen/Arith.lean.\n-/\n")
	b.WriteString("import Gts.Gen.Arith\nnamespace Gts.Gen\nset_option linter.unusedVariables false\n\n")
	b.WriteString(loops.String())
	b.WriteString(defs.String())
	b.WriteString("end Gts.Gen\n")
	return b.String(), nil
}
