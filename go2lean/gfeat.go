package main

// Translator for feature.go (DESIGN.md 4.1a, sixth part): functions over slices of features, of
// locations and of ints, filters (closures), byte loops over strings, a map used as an index.
// It follows the design of gorigin.go (explicit outcomes, literal loops) on polymorphic lists:
//
//   - `int` is the unbounded `Int`, `string` is `String` (compared, never indexed) or — in the
//     functions that index it (`shiftSelector`, `toQualifier`) — `List UInt8`; `Feature` is the model's
//     structure `Gts.Feature` (its declaration is compared with the expected text), `Location` is
//     `Gts.Loc`, a slice is a `List` (a VALUE: no capacity, no aliasing — see "aliasing" below),
//     `Filter` is `Gts.Feature → Bool`, `LocationList` is the model's reversed accumulator
//     (`Push` = `Gts.Loc.push`, `Slice` = `locationListSlice`), `map[string][]int` is an association
//     list in order of first insertion.
//   - a function is PURE (filters, `Less`: every operation that can panic is refused) or EFFECTFUL:
//     its result is an `Option`, `none` is a Go run-time panic; `p[i]`, `p[a:]`, `p[:b]`, `p[i] = v`,
//     `make`, `copy(q[o:], s)`, `uint(x)` are the checked operations of Gts/Gen/GoList.lean.
//   - `for init; cond; post { body }` is a fuelled helper over the loop state (`| 0 => state`);
//     `for k, v := range xs { body }` is a structurally recursive helper over the list (Go evaluates
//     the range expression once; a body that assigns the ranged variable is refused); every loop
//     starts with the function's `fuel`.  A loop whose body can `return` yields
//     `Flow state result` (`.ret v` for `return v`, `.next st` when the loop ends).  `range` over
//     the map visits `rangeMap_ m`: the order is a PARAMETER (Go leaves it unspecified).
//   - `if` without `return`: the variables it assigns are joined; with a `return` on every path of
//     its body: the rest of the block is the `else` branch; with a `return` on some paths: the rest
//     of the block (loop free, or refused) is translated on both paths.  A condition with a checked
//     operation behind `&&` / `||` is evaluated first, short-circuit, into an `Option Bool`.
//     A tagged `switch` is the chain of `if tag == c` on the tag evaluated once.
//   - closures: a `func` literal is translated where it is returned (filters) or passed to
//     `sort.Search`; it reads the variables of the enclosing function by value (refused elsewhere).
//   - external calls are parameters: the zero `Feature` / nil `Location` that `make` fills in
//     (`zeroFeature_`, `nilLoc_`: the bridges hold for EVERY value, so every cell is overwritten or
//     accounted for), `sort.Sort(Locations(x))` (`sortLocs_`), `sort.Sort(sort.IntSlice(x))`
//     (`sortInts_`), `fmt.Sprintf(format, …)` (`sprintf_ format …`), `Qualifier` (`qualifier_`).
//   - a call with several results (`head, tail := shiftSelector(sel)`) binds the tuple and projects it.  In
//     `Selector` a `Filter` and an `error` are values of the abstract types `φ_` / `Option ε_` (`err != nil` is
//     `err.isSome`, `nil` is `none`), `Key`, `And`, `FalseFilter` and `Qualifier` are parameters.
//   - aliasing: elements are stored only into slices made in the function (`make`); `append` to a
//     parameter or to a slice of a parameter, and a store through a parameter, are refused (they can
//     write into memory of the caller, which a value reading cannot express — that is C11's subject).
//
// Anything else is refused.

import (
	"fmt"
	"go/ast"
	"go/token"
	"sort"
	"strconv"
	"strings"
)

type fval struct {
	typ  string
	expr string
	lit  bool   // untyped integer / character constant
	str  string // typ strlit: the Go string
}

var fLeanType = map[string]string{
	"int": "Int", "uint": "Int", "bool": "Bool", "byte": "UInt8", "str": "String", "bytes": "List UInt8",
	"feat": "Gts.Feature", "feats": "List Gts.Feature", "ints": "List Int", "loc": "Gts.Loc", "locs": "List Gts.Loc",
	"props": "List (List String)", "filter": "Gts.Feature → Bool", "filters": "List (Gts.Feature → Bool)",
	"loclist": "List Gts.Loc", "map": "List (String × List Int)", "qres": "ρ_", "unit": "Unit",
	"entry": "String × List Int", "phi": "φ_", "err": "Option ε_",
}

var fElem = map[string]string{"feats": "feat", "ints": "int", "locs": "loc", "bytes": "byte", "filters": "filter", "map": "entry"}

// the zero value `make` fills a slice with
var fZero = map[string]string{"feats": "zeroFeature_", "locs": "nilLoc_", "ints": "(0 : Int)", "bytes": "(0 : UInt8)"}

type fspecial struct{ name, binder, doc string }

var fSpecials = []fspecial{
	{"fuel", "(fuel : Nat)", "the fuel every `for` loop starts with"},
	{"zeroFeature_", "(zeroFeature_ : Gts.Feature)", "the zero `Feature` of `make`"},
	{"nilLoc_", "(nilLoc_ : Gts.Loc)", "the nil `Location` (of `make` and of the empty `LocationList`)"},
	{"sortLocs_", "(sortLocs_ : List Gts.Loc → List Gts.Loc)", "`sort.Sort(Locations(·))`"},
	{"sortInts_", "(sortInts_ : List Int → List Int)", "`sort.Sort(sort.IntSlice(·))`"},
	{"sprintf_", "(sprintf_ : String → String → List (List String) → String)", "`fmt.Sprintf(format, string, Props)`"},
	{"rangeMap_", "(rangeMap_ : List (String × List Int) → List (String × List Int))", "the order in which `range` visits a map"},
	{"φ_", "{φ_ ε_ : Type}", "the types of a `Filter` and of an `error` (abstract)"},
	{"key_", "(key_ : List UInt8 → φ_)", "`Key(key)`"},
	{"falseFilter_", "(falseFilter_ : φ_)", "`FalseFilter`"},
	{"and_", "(and_ : φ_ → φ_ → φ_)", "`And(a, b)`"},
	{"qualifier_", "{ρ_ : Type} (qualifier_ : List UInt8 → List UInt8 → ρ_)", "`Qualifier(name, query)`"},
}

type fcallee struct {
	lean     string
	params   []string
	result   string
	effect   bool
	specials []string
}

// per generated function
type ffn struct {
	base    string
	what    string
	effect  bool
	strTyp  string    // str | bytes
	helpers []fhelper // in order of completion (a helper is complete after the helpers it calls)
	nloops  int
	ntmp    int
	used    map[string]bool
	known   map[string]fcallee
	consts  map[string]fval
	predTyp string // Lean type of a `func(int) bool` parameter
	// `Filter` and `error` as abstract types (Selector): "phi" / "" ; the binder of qualifier_ there
	filterTyp string
}

type fhelper struct{ name, text string }

type fbind struct{ pat, expr string }

// fsp joins the non-empty parts with one space
func fsp(parts ...string) string {
	var out []string
	for _, p := range parts {
		if p != "" {
			out = append(out, p)
		}
	}
	return strings.Join(out, " ")
}

type fctx struct {
	f      *ffn
	vars   map[string]fval
	seq    map[string]int
	made   map[string]bool // slices made in this function (element stores allowed)
	params map[string]bool // parameter slices and what is sliced from them
	rts    []string
	retK   func(c *fctx, vals string) string
}

var fReserved = map[string]bool{"fuel": true, "rest_": true, "st_": true, "r_": true, "n_": true, "fl_": true, "default": true, "some": true, "none": true,
	"decide": true, "goIdx": true, "goFrom": true, "goTo": true, "goSlice": true, "goSet": true, "goCopy": true, "goCopyAt": true,
	"goMake": true, "goMake3": true, "goUint": true, "goMapGet": true, "goMapSet": true, "Flow": true, "locationListSlice": true,
	"stringsIndexByte": true, "locationLessF": true, "locationWithin": true, "locationOverlap": true, "locCheckStrand": true,
	"strandForward": true, "strandReverse": true, "strandBoth": true, "sortSearch": true, "id": true}

func (c *fctx) clone() *fctx {
	n := &fctx{f: c.f, vars: map[string]fval{}, seq: map[string]int{}, made: map[string]bool{}, params: map[string]bool{}, rts: c.rts, retK: c.retK}
	for k, v := range c.vars {
		n.vars[k] = v
	}
	for k, v := range c.seq {
		n.seq[k] = v
	}
	for k, v := range c.made {
		n.made[k] = v
	}
	for k, v := range c.params {
		n.params[k] = v
	}
	return n
}

func (c *fctx) tmp() string {
	c.f.ntmp++
	return fmt.Sprintf("x%d_", c.f.ntmp)
}

func (c *fctx) use(special string) string {
	c.f.used[special] = true
	return special
}

func fGenerated(name string) bool {
	n := len(name)
	return n >= 2 && name[n-1] == '_' && name[n-2] >= '0' && name[n-2] <= '9'
}

func (c *fctx) declare(name string, v fval) {
	if name == "_" {
		return
	}
	if fReserved[name] || (fGenerated(name) && !strings.HasPrefix(name, "tag")) || strings.HasPrefix(name, c.f.base) {
		refuse("variable name %s is reserved by the generator", name)
	}
	for _, s := range fSpecials {
		if s.name == name {
			refuse("variable name %s is reserved by the generator", name)
		}
	}
	if _, isFn := c.f.known[name]; isFn {
		refuse("variable %s has the name of a translated function", name)
	}
	for _, k := range c.f.known {
		if k.lean == name {
			refuse("variable %s has the name of a generated definition", name)
		}
	}
	if _, shadow := c.vars[name]; shadow {
		refuse("%s is declared twice (shadowing is outside the subset)", name)
	}
	v.expr = name
	c.vars[name] = v
	if _, seen := c.seq[name]; !seen {
		c.seq[name] = len(c.seq)
	}
}

func fleanOf(t string, f *ffn) string {
	if t == "pred" {
		return f.predTyp
	}
	lt, ok := fLeanType[t]
	if !ok {
		refuse("no Lean type for a value of type %s", t)
	}
	return lt
}

func fleanString(s string) string {
	for i := 0; i < len(s); i++ {
		if s[i] < 0x20 || s[i] > 0x7e {
			refuse("string literal %q: only printable ASCII is in the subset", s)
		}
	}
	return "\"" + strings.NewReplacer("\\", "\\\\", "\"", "\\\"").Replace(s) + "\""
}

// ftypeText renders the Go type expressions the translator knows
func ftypeText(x ast.Expr) string {
	switch t := x.(type) {
	case *ast.Ident:
		return t.Name
	case *ast.ArrayType:
		if t.Len == nil {
			return "[]" + ftypeText(t.Elt)
		}
	case *ast.MapType:
		return "map[" + ftypeText(t.Key) + "]" + ftypeText(t.Value)
	case *ast.Ellipsis:
		return "..." + ftypeText(t.Elt)
	case *ast.SelectorExpr:
		return exprString(t)
	case *ast.FuncType:
		var ps, rs []string
		if t.Params != nil {
			for _, p := range t.Params.List {
				n := len(p.Names)
				if n == 0 {
					n = 1
				}
				for i := 0; i < n; i++ {
					ps = append(ps, ftypeText(p.Type))
				}
			}
		}
		if t.Results != nil {
			for _, r := range t.Results.List {
				rs = append(rs, ftypeText(r.Type))
			}
		}
		return "func(" + strings.Join(ps, ",") + ")" + strings.Join(rs, ",")
	}
	return "?"
}

func (f *ffn) typOf(x ast.Expr) string {
	switch t := ftypeText(x); t {
	case "int", "bool", "byte":
		return t
	case "string":
		return f.strTyp
	case "Feature":
		return "feat"
	case "[]Feature", "FeatureSlice":
		return "feats"
	case "[]int":
		return "ints"
	case "Location":
		return "loc"
	case "[]Location", "Locations":
		return "locs"
	case "Props":
		return "props"
	case "Filter":
		if f.filterTyp != "" {
			return f.filterTyp
		}
		return "filter"
	case "error":
		if f.filterTyp != "" {
			return "err"
		}
		refuse("type error")
	case "...Filter", "[]Filter":
		return "filters"
	case "LocationList":
		return "loclist"
	case "map[string][]int":
		return "map"
	case "func(int)bool":
		return "pred"
	default:
		if t2, ok := fTypExt[t]; ok { // gprops.go
			return t2
		}
		refuse("type %s", t)
	}
	return ""
}

func fprop(v fval) string {
	switch v.typ {
	case "prop":
		return v.expr
	case "bool":
		return "(" + v.expr + " = true)"
	}
	refuse("expected a condition, got %s", v.typ)
	return ""
}

func fbool(v fval) string {
	switch v.typ {
	case "prop":
		return "(decide " + v.expr + ")"
	case "bool":
		return v.expr
	}
	refuse("expected a boolean, got %s", v.typ)
	return ""
}

// conv renders v as a value of type t
func (c *fctx) conv(v fval, t string) string {
	if v.typ == "strlit" {
		switch t {
		case "str":
			return fleanString(v.str)
		case "bytes":
			return leanBytes([]byte(v.str))
		}
		refuse("string literal where a %s is expected", t)
	}
	if t == "bool" && v.typ == "prop" {
		return fbool(v)
	}
	if v.lit && v.typ == "int" && t == "byte" {
		return v.expr
	}
	if v.typ == "nil" {
		if t == "err" {
			return "none"
		}
		if z, ok := fNilExt[t]; ok { // gprops.go: a nil slice is the empty list
			return z
		}
		refuse("nil where a %s is expected", t)
	}
	if v.typ != t {
		refuse("a %s where a %s is expected", v.typ, t)
	}
	return v.expr
}

func fwrap(pre []fbind, body string) string {
	for i := len(pre) - 1; i >= 0; i-- {
		body = fmt.Sprintf("(%s).bind fun %s =>\n%s", pre[i].expr, pre[i].pat, body)
	}
	return body
}

func (c *fctx) bind(pre *[]fbind, expr string) string {
	if !c.f.effect {
		refuse("an operation that can panic (%s) in a function translated as pure", expr)
	}
	if pre == nil {
		refuse("an operation that can panic (%s) where only a side-effect free expression is translated", expr)
	}
	name := c.tmp()
	*pre = append(*pre, fbind{name, expr})
	return name
}

func fatom(s string) string {
	if isVarName(s) || strings.HasPrefix(s, "(") && strings.HasSuffix(s, ")") || strings.HasPrefix(s, "[") || strings.HasPrefix(s, "\"") {
		return s
	}
	return "(" + s + ")"
}

// ---- expressions ----------------------------------------------------------------------------------

func (c *fctx) expr(x ast.Expr, pre *[]fbind) fval {
	switch n := x.(type) {
	case *ast.ParenExpr:
		return c.expr(n.X, pre)
	case *ast.BasicLit:
		switch n.Kind {
		case token.INT:
			if _, err := strconv.ParseUint(n.Value, 10, 63); err != nil {
				refuse("integer literal %s", n.Value)
			}
			return fval{typ: "int", expr: n.Value, lit: true}
		case token.CHAR:
			b, ok := byteLiteral(n)
			if !ok {
				refuse("character literal %s", n.Value)
			}
			return fval{typ: "byte", expr: strconv.Itoa(int(b)), lit: true}
		case token.STRING:
			s, ok := stringLiteral(n)
			if !ok {
				refuse("string literal %s", n.Value)
			}
			return fval{typ: "strlit", str: s}
		}
		refuse("literal %s", n.Value)
	case *ast.Ident:
		if v, ok := c.vars[n.Name]; ok {
			return v
		}
		switch n.Name {
		case "true", "false":
			return fval{typ: "bool", expr: n.Name}
		case "nil":
			return fval{typ: "nil"}
		}
		if v, ok := c.f.consts[n.Name]; ok {
			return v
		}
		if n.Name == "FalseFilter" && c.f.filterTyp == "phi" {
			return fval{typ: "phi", expr: c.use("falseFilter_")}
		}
		if k, ok := c.f.known[n.Name]; ok && k.result == "bool" && len(k.params) == 1 && k.params[0] == "feat" && !k.effect {
			// a top-level predicate on features used as a Filter value
			return fval{typ: "filter", expr: k.lean}
		}
		refuse("unknown identifier %s", n.Name)
	case *ast.UnaryExpr:
		switch n.Op {
		case token.SUB:
			v := c.expr(n.X, pre)
			if v.typ != "int" {
				refuse("unary - on a %s", v.typ)
			}
			return fval{typ: "int", expr: "(-" + v.expr + ")", lit: v.lit}
		case token.NOT:
			return fval{typ: "prop", expr: "(¬ " + fprop(c.expr(n.X, pre)) + ")"}
		}
		refuse("unary %s", n.Op)
	case *ast.BinaryExpr:
		return c.binary(n, pre)
	case *ast.SelectorExpr:
		base := c.expr(n.X, pre)
		if base.typ != "feat" {
			refuse("field %s of a %s", n.Sel.Name, base.typ)
		}
		switch n.Sel.Name {
		case "Key":
			return fval{typ: "str", expr: fatom(base.expr) + ".key"}
		case "Loc":
			return fval{typ: "loc", expr: fatom(base.expr) + ".loc"}
		case "Props":
			return fval{typ: "props", expr: fatom(base.expr) + ".props"}
		}
		refuse("field %s of a Feature", n.Sel.Name)
	case *ast.IndexExpr:
		base := c.expr(n.X, pre)
		if base.typ == "map" {
			key := c.conv(c.expr(n.Index, pre), "str")
			return fval{typ: "ints", expr: fmt.Sprintf("(goMapGet %s %s)", base.expr, key)}
		}
		et, ok := fElem[base.typ]
		if !ok || base.typ == "map" {
			refuse("index expression on a %s", base.typ)
		}
		idx := c.conv(c.expr(n.Index, pre), "int")
		return fval{typ: et, expr: c.bind(pre, fmt.Sprintf("goIdx %s %s", fatom(base.expr), fatom(idx)))}
	case *ast.SliceExpr:
		if n.Slice3 {
			refuse("three-index slice")
		}
		base := c.expr(n.X, pre)
		if _, ok := fElem[base.typ]; !ok || base.typ == "map" {
			refuse("slice expression on a %s", base.typ)
		}
		switch {
		case n.Low != nil && n.High != nil:
			lo, hi := c.conv(c.expr(n.Low, pre), "int"), c.conv(c.expr(n.High, pre), "int")
			return fval{typ: base.typ, expr: c.bind(pre, fmt.Sprintf("goSlice %s %s %s", fatom(base.expr), fatom(lo), fatom(hi)))}
		case n.Low != nil:
			lo := c.conv(c.expr(n.Low, pre), "int")
			return fval{typ: base.typ, expr: c.bind(pre, fmt.Sprintf("goFrom %s %s", fatom(base.expr), fatom(lo)))}
		case n.High != nil:
			hi := c.conv(c.expr(n.High, pre), "int")
			return fval{typ: base.typ, expr: c.bind(pre, fmt.Sprintf("goTo %s %s", fatom(base.expr), fatom(hi)))}
		}
		return base
	case *ast.CompositeLit:
		switch ftypeText(n.Type) {
		case "LocationList":
			if len(n.Elts) != 0 {
				refuse("LocationList literal with fields")
			}
			return fval{typ: "loclist", expr: "([] : List Gts.Loc)"}
		case "Feature":
			if len(n.Elts) != 3 {
				refuse("Feature literal")
			}
			var parts []string
			for i, t := range []string{"str", "loc", "props"} {
				if _, kv := n.Elts[i].(*ast.KeyValueExpr); kv {
					refuse("keyed composite literal")
				}
				parts = append(parts, fatom(c.conv(c.expr(n.Elts[i], pre), t)))
			}
			return fval{typ: "feat", expr: "(Gts.Feature.mk " + strings.Join(parts, " ") + ")"}
		}
		if fLitExt != nil { // gprops.go
			if v, ok := fLitExt(c, n, pre); ok {
				return v
			}
		}
		refuse("composite literal of %s", ftypeText(n.Type))
	case *ast.CallExpr:
		return c.call(n, pre)
	case *ast.FuncLit:
		refuse("a func literal that is neither returned nor passed to sort.Search")
	}
	refuse("expression %T", x)
	return fval{}
}

func (c *fctx) binary(n *ast.BinaryExpr, pre *[]fbind) fval {
	switch n.Op {
	case token.LAND, token.LOR:
		l := c.expr(n.X, pre)
		r := c.expr(n.Y, nil) // evaluated only when the left operand does not decide: no effects here (see cond)
		op := map[token.Token]string{token.LAND: "∧", token.LOR: "∨"}[n.Op]
		return fval{typ: "prop", expr: fmt.Sprintf("(%s %s %s)", fprop(l), op, fprop(r))}
	}
	l, r := c.expr(n.X, pre), c.expr(n.Y, pre)
	switch n.Op {
	case token.ADD, token.SUB, token.MUL:
		if l.typ != "int" || r.typ != "int" {
			refuse("arithmetic on %s and %s", l.typ, r.typ)
		}
		return fval{typ: "int", expr: fmt.Sprintf("(%s %s %s)", l.expr, n.Op, r.expr)}
	case token.SHR:
		if l.typ != "uint" || !r.lit || r.typ != "int" {
			refuse("`>>` other than on a uint value by a constant")
		}
		return fval{typ: "uint", expr: fmt.Sprintf("(Int.shiftRight %s %s)", l.expr, r.expr)}
	case token.LSS, token.GTR, token.LEQ, token.GEQ, token.EQL, token.NEQ:
		op := map[token.Token]string{token.LSS: "<", token.GTR: ">", token.LEQ: "≤", token.GEQ: "≥", token.EQL: "=", token.NEQ: "≠"}[n.Op]
		eq := n.Op == token.EQL || n.Op == token.NEQ
		if l.typ == "byte" && r.typ == "int" && r.lit {
			r.typ = "byte"
		}
		if r.typ == "byte" && l.typ == "int" && l.lit {
			l.typ = "byte"
		}
		if l.typ == "strlit" && r.typ != "strlit" {
			l = fval{typ: r.typ, expr: c.conv(l, r.typ)}
		}
		if r.typ == "strlit" && l.typ != "strlit" {
			r = fval{typ: l.typ, expr: c.conv(r, l.typ)}
		}
		switch {
		case eq && l.typ == "err" && r.typ == "nil":
			// `err != nil` / `err == nil`
			return fval{typ: "prop", expr: fmt.Sprintf("(%s.isSome = %v)", fatom(l.expr), n.Op == token.NEQ)}
		case l.typ == "int" && r.typ == "int", l.typ == "byte" && r.typ == "byte":
			return fval{typ: "prop", expr: fmt.Sprintf("(%s %s %s)", l.expr, op, r.expr)}
		case eq && (l.typ == "str" && r.typ == "str" || l.typ == "bytes" && r.typ == "bytes"):
			return fval{typ: "prop", expr: fmt.Sprintf("(%s %s %s)", l.expr, op, r.expr)}
		case eq && (l.typ == "bool" || l.typ == "prop") && (r.typ == "bool" || r.typ == "prop"):
			return fval{typ: "prop", expr: fmt.Sprintf("(%s %s %s)", fbool(l), op, fbool(r))}
		}
		refuse("comparison of %s and %s", l.typ, r.typ)
	}
	refuse("binary %s", n.Op)
	return fval{}
}

// baseVar: the variable an expression reads a slice from
func baseVar(x ast.Expr) string {
	for {
		switch n := x.(type) {
		case *ast.Ident:
			return n.Name
		case *ast.SliceExpr:
			x = n.X
		case *ast.ParenExpr:
			x = n.X
		case *ast.IndexExpr:
			x = n.X
		case *ast.SelectorExpr:
			x = n.X
		default:
			return ""
		}
	}
}

func (c *fctx) closure(lit *ast.FuncLit, params []string, result string) string {
	if lit.Type.Params == nil || lit.Type.Results == nil || len(lit.Type.Results.List) != 1 {
		refuse("func literal: signature")
	}
	en := c.clone()
	var binders []string
	k := 0
	for _, p := range lit.Type.Params.List {
		for _, nm := range p.Names {
			if k >= len(params) || c.f.typOf(p.Type) != params[k] {
				refuse("func literal: parameter %s", nm.Name)
			}
			en.declare(nm.Name, fval{typ: params[k]})
			binders = append(binders, fmt.Sprintf("(%s : %s)", nm.Name, fleanOf(params[k], c.f)))
			k++
		}
	}
	if k != len(params) || len(lit.Type.Results.List[0].Names) > 1 || c.f.typOf(lit.Type.Results.List[0].Type) != result {
		refuse("func literal: signature")
	}
	en.rts = []string{result}
	if c.f.effect {
		en.retK = func(_ *fctx, vals string) string { return "some " + fatom(vals) }
	} else {
		en.retK = func(_ *fctx, vals string) string { return vals }
	}
	body := en.stmts(lit.Body.List, nil)
	return fmt.Sprintf("(fun %s =>\n  (%s))", strings.Join(binders, " "), indent(body, "  "))
}

func (c *fctx) call(n *ast.CallExpr, pre *[]fbind) fval {
	fun := exprString(n.Fun)
	want := func(k int) {
		if len(n.Args) != k {
			refuse("%s: %d arguments", fun, len(n.Args))
		}
	}
	if n.Ellipsis.IsValid() && fun != "append" {
		refuse("variadic call of %s", fun)
	}
	switch fun {
	case "len":
		want(1)
		v := c.expr(n.Args[0], pre)
		if v.typ == "strlit" {
			return fval{typ: "int", expr: strconv.Itoa(len(v.str)), lit: true}
		}
		if _, ok := fElem[v.typ]; !ok || v.typ == "map" {
			refuse("len of a %s", v.typ)
		}
		return fval{typ: "int", expr: "(" + fatom(v.expr) + ".length : Int)"}
	case "int":
		want(1)
		v := c.expr(n.Args[0], pre)
		if v.typ != "int" && v.typ != "uint" {
			refuse("int(%s)", v.typ)
		}
		return fval{typ: "int", expr: v.expr}
	case "uint":
		want(1)
		v := c.conv(c.expr(n.Args[0], pre), "int")
		return fval{typ: "uint", expr: c.bind(pre, "goUint "+fatom(v))}
	case "append":
		want(2)
		if b := baseVar(n.Args[0]); b == "" || c.params[b] {
			refuse("append to %s: a parameter slice (or a slice of one) can share memory with the caller", exprString(n.Args[0]))
		}
		l := c.expr(n.Args[0], pre)
		et, ok := fElem[l.typ]
		if !ok || l.typ == "map" {
			refuse("append to a %s", l.typ)
		}
		if n.Ellipsis.IsValid() {
			r := c.conv(c.expr(n.Args[1], pre), l.typ)
			return fval{typ: l.typ, expr: fmt.Sprintf("(%s ++ %s)", l.expr, r)}
		}
		r := c.conv(c.expr(n.Args[1], pre), et)
		return fval{typ: l.typ, expr: fmt.Sprintf("(%s ++ [%s])", l.expr, r)}
	case "make":
		t := c.f.typOf(n.Args[0])
		if t == "map" {
			want(1)
			return fval{typ: "map", expr: "([] : List (String × List Int))"}
		}
		z, ok := fZero[t]
		if !ok {
			refuse("make of %s", ftypeText(n.Args[0]))
		}
		if isVarName(z) {
			c.use(z)
		}
		switch len(n.Args) {
		case 2:
			ln := c.conv(c.expr(n.Args[1], pre), "int")
			return fval{typ: t, expr: c.bind(pre, fmt.Sprintf("goMake %s %s", z, fatom(ln)))}
		case 3:
			ln, cp := c.conv(c.expr(n.Args[1], pre), "int"), c.conv(c.expr(n.Args[2], pre), "int")
			return fval{typ: t, expr: c.bind(pre, fmt.Sprintf("goMake3 %s %s %s", z, fatom(ln), fatom(cp)))}
		}
		refuse("make: arguments")
	case "fmt.Sprintf":
		want(3)
		f := c.expr(n.Args[0], pre)
		if f.typ != "strlit" {
			refuse("fmt.Sprintf: the format is not a string literal")
		}
		a, b := c.conv(c.expr(n.Args[1], pre), "str"), c.conv(c.expr(n.Args[2], pre), "props")
		return fval{typ: "str", expr: fmt.Sprintf("(%s %s %s %s)", c.use("sprintf_"), fleanString(f.str), fatom(a), fatom(b))}
	case "strings.IndexByte":
		want(2)
		a, b := c.conv(c.expr(n.Args[0], pre), "bytes"), c.conv(c.expr(n.Args[1], pre), "byte")
		return fval{typ: "int", expr: fmt.Sprintf("(stringsIndexByte %s %s)", fatom(a), fatom(b))}
	case "Qualifier":
		want(2)
		a, b := c.conv(c.expr(n.Args[0], pre), "bytes"), c.conv(c.expr(n.Args[1], pre), "bytes")
		return fval{typ: "qres", expr: fmt.Sprintf("(%s %s %s)", c.use("qualifier_"), fatom(a), fatom(b))}
	case "Key", "And":
		if c.f.filterTyp != "phi" {
			break
		}
		if fun == "Key" {
			want(1)
			return fval{typ: "phi", expr: fmt.Sprintf("(%s %s)", c.use("key_"), fatom(c.conv(c.expr(n.Args[0], pre), "bytes")))}
		}
		want(2)
		a, b := c.conv(c.expr(n.Args[0], pre), "phi"), c.conv(c.expr(n.Args[1], pre), "phi")
		return fval{typ: "phi", expr: fmt.Sprintf("(%s %s %s)", c.use("and_"), fatom(a), fatom(b))}
	case "sort.Search":
		want(2)
		lit, ok := n.Args[1].(*ast.FuncLit)
		if !ok {
			refuse("sort.Search: the predicate is not a func literal")
		}
		k, ok := c.f.known[fun]
		if !ok {
			refuse("sort.Search is not available here")
		}
		cnt := c.conv(c.expr(n.Args[0], pre), "int")
		cl := c.closure(lit, []string{"int"}, "bool")
		for _, s := range k.specials {
			c.use(s)
		}
		return fval{typ: "int", expr: c.bind(pre, fmt.Sprintf("%s %s %s %s", k.lean, strings.Join(k.specials, " "), fatom(cnt), cl))}
	}
	if sel, ok := n.Fun.(*ast.SelectorExpr); ok {
		if v, isVar := c.vars[identName(sel.X)]; isVar && v.typ == "loclist" && sel.Sel.Name == "Slice" {
			want(0)
			return fval{typ: "locs", expr: fmt.Sprintf("(locationListSlice %s %s)", c.use("nilLoc_"), v.expr)}
		}
	}
	if v, isVar := c.vars[fun]; isVar {
		switch v.typ {
		case "filter":
			want(1)
			return fval{typ: "bool", expr: fmt.Sprintf("(%s %s)", v.expr, fatom(c.conv(c.expr(n.Args[0], pre), "feat")))}
		case "pred":
			want(1)
			a := fatom(c.conv(c.expr(n.Args[0], pre), "int"))
			if c.f.effect {
				return fval{typ: "bool", expr: c.bind(pre, v.expr+" "+a)}
			}
			return fval{typ: "bool", expr: fmt.Sprintf("(%s %s)", v.expr, a)}
		}
		refuse("call of the variable %s (%s)", fun, v.typ)
	}
	if k, ok := c.f.known[fun]; ok {
		want(len(k.params))
		parts := []string{k.lean}
		for _, s := range k.specials {
			parts = append(parts, c.use(s))
		}
		for i, t := range k.params {
			parts = append(parts, fatom(c.conv(c.expr(n.Args[i], pre), t)))
		}
		if k.effect {
			return fval{typ: k.result, expr: c.bind(pre, strings.Join(parts, " "))}
		}
		return fval{typ: k.result, expr: "(" + strings.Join(parts, " ") + ")"}
	}
	refuse("call of %s", fun)
	return fval{}
}

// cond: a condition as a proposition; a checked operation behind `&&` / `||` makes it a bound
// `Option Bool` evaluated short-circuit
func (c *fctx) cond(x ast.Expr, pre *[]fbind) string {
	if !c.condEffects(x) {
		return fprop(c.expr(x, pre))
	}
	ob := c.optBool(x)
	return "(" + c.bind(pre, ob) + " = true)"
}

func (c *fctx) condEffects(x ast.Expr) bool {
	switch n := x.(type) {
	case *ast.ParenExpr:
		return c.condEffects(n.X)
	case *ast.UnaryExpr:
		return n.Op == token.NOT && c.condEffects(n.X)
	case *ast.BinaryExpr:
		if n.Op == token.LAND || n.Op == token.LOR {
			return c.condEffects(n.X) || c.mayEffectExpr(n.Y)
		}
	}
	return false
}

func (c *fctx) optBool(x ast.Expr) string {
	switch n := x.(type) {
	case *ast.ParenExpr:
		return c.optBool(n.X)
	case *ast.UnaryExpr:
		if n.Op == token.NOT && c.condEffects(n.X) {
			return fmt.Sprintf("((%s).map (fun b_ => !b_))", c.optBool(n.X))
		}
	case *ast.BinaryExpr:
		if (n.Op == token.LAND || n.Op == token.LOR) && c.condEffects(x) {
			if !c.condEffects(n.X) {
				// the left operand is a plain condition
				var pre []fbind
				l := fprop(c.expr(n.X, &pre))
				r := c.optBool(n.Y)
				if n.Op == token.LAND {
					return "(" + fwrap(pre, fmt.Sprintf("if %s then %s else some false", l, r)) + ")"
				}
				return "(" + fwrap(pre, fmt.Sprintf("if %s then some true else %s", l, r)) + ")"
			}
			l, r := c.optBool(n.X), c.optBool(n.Y)
			t := c.tmp()
			if n.Op == token.LAND {
				return fmt.Sprintf("(%s.bind fun %s => if (%s = true) then %s else some false)", l, t, t, r)
			}
			return fmt.Sprintf("(%s.bind fun %s => if (%s = true) then some true else %s)", l, t, t, r)
		}
	}
	var pre []fbind
	v := fbool(c.expr(x, &pre))
	return "(" + fwrap(pre, "some "+fatom(v)) + ")"
}

// mayEffectExpr: can evaluating x need a checked operation (syntactic, conservative)
func (c *fctx) mayEffectExpr(x ast.Node) bool {
	if !c.f.effect {
		return false
	}
	found := false
	ast.Inspect(x, func(n ast.Node) bool {
		switch m := n.(type) {
		case *ast.FuncLit:
			return false
		case *ast.IndexExpr:
			if v, ok := c.vars[identName(m.X)]; !ok || v.typ != "map" {
				found = true
			}
		case *ast.SliceExpr, *ast.ForStmt, *ast.RangeStmt, *ast.ReturnStmt:
			found = true
		case *ast.CallExpr:
			fun := exprString(m.Fun)
			switch fun {
			case "len", "append", "int", "fmt.Sprintf", "strings.IndexByte", "Qualifier", "copy":
			case "make":
				found = found || ftypeText(m.Args[0]) != "map[string][]int"
			default:
				if v, ok := c.vars[fun]; ok && v.typ == "filter" {
					break
				}
				if k, ok := c.f.known[fun]; ok && !k.effect && fun != "sort.Search" {
					break
				}
				if sel, ok := m.Fun.(*ast.SelectorExpr); ok && (sel.Sel.Name == "Push" || sel.Sel.Name == "Slice") {
					break
				}
				if fun == "sort.Sort" || fun == "Locations" || fun == "sort.IntSlice" {
					break
				}
				found = true
			}
		}
		return true
	})
	return found
}

// ---- statements -------------------------------------------------------------------------------------

func fjoin(lets []string, rest string) string {
	if len(lets) == 0 {
		return rest
	}
	return strings.Join(lets, "\n") + "\n" + rest
}

func (c *fctx) setVar(name string, v fval, define bool, lets *[]string) {
	if name == "_" {
		return
	}
	if v.typ == "prop" {
		v = fval{typ: "bool", expr: fbool(v)}
	}
	if v.typ == "strlit" {
		v = fval{typ: c.f.strTyp, expr: c.conv(v, c.f.strTyp)}
	}
	if define {
		if v.typ == "nil" || v.typ == "qres" {
			refuse("definition of %s from a %s", name, v.typ)
		}
		c.declare(name, fval{typ: v.typ})
	} else {
		cur, ok := c.vars[name]
		if !ok {
			refuse("assignment to undeclared %s", name)
		}
		if cur.typ != v.typ && !(cur.typ == "int" && v.typ == "uint") {
			refuse("assignment of a %s to %s (%s)", v.typ, name, cur.typ)
		}
		v.typ = cur.typ
	}
	*lets = append(*lets, fmt.Sprintf("let %s : %s := %s;", name, fleanOf(v.typ, c.f), v.expr))
}

func containsLoopOrLit(stmts []ast.Stmt) bool {
	found := false
	for _, s := range stmts {
		ast.Inspect(s, func(n ast.Node) bool {
			switch n.(type) {
			case *ast.ForStmt, *ast.RangeStmt, *ast.FuncLit:
				found = true
			}
			return true
		})
	}
	return found
}

func containsReturnF(stmts []ast.Stmt) bool {
	found := false
	for _, s := range stmts {
		ast.Inspect(s, func(n ast.Node) bool {
			switch n.(type) {
			case *ast.FuncLit:
				return false
			case *ast.ReturnStmt:
				found = true
			}
			return true
		})
	}
	return found
}

func (c *fctx) some(s string) string {
	if c.f.effect {
		return "some " + fatom(s)
	}
	return s
}

func (c *fctx) stmts(list []ast.Stmt, k func(c *fctx) string) string {
	if len(list) == 0 {
		if k == nil {
			refuse("control reaches the end of the function")
		}
		return k(c)
	}
	s, rest := list[0], list[1:]
	switch n := s.(type) {
	case *ast.ReturnStmt:
		return c.ret(n)
	case *ast.AssignStmt:
		return c.assignStmt(n, rest, k)
	case *ast.IncDecStmt:
		op := map[token.Token]token.Token{token.INC: token.ADD_ASSIGN, token.DEC: token.SUB_ASSIGN}[n.Tok]
		return c.assignStmt(&ast.AssignStmt{Lhs: []ast.Expr{n.X}, Tok: op, Rhs: []ast.Expr{&ast.BasicLit{Kind: token.INT, Value: "1"}}}, rest, k)
	case *ast.ExprStmt:
		return c.exprStmt(n, rest, k)
	case *ast.IfStmt:
		return c.ifStmt(n, rest, k)
	case *ast.SwitchStmt:
		return c.stmts(append(c.switchChain(n), rest...), k)
	case *ast.ForStmt:
		return c.forLoop(n, rest, k)
	case *ast.RangeStmt:
		return c.rangeLoop(n, rest, k)
	case *ast.BlockStmt:
		refuse("nested block")
	}
	refuse("statement %T", s)
	return ""
}

func (c *fctx) ret(n *ast.ReturnStmt) string {
	if len(n.Results) != len(c.rts) {
		// `return F(…)` of a call with several results
		if len(n.Results) == 1 && len(c.rts) == 1 {
		} else if len(n.Results) == 1 && len(c.rts) == 2 && c.rts[0] == "qres" {
			var pre []fbind
			v := c.expr(n.Results[0], &pre)
			if v.typ != "qres" {
				refuse("return of a %s", v.typ)
			}
			return fwrap(pre, c.retK(c, v.expr))
		} else {
			refuse("return arity")
		}
	}
	var pre []fbind
	parts := make([]string, len(n.Results))
	for i, r := range n.Results {
		if lit, ok := r.(*ast.FuncLit); ok && c.rts[i] == "filter" {
			parts[i] = c.closure(lit, []string{"feat"}, "bool")
			continue
		}
		parts[i] = c.conv(c.expr(r, &pre), c.rts[i])
	}
	vals := parts[0]
	if len(parts) > 1 {
		vals = "(" + strings.Join(parts, ", ") + ")"
	}
	return fwrap(pre, c.retK(c, vals))
}

func (c *fctx) assignStmt(n *ast.AssignStmt, rest []ast.Stmt, k func(c *fctx) string) string {
	var pre []fbind
	var lets []string
	switch n.Tok {
	case token.ADD_ASSIGN, token.SUB_ASSIGN:
		name := identName(n.Lhs[0])
		cur, ok := c.vars[name]
		if !ok || cur.typ != "int" || len(n.Rhs) != 1 {
			refuse("%s on %s", n.Tok, exprString(n.Lhs[0]))
		}
		v := c.conv(c.expr(n.Rhs[0], &pre), "int")
		op := map[token.Token]string{token.ADD_ASSIGN: "+", token.SUB_ASSIGN: "-"}[n.Tok]
		c.setVar(name, fval{typ: "int", expr: fmt.Sprintf("(%s %s %s)", name, op, v)}, false, &lets)
		return fwrap(pre, fjoin(lets, c.stmts(rest, k)))
	case token.DEFINE, token.ASSIGN:
	default:
		refuse("assignment operator %s", n.Tok)
	}
	var vals []fval
	if len(n.Lhs) > 1 && len(n.Rhs) == 1 {
		// a call with several results
		v := c.expr(n.Rhs[0], &pre)
		if !strings.HasPrefix(v.typ, "tuple:") {
			refuse("assignment arity (%d := 1)", len(n.Lhs))
		}
		ts := strings.Split(strings.TrimPrefix(v.typ, "tuple:"), ",")
		if len(ts) != len(n.Lhs) {
			refuse("assignment arity (%d := a call with %d results)", len(n.Lhs), len(ts))
		}
		for i, t := range ts {
			vals = append(vals, fval{typ: t, expr: v.expr + projOf(i, len(ts))})
		}
		n = &ast.AssignStmt{Lhs: n.Lhs, Tok: n.Tok, Rhs: make([]ast.Expr, len(n.Lhs))}
		for i := range n.Rhs {
			n.Rhs[i] = ast.NewIdent("_")
		}
	} else {
		if len(n.Lhs) != len(n.Rhs) {
			refuse("assignment arity (%d := %d)", len(n.Lhs), len(n.Rhs))
		}
		vals = make([]fval, len(n.Rhs))
		for i, r := range n.Rhs {
			vals[i] = c.expr(r, &pre)
		}
	}
	if len(n.Lhs) > 1 {
		for i := range vals {
			if vals[i].typ == "strlit" || vals[i].typ == "nil" {
				continue
			}
			if vals[i].typ == "prop" {
				vals[i] = fval{typ: "bool", expr: fbool(vals[i])}
			}
			t := c.tmp()
			lets = append(lets, fmt.Sprintf("let %s := %s;", t, vals[i].expr))
			vals[i] = fval{typ: vals[i].typ, expr: t}
		}
	}
	for i, l := range n.Lhs {
		switch t := l.(type) {
		case *ast.Ident:
			define := n.Tok == token.DEFINE
			if define {
				if _, exists := c.vars[t.Name]; exists && len(n.Lhs) > 1 {
					define = false // `a, b := …` re-assigns the ones that exist
				}
			}
			c.setVar(t.Name, vals[i], define, &lets)
			if t.Name != "_" {
				c.track(t.Name, n.Rhs[i])
			}
		case *ast.IndexExpr:
			if n.Tok != token.ASSIGN {
				refuse("definition of an element")
			}
			base := identName(t.X)
			bv, ok := c.vars[base]
			if !ok {
				refuse("element assignment to %s", exprString(t.X))
			}
			if bv.typ == "map" {
				key := c.conv(c.expr(t.Index, &pre), "str")
				v := c.conv(vals[i], "ints")
				lets = append(lets, fmt.Sprintf("let %s : %s := goMapSet %s %s %s;", base, fleanOf("map", c.f), base, fatom(key), fatom(v)))
				continue
			}
			lets = append(lets, c.store(base, t.Index, c.conv(vals[i], fElem[bv.typ]), &pre, lets)...)
		case *ast.SelectorExpr:
			// X[i].Loc = v
			ix, ok := t.X.(*ast.IndexExpr)
			if !ok || n.Tok != token.ASSIGN || t.Sel.Name != "Loc" {
				refuse("assignment target %s", exprString(l))
			}
			base := identName(ix.X)
			bv, ok := c.vars[base]
			if !ok || bv.typ != "feats" {
				refuse("assignment target %s", exprString(l))
			}
			// the right-hand side and the index are evaluated, then the element is read and written back
			if len(lets) != 0 {
				refuse("field store in a parallel assignment")
			}
			idx := c.conv(c.expr(ix.Index, &pre), "int")
			it := c.tmp()
			lets = append(lets, fmt.Sprintf("let %s : Int := %s;", it, idx))
			old := c.tmp()
			v := c.conv(vals[i], "loc")
			c.checkStore(base)
			inner := fmt.Sprintf("(goIdx %s %s).bind fun %s =>\n(goSet %s %s { %s with loc := %s }).bind fun %s =>\n",
				base, it, old, base, it, old, v, base)
			return fwrap(pre, fjoin(lets, inner+c.stmts(rest, k)))
		default:
			refuse("assignment target %T", l)
		}
	}
	return fwrap(pre, c.finishStores(lets, c.stmts(rest, k)))
}

// a store `X[i] = v` is rendered as a marker line that finishStores turns into a match
func (c *fctx) store(base string, index ast.Expr, v string, pre *[]fbind, _ []string) []string {
	c.checkStore(base)
	idx := c.conv(c.expr(index, pre), "int")
	return []string{fmt.Sprintf("\x00STORE %s\x01%s\x01%s", base, fatom(idx), fatom(v))}
}

func (c *fctx) finishStores(lets []string, rest string) string {
	out := rest
	for i := len(lets) - 1; i >= 0; i-- {
		l := lets[i]
		if strings.HasPrefix(l, "\x00STORE ") {
			p := strings.Split(strings.TrimPrefix(l, "\x00STORE "), "\x01")
			out = fmt.Sprintf("(goSet %s %s %s).bind fun %s =>\n%s", p[0], p[1], p[2], p[0], out)
		} else {
			out = l + "\n" + out
		}
	}
	return out
}

func (c *fctx) checkStore(base string) {
	if !c.f.effect {
		refuse("element store in a function translated as pure")
	}
	if c.params[base] {
		refuse("store through the parameter slice %s (visible to the caller)", base)
	}
	if !c.made[base] {
		refuse("store into %s, which is not a slice made in this function", base)
	}
}

// track: what a variable holds after `name = rhs` (made here / derived from a parameter)
func (c *fctx) track(name string, rhs ast.Expr) {
	delete(c.made, name)
	delete(c.params, name)
	switch r := rhs.(type) {
	case *ast.CallExpr:
		switch exprString(r.Fun) {
		case "make":
			c.made[name] = true
		case "append":
			if b := baseVar(r.Args[0]); c.made[b] {
				c.made[name] = true
			}
		}
	case *ast.SliceExpr, *ast.Ident, *ast.ParenExpr:
		b := baseVar(rhs)
		if c.params[b] {
			c.params[name] = true
		}
		if c.made[b] && b == name {
			c.made[name] = true
		}
	}
}

func (c *fctx) exprStmt(n *ast.ExprStmt, rest []ast.Stmt, k func(c *fctx) string) string {
	call, ok := n.X.(*ast.CallExpr)
	if !ok {
		refuse("statement %s", exprString(n.X))
	}
	fun := exprString(call.Fun)
	var pre []fbind
	switch {
	case fun == "copy" && len(call.Args) == 2:
		src := c.expr(call.Args[1], &pre)
		var q, line string
		switch d := call.Args[0].(type) {
		case *ast.Ident:
			q = d.Name
			c.checkStore(q)
			line = fmt.Sprintf("let %s : %s := goCopy %s %s;", q, fleanOf(c.vars[q].typ, c.f), q, fatom(src.expr))
		case *ast.SliceExpr:
			q = identName(d.X)
			if q == "" || d.High != nil || d.Slice3 || d.Low == nil {
				refuse("copy: the destination is not Q or Q[offset:]")
			}
			c.checkStore(q)
			off := c.conv(c.expr(d.Low, &pre), "int")
			t := c.bind(&pre, fmt.Sprintf("goCopyAt %s %s %s", q, fatom(off), fatom(src.expr)))
			line = fmt.Sprintf("let %s : %s := %s;", q, fleanOf(c.vars[q].typ, c.f), t)
		case *ast.IndexExpr:
			// copy(Q[i], src): the row is read, overwritten and stored back (gprops.go)
			q = identName(d.X)
			if q == "" || fElem[c.vars[q].typ] != src.typ {
				refuse("copy: the destination is not Q, Q[offset:] or Q[i]")
			}
			c.checkStore(q)
			idx := fatom(c.conv(c.expr(d.Index, &pre), "int"))
			old := c.bind(&pre, fmt.Sprintf("goIdx %s %s", q, idx))
			t := c.bind(&pre, fmt.Sprintf("goSet %s %s (goCopy %s %s)", q, idx, old, fatom(src.expr)))
			return fwrap(pre, fmt.Sprintf("let %s : %s := %s;", q, fleanOf(c.vars[q].typ, c.f), t)+"\n"+c.stmts(rest, k))
		default:
			refuse("copy: the destination is not Q or Q[offset:]")
		}
		if qv := c.vars[q]; qv.typ != src.typ {
			refuse("copy of a %s into a %s", src.typ, qv.typ)
		}
		return fwrap(pre, line+"\n"+c.stmts(rest, k))
	case fun == "sort.Sort" && len(call.Args) == 1:
		conv, ok := call.Args[0].(*ast.CallExpr)
		if !ok || len(conv.Args) != 1 || identName(conv.Args[0]) == "" {
			refuse("sort.Sort of %s", exprString(call.Args[0]))
		}
		x := identName(conv.Args[0])
		v, isVar := c.vars[x]
		var special string
		switch {
		case exprString(conv.Fun) == "Locations" && isVar && v.typ == "locs":
			special = "sortLocs_"
		case exprString(conv.Fun) == "sort.IntSlice" && isVar && v.typ == "ints":
			special = "sortInts_"
		default:
			refuse("sort.Sort of %s", exprString(call.Args[0]))
		}
		if c.params[x] {
			refuse("sort.Sort of the parameter slice %s (visible to the caller)", x)
		}
		return fmt.Sprintf("let %s : %s := %s %s;\n", x, fleanOf(v.typ, c.f), c.use(special), x) + c.stmts(rest, k)
	}
	if sel, ok := call.Fun.(*ast.SelectorExpr); ok && sel.Sel.Name == "Push" && len(call.Args) == 2 {
		x := identName(sel.X)
		if v, isVar := c.vars[x]; isVar && v.typ == "loclist" {
			a := c.conv(c.expr(call.Args[0], &pre), "loc")
			b := fbool(c.expr(call.Args[1], &pre))
			return fwrap(pre, fmt.Sprintf("let %s : List Gts.Loc := Gts.Loc.push %s %s %s;\n", x, x, fatom(a), fatom(b))+c.stmts(rest, k))
		}
	}
	refuse("statement %s", exprString(n.X))
	return ""
}

// switchChain: `switch init; tag { case a: … default: … }` as init, `tag_ := tag`, and the chain of ifs
func (c *fctx) switchChain(n *ast.SwitchStmt) []ast.Stmt {
	var out []ast.Stmt
	if n.Init != nil {
		out = append(out, n.Init)
	}
	tag := n.Tag
	if tag != nil {
		if _, plain := tag.(*ast.Ident); !plain {
			t := "tag" + strings.TrimPrefix(c.tmp(), "x")
			out = append(out, &ast.AssignStmt{Lhs: []ast.Expr{ast.NewIdent(t)}, Tok: token.DEFINE, Rhs: []ast.Expr{tag}})
			tag = ast.NewIdent(t)
		}
	}
	var def []ast.Stmt
	hasDef := false
	var clauses []*ast.CaseClause
	for _, cl := range n.Body.List {
		cc := cl.(*ast.CaseClause)
		for _, b := range cc.Body {
			if br, ok := b.(*ast.BranchStmt); ok {
				refuse("branch statement %s in a switch", br.Tok)
			}
		}
		if cc.List == nil {
			def, hasDef = cc.Body, true
			if cl != n.Body.List[len(n.Body.List)-1] {
				refuse("switch: the default clause is not the last one")
			}
			continue
		}
		clauses = append(clauses, cc)
	}
	var tail ast.Stmt
	if hasDef {
		tail = &ast.BlockStmt{List: def}
	}
	for j := len(clauses) - 1; j >= 0; j-- {
		var cond ast.Expr
		for _, e := range clauses[j].List {
			var one ast.Expr = e
			if tag != nil {
				one = &ast.BinaryExpr{X: tag, Op: token.EQL, Y: e}
			}
			if cond == nil {
				cond = one
			} else {
				cond = &ast.BinaryExpr{X: cond, Op: token.LOR, Y: one}
			}
		}
		is := &ast.IfStmt{Cond: cond, Body: &ast.BlockStmt{List: clauses[j].Body}}
		if tail != nil {
			if b, ok := tail.(*ast.BlockStmt); ok {
				is.Else = b
			} else {
				is.Else = &ast.BlockStmt{List: []ast.Stmt{tail}}
			}
		}
		tail = is
	}
	if tail != nil {
		if b, ok := tail.(*ast.BlockStmt); ok {
			out = append(out, b.List...)
		} else {
			out = append(out, tail)
		}
	}
	return out
}

// assigned: the variables declared outside list that it assigns
func (c *fctx) assigned(list []ast.Stmt, acc, local map[string]bool) {
	mark := func(x ast.Expr, define bool) {
		b := baseVar(x)
		if b == "" {
			refuse("assignment target %s", exprString(x))
		}
		if b == "_" {
			return
		}
		if _, isIdent := x.(*ast.Ident); isIdent && define {
			if _, outer := c.vars[b]; !outer || local[b] {
				local[b] = true
				return
			}
		}
		if !local[b] {
			acc[b] = true
		}
	}
	inner := func() map[string]bool {
		m := map[string]bool{}
		for k := range local {
			m[k] = true
		}
		return m
	}
	for _, s := range list {
		switch n := s.(type) {
		case *ast.AssignStmt:
			for _, l := range n.Lhs {
				mark(l, n.Tok == token.DEFINE)
			}
		case *ast.IncDecStmt:
			mark(n.X, false)
		case *ast.ExprStmt:
			call, ok := n.X.(*ast.CallExpr)
			if !ok {
				refuse("statement %s", exprString(n.X))
			}
			switch fun := exprString(call.Fun); {
			case fun == "copy" && len(call.Args) == 2:
				mark(call.Args[0], false)
			case fun == "sort.Sort" && len(call.Args) == 1:
				if conv, ok := call.Args[0].(*ast.CallExpr); ok && len(conv.Args) == 1 {
					mark(conv.Args[0], false)
				}
			default:
				if sel, ok := call.Fun.(*ast.SelectorExpr); ok && sel.Sel.Name == "Push" {
					mark(sel.X, false)
				}
			}
		case *ast.IfStmt:
			if n.Init != nil {
				refuse("if with an init statement")
			}
			c.assigned(n.Body.List, acc, inner())
			switch e := n.Else.(type) {
			case nil:
			case *ast.BlockStmt:
				c.assigned(e.List, acc, inner())
			case *ast.IfStmt:
				c.assigned([]ast.Stmt{e}, acc, inner())
			}
		case *ast.SwitchStmt:
			if n.Init != nil {
				c.assigned([]ast.Stmt{n.Init}, acc, local)
			}
			for _, cl := range n.Body.List {
				c.assigned(cl.(*ast.CaseClause).Body, acc, inner())
			}
		case *ast.ForStmt:
			in := inner()
			if n.Init != nil {
				c.assigned([]ast.Stmt{n.Init}, acc, in)
			}
			if n.Post != nil {
				c.assigned([]ast.Stmt{n.Post}, acc, in)
			}
			c.assigned(n.Body.List, acc, in)
		case *ast.RangeStmt:
			in := inner()
			for _, kv := range []ast.Expr{n.Key, n.Value} {
				if nm := identName(kv); nm != "" && nm != "_" {
					in[nm] = true
				}
			}
			c.assigned(n.Body.List, acc, in)
		case *ast.ReturnStmt:
		default:
			refuse("statement %T", s)
		}
	}
}

func (c *fctx) bySeq(names map[string]bool) []string {
	out := make([]string, 0, len(names))
	for n := range names {
		if _, ok := c.seq[n]; !ok {
			refuse("variable %s has no declaration in the translated function", n)
		}
		out = append(out, n)
	}
	sort.Slice(out, func(i, j int) bool { return c.seq[out[i]] < c.seq[out[j]] })
	return out
}

func ftuple(parts []string) string {
	switch len(parts) {
	case 0:
		return "()"
	case 1:
		return parts[0]
	}
	return "(" + strings.Join(parts, ", ") + ")"
}

func (c *fctx) tupleType(names []string) string {
	if len(names) == 0 {
		return "Unit"
	}
	var ts []string
	for _, n := range names {
		ts = append(ts, fleanOf(c.vars[n].typ, c.f))
	}
	if len(ts) == 1 {
		return ts[0]
	}
	for i, t := range ts {
		if strings.Contains(t, "→") {
			ts[i] = "(" + t + ")"
		}
	}
	return strings.Join(ts, " × ")
}

func (c *fctx) ifStmt(n *ast.IfStmt, rest []ast.Stmt, k func(c *fctx) string) string {
	if n.Init != nil {
		refuse("if with an init statement")
	}
	var elseList []ast.Stmt
	switch e := n.Else.(type) {
	case nil:
	case *ast.BlockStmt:
		elseList = e.List
	case *ast.IfStmt:
		elseList = []ast.Stmt{e}
	}
	var pre []fbind
	cond := c.cond(n.Cond, &pre)
	if containsReturnF(n.Body.List) || containsReturnF(elseList) {
		bodyReturns, elseReturns := returns(n.Body.List), n.Else != nil && returns(elseList)
		restK := func(en *fctx) string { return en.stmts(rest, k) }
		if bodyReturns && elseReturns {
			if len(rest) != 0 {
				refuse("code after an if-else that returns on both paths")
			}
			return fwrap(pre, fmt.Sprintf("if %s then\n  (%s)\nelse\n  (%s)", cond, indent(c.clone().stmts(n.Body.List, nil), "  "), indent(c.clone().stmts(elseList, nil), "  ")))
		}
		if bodyReturns && n.Else == nil {
			return fwrap(pre, fmt.Sprintf("if %s then\n  (%s)\nelse\n  (%s)", cond, indent(c.clone().stmts(n.Body.List, nil), "  "), indent(c.clone().stmts(rest, k), "  ")))
		}
		// a return on some paths: the rest of the block on both paths
		if containsLoopOrLit(rest) {
			refuse("an if that returns on some paths only is followed by a loop or a func literal")
		}
		thenS := c.clone().stmts(n.Body.List, restK)
		elseS := c.clone().stmts(elseList, restK)
		return fwrap(pre, fmt.Sprintf("if %s then\n  (%s)\nelse\n  (%s)", cond, indent(thenS, "  "), indent(elseS, "  ")))
	}
	acc := map[string]bool{}
	c.assigned(n.Body.List, acc, map[string]bool{})
	c.assigned(elseList, acc, map[string]bool{})
	names := c.bySeq(acc)
	if len(names) == 0 {
		refuse("an if without effect on the variables of the function")
	}
	effect := c.mayEffectExpr(n.Body) || (n.Else != nil && c.mayEffectExpr(n.Else))
	tup := func(en *fctx) string {
		if effect {
			return "some " + fatom(ftuple(names))
		}
		return ftuple(names)
	}
	thenC, elseC := c.clone(), c.clone()
	thenS := thenC.stmts(n.Body.List, tup)
	elseS := elseC.stmts(elseList, tup)
	// what the joined variables hold afterwards
	for _, nm := range names {
		if !(thenC.made[nm] && elseC.made[nm]) {
			delete(c.made, nm)
		}
		if thenC.params[nm] || elseC.params[nm] {
			c.params[nm] = true
		}
	}
	ite := fmt.Sprintf("if %s then\n  (%s)\nelse\n  (%s)", cond, indent(thenS, "  "), indent(elseS, "  "))
	if effect {
		if len(names) == 1 {
			return fwrap(pre, fmt.Sprintf("(%s).bind fun %s =>\n%s", ite, names[0], c.stmts(rest, k)))
		}
		var rebind []string
		for i, nm := range names {
			rebind = append(rebind, fmt.Sprintf("let %s : %s := st_%s;", nm, fleanOf(c.vars[nm].typ, c.f), projOf(i, len(names))))
		}
		return fwrap(pre, fmt.Sprintf("(%s).bind fun st_ =>\n%s", ite, fjoin(rebind, c.stmts(rest, k))))
	}
	return fwrap(pre, fmt.Sprintf("let %s := %s;\n%s", ftuple(names), ite, c.stmts(rest, k)))
}

// ---- loops --------------------------------------------------------------------------------------------

func (c *fctx) helperName() string {
	c.f.nloops++
	n := c.f.nloops
	if n == 1 {
		return c.f.base + "Loop"
	}
	return fmt.Sprintf("%sLoop%d", c.f.base, n)
}

// fixed: the variables of c read below the nodes, other than the excluded ones, in order of declaration
func (c *fctx) fixed(nodes []ast.Node, exclude map[string]bool) []string {
	used := map[string]bool{}
	for _, nd := range nodes {
		if nd == nil {
			continue
		}
		ast.Inspect(nd, func(x ast.Node) bool {
			if id, ok := x.(*ast.Ident); ok {
				if _, isVar := c.vars[id.Name]; isVar && !exclude[id.Name] {
					used[id.Name] = true
				}
			}
			return true
		})
	}
	return c.bySeq(used)
}

func (c *fctx) binders(names []string) string {
	var out []string
	for _, n := range names {
		out = append(out, fmt.Sprintf("(%s : %s)", n, fleanOf(c.vars[n].typ, c.f)))
	}
	return joinSp(out)
}

func (c *fctx) arrowTypes(names []string) string {
	var out []string
	for _, n := range names {
		t := fleanOf(c.vars[n].typ, c.f)
		if strings.Contains(t, "→") {
			t = "(" + t + ")"
		}
		out = append(out, t+" → ")
	}
	return strings.Join(out, "")
}

type floop struct {
	name    string
	state   []string
	returns bool
	rt      string // Lean type of the helper's result
}

// loopResult: the Lean type a loop helper yields and how the code after the call continues
func (c *fctx) loopType(state []string, returns bool) string {
	t := c.tupleType(state)
	if returns {
		rt := c.resultType()
		if strings.Contains(rt, " ") {
			rt = "(" + rt + ")"
		}
		if strings.Contains(t, " ") {
			t = "(" + t + ")"
		}
		t = "Flow " + t + " " + rt
	}
	if c.f.effect {
		if strings.Contains(t, " ") {
			t = "(" + t + ")"
		}
		return "Option " + t
	}
	return t
}

func (c *fctx) resultType() string {
	if c.rts[0] == "qres" {
		return "ρ_"
	}
	var ts []string
	for _, t := range c.rts {
		lt := fleanOf(t, c.f)
		if strings.Contains(lt, "→") && len(c.rts) > 1 {
			lt = "(" + lt + ")"
		}
		ts = append(ts, lt)
	}
	return strings.Join(ts, " × ")
}

// exit: the value of a loop helper when the loop ends with the given state
func (c *fctx) loopExit(state []string, returns bool) string {
	v := ftuple(state)
	if returns {
		v = ".next " + fatom(v)
	}
	return c.some(v)
}

// after: the code behind a loop call
func (c *fctx) afterLoop(call string, state []string, returns bool, rest []ast.Stmt, k func(c *fctx) string) string {
	var rebind []string
	for i, nm := range state {
		if _, outer := c.vars[nm]; !outer {
			continue
		}
		p := "st_" + projOf(i, len(state))
		rebind = append(rebind, fmt.Sprintf("let %s : %s := %s;", nm, fleanOf(c.vars[nm].typ, c.f), p))
	}
	outerRet := c.retK
	cont := fjoin(rebind, c.stmts(rest, k))
	switch {
	case c.f.effect && returns:
		return fmt.Sprintf("(%s).bind fun fl_ =>\nmatch fl_ with\n| .ret r_ => %s\n| .next st_ =>\n%s", call, outerRet(c, "r_"), cont)
	case c.f.effect:
		return fmt.Sprintf("(%s).bind fun st_ =>\n%s", call, cont)
	case returns:
		return fmt.Sprintf("match %s with\n| .ret r_ => %s\n| .next st_ =>\n%s", call, outerRet(c, "r_"), cont)
	}
	return fmt.Sprintf("let st_ := %s;\n%s", call, cont)
}

// placeholders: the binders of the parameters a definition needs (`⟦S⟧`), the arguments for the ones a called
// helper needs (`⟦A:name⟧`); filled in by ftranslate
const fS, fA = "⟦S⟧", "⟦A:"

func (c *fctx) forLoop(n *ast.ForStmt, rest []ast.Stmt, k func(c *fctx) string) string {
	if n.Cond == nil {
		refuse("for loop without a condition")
	}
	outer := c
	c = outer.clone() // the init variables are scoped to the loop
	var initLets string
	var initNames []string
	if n.Init != nil {
		as, ok := n.Init.(*ast.AssignStmt)
		if !ok || as.Tok != token.DEFINE {
			refuse("for loop: init statement")
		}
		for _, l := range as.Lhs {
			initNames = append(initNames, identName(l))
		}
		initLets = c.stmts([]ast.Stmt{as}, func(*fctx) string { return "" })
	}
	var post []ast.Stmt
	if n.Post != nil {
		post = []ast.Stmt{n.Post}
	}
	acc := map[string]bool{}
	c.assigned(append(append([]ast.Stmt{}, n.Body.List...), post...), acc, map[string]bool{})
	for _, nm := range initNames {
		acc[nm] = true
	}
	state := c.bySeq(acc)
	stateSet := map[string]bool{}
	for _, s := range state {
		stateSet[s] = true
	}
	rets := containsReturnF(n.Body.List)
	fixed := c.fixed([]ast.Node{n.Cond, n.Body, n.Post}, stateSet)
	name := c.helperName()
	c.use("fuel")
	// the helper
	h := c.clone()
	if rets {
		h.retK = func(_ *fctx, vals string) string { return h.some(".ret " + fatom(vals)) }
	}
	recur := func(en *fctx) string {
		return fsp(name, fA+name+"⟧", strings.Join(fixed, " "), "n_", strings.Join(state, " "))
	}
	var pre []fbind
	cond := h.cond(n.Cond, &pre)
	body := h.clone().stmts(append(append([]ast.Stmt{}, n.Body.List...), post...), recur)
	exit := h.loopExit(state, rets)
	step := fwrap(pre, fmt.Sprintf("if %s then\n  (%s)\nelse %s", cond, indent(body, "  "), fatom(exit)))
	us := strings.Join(state, ", ")
	if us != "" {
		us = ", " + us
	}
	text := strings.Builder{}
	fmt.Fprintf(&text, "/-- %s: the loop `for %s` translated literally, with fuel; loop state (%s) -/\n", c.f.what, oneLineCond(n), strings.Join(state, ", "))
	fmt.Fprintf(&text, "def %s : Nat → %s%s\n", fsp(name, fS, strings.TrimSpace(c.binders(fixed))), c.arrowTypes(state), c.loopType(state, rets))
	fmt.Fprintf(&text, "  | 0%s => %s\n  | n_ + 1%s =>\n    %s\n\n", us, exit, us, indent(step, "    "))
	c.f.helpers = append(c.f.helpers, fhelper{name, text.String()})
	call := fsp(name, fA+name+"⟧", strings.Join(fixed, " "), "fuel", strings.Join(state, " "))
	// the state variables of the enclosing scope are rebound in the enclosing context
	for _, nm := range state {
		if _, isOuter := outer.vars[nm]; isOuter {
			if !h.made[nm] {
				delete(outer.made, nm)
			}
		}
	}
	return initLets + outer.afterLoopScoped(c, call, state, rets, rest, k)
}

// afterLoopScoped: afterLoop in the enclosing context (loop-scoped variables are dropped)
func (outer *fctx) afterLoopScoped(_ *fctx, call string, state []string, rets bool, rest []ast.Stmt, k func(c *fctx) string) string {
	return outer.afterLoop(call, state, rets, rest, k)
}

func oneLineCond(n *ast.ForStmt) string {
	s := ""
	if n.Init != nil {
		s += stmtText(n.Init) + "; "
	}
	s += exprText(n.Cond)
	if n.Post != nil {
		s += "; " + stmtText(n.Post)
	}
	return strings.ReplaceAll(s, "-/", "- /")
}

func (c *fctx) rangeLoop(n *ast.RangeStmt, rest []ast.Stmt, k func(c *fctx) string) string {
	if n.Tok != token.DEFINE {
		refuse("range loop that assigns existing variables")
	}
	key, value := identName(n.Key), identName(n.Value)
	if n.Key == nil {
		key = "_"
	}
	if n.Value == nil {
		value = "_"
	}
	if key == "" || value == "" {
		refuse("range loop variables")
	}
	var pre []fbind
	src := c.expr(n.X, &pre)
	et, ok := fElem[src.typ]
	if !ok {
		refuse("range over a %s", src.typ)
	}
	list := src.expr
	isMap := src.typ == "map"
	if isMap {
		list = fmt.Sprintf("(%s %s)", c.use("rangeMap_"), src.expr)
	}
	acc := map[string]bool{}
	c.assigned(n.Body.List, acc, map[string]bool{key: true, value: true})
	if b := baseVar(n.X); acc[b] {
		refuse("the loop body assigns the ranged variable %s", b)
	}
	state := c.bySeq(acc)
	stateSet := map[string]bool{key: true, value: true}
	for _, s := range state {
		stateSet[s] = true
	}
	rets := containsReturnF(n.Body.List)
	fixed := c.fixed([]ast.Node{n.Body}, stateSet)
	name := c.helperName()
	h := c.clone()
	if rets {
		h.retK = func(_ *fctx, vals string) string { return h.some(".ret " + fatom(vals)) }
	}
	counter := !isMap && key != "_"
	pat := value
	switch {
	case isMap:
		h.declare(key, fval{typ: "str"})
		h.declare(value, fval{typ: "ints"})
		pat = "(" + key + ", " + value + ")"
	default:
		h.declare(value, fval{typ: et})
		if counter {
			h.declare(key, fval{typ: "int"})
		}
	}
	ctrArg, ctrPat, ctrNext, ctrType := "", "", "", ""
	if counter {
		ctrArg, ctrPat, ctrNext, ctrType = "0", ", "+key, "("+key+" + 1)", "Int → "
	}
	recur := func(en *fctx) string {
		return fsp(name, fA+name+"⟧", strings.Join(fixed, " "), "rest_", ctrNext, strings.Join(state, " "))
	}
	body := h.stmts(n.Body.List, recur)
	exit := h.loopExit(state, rets)
	us := strings.Join(state, ", ")
	if us != "" {
		us = ", " + us
	}
	elemT := fleanOf(et, c.f)
	if strings.Contains(elemT, "→") || strings.Contains(elemT, "×") || strings.Contains(elemT, " ") {
		elemT = "(" + elemT + ")"
	}
	text := strings.Builder{}
	fmt.Fprintf(&text, "/-- %s: the loop `for %s, %s := range %s` as a recursion over the list; loop state (%s) -/\n", c.f.what, key, value,
		strings.ReplaceAll(exprText(n.X), "-/", "- /"), strings.Join(state, ", "))
	fmt.Fprintf(&text, "def %s : List %s → %s%s%s\n", fsp(name, fS, strings.TrimSpace(c.binders(fixed))), elemT, ctrType, c.arrowTypes(state), c.loopType(state, rets))
	ctrWild := ""
	if counter {
		ctrWild = ", _"
	}
	fmt.Fprintf(&text, "  | []%s%s => %s\n  | %s :: rest_%s%s =>\n    %s\n\n", ctrWild, us, exit, pat, ctrPat, us, indent(body, "    "))
	c.f.helpers = append(c.f.helpers, fhelper{name, text.String()})
	for _, nm := range state {
		if !h.made[nm] {
			delete(c.made, nm)
		}
	}
	call := fsp(name, fA+name+"⟧", strings.Join(fixed, " "), fatom(list), ctrArg, strings.Join(state, " "))
	return fwrap(pre, c.afterLoop(call, state, rets, rest, k))
}

// exprText / stmtText: source text for doc comments
func exprText(x ast.Expr) string {
	switch n := x.(type) {
	case *ast.SliceExpr:
		lo, hi := "", ""
		if n.Low != nil {
			lo = exprText(n.Low)
		}
		if n.High != nil {
			hi = exprText(n.High)
		}
		return exprText(n.X) + "[" + lo + ":" + hi + "]"
	case *ast.BinaryExpr:
		return exprText(n.X) + " " + n.Op.String() + " " + exprText(n.Y)
	case *ast.IndexExpr:
		return exprText(n.X) + "[" + exprText(n.Index) + "]"
	case *ast.SelectorExpr:
		return exprText(n.X) + "." + n.Sel.Name
	case *ast.CallExpr:
		args := make([]string, len(n.Args))
		for i, a := range n.Args {
			args[i] = exprText(a)
		}
		return exprText(n.Fun) + "(" + strings.Join(args, ", ") + ")"
	case *ast.ParenExpr:
		return "(" + exprText(n.X) + ")"
	case *ast.UnaryExpr:
		return n.Op.String() + exprText(n.X)
	case *ast.FuncLit:
		return "func(…) {…}"
	}
	return exprString(x)
}

func stmtText(s ast.Stmt) string {
	switch n := s.(type) {
	case *ast.AssignStmt:
		var l, r []string
		for _, x := range n.Lhs {
			l = append(l, exprText(x))
		}
		for _, x := range n.Rhs {
			r = append(r, exprText(x))
		}
		return strings.Join(l, ", ") + " " + n.Tok.String() + " " + strings.Join(r, ", ")
	case *ast.IncDecStmt:
		return exprText(n.X) + n.Tok.String()
	case *ast.ExprStmt:
		return exprText(n.X)
	case *ast.ReturnStmt:
		var r []string
		for _, x := range n.Results {
			r = append(r, exprText(x))
		}
		return strings.TrimSpace("return " + strings.Join(r, ", "))
	case *ast.ForStmt:
		return "for " + oneLineCond(n) + " {…}"
	case *ast.RangeStmt:
		return "for … := range " + exprText(n.X) + " {…}"
	case *ast.IfStmt:
		return "if " + exprText(n.Cond) + " {…}"
	}
	return fmt.Sprintf("<%T>", s)
}
