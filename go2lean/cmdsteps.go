package main

// cmdsteps.go — the GLUE of the single-step commands as regenerated FUNCTIONS (the facts are cmdfacts.go):
//
//	Gts/Gen/CmdSelect.lean   cmd/gts/select.go   the filter-building statements → selectFilter, the step → selectStep
//	                         cmd/gts/clear.go    clearStep;  define.go defineStep;  annotate.go annotateStep
//	Gts/Gen/CmdReverse.lean  cmd/gts/reverse.go  reverseStep;  complement.go complementStep
//	Gts/Gen/CmdRepair.lean   cmd/gts/repair.go   repairStep
//	Gts/Gen/CmdSearch.lean   cmd/gts/search.go   searchStep (per query: forward hits, hits on the reverse complement)
//	Gts/Gen/CmdSort.lean     cmd/gts/sort.go     byLength.Less → byLengthLess
//
// It is the statement translator of gcli.go / gcli_stmts.go (read its header for how Go is read: slices are values,
// `none` is a run-time panic, `range` loops are recursive helpers, conditionally assigned variables are joined),
// entered through the hooks `kctx.ext` with the forms these commands add:
//
//   - strings: a literal, `*x` for `x := opt.String(…)` / `pos.String(…)` (a `String` parameter), `==` / `!=`;
//     a tagged `switch *x { case "a": … }` is read as the tagless `switch { case *x == "a": … }`.
//   - filters: `gts.Or(fs...)`, `gts.Or(a, b)`, `gts.And(…)`, `gts.Not(f)`, `gts.Key(s)`, `gts.ForwardStrand`,
//     `gts.ReverseStrand` are the MODEL's `orF / andF / notF / keyF / forwardStrand / reverseStrand` (Gts/Model/
//     Feature.lean; regenerated tie of feature.go: Bridge/FeatFilter.lean), `ff.Filter(f)` is `List.filter`
//     (Bridge `featureSliceFilter_eq`).
//   - records: `gts.Reverse / Complement / WithFeatures / New(nil, nil, p) / Len`, `seq.Bytes()`, `seq.Features()` are
//     the model's `Seq.reverse / Seq.complement / Cli.withFeats / Seq.mk [] p / Seq.len / .bytes / .feats`;
//     `gts.Repair(ff)` is the checked `Cli.repairTable`; `ff.Insert(f)` is `Table.insert`;
//     `gts.NewFeature(k, l, p)` is `Feature.mk`; `gts.Range(a, b)` is the checked `Cli.rangeOf` (panic for `b ≤ a`);
//     `l.Reverse(n)`, `l.Complement()` are `Loc.reverse / Loc.complement`; `x.(gts.Ranged)` is the checked
//     `Cli.asRanged`; `a, b := gts.Unpack(seg)` are the two components.
//   - a function variable `m := gts.Match; if *flag { m = gts.Search }` (assigned nowhere else) is
//     `if flag then Cli.seqSearch else Cli.seqMatch`.
//
// The FRAME of a step (cmdStepDef): the last top-level `for S.Scan()` loop of the command function with
// `S := seqio.NewAutoScanner(d)`, `d` from `newIODelegate`, a body that starts with `X := S.Value()`; in front of
// the loop these declarations are read, everything else is unknown inside the step:
//
//	x := opt.Switch(…)                     a Bool parameter          x := opt.String(…) / pos.String(…)   a String parameter
//	x := gts.Props{}                       a `Props` parameter (the `-q` loop that fills it: facts)
//	x := []gts.Sequence{}                  a `List Seq` parameter (the queries)
//	x := gts.NewFeature(…)                 a `Feature` parameter     x := R.Value.([]gts.Feature)   a `List Feature` parameter
//	x := gts.Or(…) / gts.And / Not / Key   a filter parameter (select: the value `selectFilter` computes)
//	buffer := bufio.NewWriter(d); writer := seqio.NewWriter(buffer, filetype)
//
// The filter function of select.go (cmdFilterDef) is the BACKWARD SLICE of the variable handed to `.Filter(·)` in the
// scan loop over the top-level statements in front of the loop: every statement that assigns a variable the slice
// reads, down to option variables and the `make([]gts.Filter, len(*selectors))` slice (a parameter; the loop that
// fills it with `gts.Selector(s)` is checked as a shape and stays with the facts).

import (
	"fmt"
	"go/ast"
	"go/token"
	"path/filepath"
	"strconv"
	"strings"
)

func init() {
	kLean["str"] = "String"
	kLean["props"] = "Gts.Props"
	kLean["filters"] = "List (Gts.Feature → Bool)"
	kElem["filters"] = "filter"
}

// ---- the hooks -------------------------------------------------------------------------------------------

func cmdIsStrSyntax(c *kctx, x ast.Expr) bool {
	switch n := x.(type) {
	case *ast.BasicLit:
		return n.Kind == token.STRING
	case *ast.StarExpr:
		if id, ok := n.X.(*ast.Ident); ok {
			v, isVar := c.vars[id.Name]
			return isVar && v.kind == "strptr"
		}
	case *ast.ParenExpr:
		return cmdIsStrSyntax(c, n.X)
	}
	return false
}

func cmdExpr(c *kctx, x ast.Expr, pre *[]kbind) (kv, bool) {
	switch n := x.(type) {
	case *ast.BasicLit:
		if n.Kind == token.STRING {
			s, err := strconv.Unquote(n.Value)
			if err != nil || !isASCII(s) {
				refuse("string literal %s", n.Value)
			}
			return kv{kind: "str", term: leanString(s)}, true
		}
	case *ast.StarExpr:
		if id, ok := n.X.(*ast.Ident); ok {
			if v, isVar := c.vars[id.Name]; isVar && v.kind == "strptr" {
				return kv{kind: "str", term: c.f.use(v.term)}, true
			}
		}
	case *ast.Ident:
		if v, isVar := c.vars[n.Name]; isVar && (v.kind == "strptr" || strings.HasPrefix(v.kind, "fnv:")) {
			refuse("%s (an option pointer / a function variable) used as a value", n.Name)
		}
	case *ast.BinaryExpr:
		if (n.Op == token.EQL || n.Op == token.NEQ) && (cmdIsStrSyntax(c, n.X) || cmdIsStrSyntax(c, n.Y)) {
			l, r := c.expr(n.X, pre), c.expr(n.Y, pre)
			if l.kind != "str" || r.kind != "str" {
				refuse("comparison of a %s and a %s", l.kind, r.kind)
			}
			op := "="
			if n.Op == token.NEQ {
				op = "≠"
			}
			return kv{kind: "prop", term: fmt.Sprintf("(%s %s %s)", l.term, op, r.term)}, true
		}
	case *ast.SelectorExpr:
		if pkg, name, ok := c.pkgName(n); ok && pkg == "gts" {
			switch name {
			case "ForwardStrand":
				return kv{kind: "filter", term: "Gts.forwardStrand"}, true
			case "ReverseStrand":
				return kv{kind: "filter", term: "Gts.reverseStrand"}, true
			}
		}
	case *ast.TypeAssertExpr:
		if n.Type != nil && exprString(n.Type) == "gts.Ranged" {
			l := c.kindOf(n.X, pre, "loc")
			return kv{kind: "loc", term: c.effect(pre, "Gts.Cli.asRanged "+l)}, true
		}
		refuse("type assertion %s", exprString(n))
	}
	return kv{}, false
}

func cmdFilterList(c *kctx, n *ast.CallExpr, pre *[]kbind) string {
	if n.Ellipsis.IsValid() {
		if len(n.Args) != 1 {
			refuse("%s with an ellipsis and %d arguments", exprString(n.Fun), len(n.Args))
		}
		return c.kindOf(n.Args[0], pre, "filters")
	}
	parts := make([]string, len(n.Args))
	for i, a := range n.Args {
		parts[i] = c.kindOf(a, pre, "filter")
	}
	return "[" + strings.Join(parts, ", ") + "]"
}

func cmdCall(c *kctx, n *ast.CallExpr, pre *[]kbind) (kv, bool) {
	if id, ok := n.Fun.(*ast.Ident); ok {
		if v, isVar := c.vars[id.Name]; isVar && strings.HasPrefix(v.kind, "fnv:") {
			a := strings.Join(c.args(n, v.fnSig, pre), " ")
			res := strings.TrimPrefix(v.kind, "fnv:")
			if v.fnFlag == "" {
				return kv{kind: res, term: fmt.Sprintf("(%s %s)", v.fnElse, a)}, true
			}
			return kv{kind: res, term: fmt.Sprintf("(if %s then %s %s else %s %s)", c.f.use(v.fnFlag), v.fnThen, a, v.fnElse, a)}, true
		}
	}
	if pkg, name, ok := c.pkgName(n.Fun); ok && pkg == "gts" {
		one := func(kinds []string, res, lean string) (kv, bool) {
			a := c.args(n, kinds, pre)
			return kv{kind: res, term: fmt.Sprintf("(%s %s)", lean, strings.Join(a, " "))}, true
		}
		switch name {
		case "Or":
			return kv{kind: "filter", term: fmt.Sprintf("(Gts.orF %s)", cmdFilterList(c, n, pre))}, true
		case "And":
			return kv{kind: "filter", term: fmt.Sprintf("(Gts.andF %s)", cmdFilterList(c, n, pre))}, true
		case "Not":
			return one([]string{"filter"}, "filter", "Gts.notF")
		case "Key":
			return one([]string{"str"}, "filter", "Gts.keyF")
		case "Reverse":
			return one([]string{"seq"}, "seq", "Gts.Seq.reverse")
		case "Complement":
			return one([]string{"seq"}, "seq", "Gts.Seq.complement")
		case "WithFeatures":
			return one([]string{"seq", "feats"}, "seq", "Gts.Cli.withFeats")
		case "NewFeature":
			return one([]string{"str", "loc", "props"}, "feat", "Gts.Feature.mk")
		case "Repair":
			a := c.args(n, []string{"feats"}, pre)
			return kv{kind: "feats", term: c.effect(pre, "Gts.Cli.repairTable "+a[0])}, true
		case "Range":
			a := c.args(n, []string{"int", "int"}, pre)
			return kv{kind: "loc", term: c.effect(pre, fmt.Sprintf("Gts.Cli.rangeOf %s %s", a[0], a[1]))}, true
		case "New":
			if len(n.Args) != 3 || n.Ellipsis.IsValid() || identName(n.Args[0]) != "nil" || identName(n.Args[1]) != "nil" {
				refuse("gts.New other than gts.New(nil, nil, bytes)")
			}
			p := c.kindOf(n.Args[2], pre, "bytes")
			return kv{kind: "seq", term: fmt.Sprintf("(Gts.Seq.mk [] %s)", p)}, true
		}
		return kv{}, false
	}
	sel, ok := n.Fun.(*ast.SelectorExpr)
	if !ok {
		return kv{}, false
	}
	if id, isID := sel.X.(*ast.Ident); isID {
		if _, isVar := c.vars[id.Name]; !isVar {
			return kv{}, false // a package
		}
	}
	// methods on values the C15 translator does not know; the receiver is translated once, here
	switch sel.Sel.Name {
	case "Bytes", "Insert", "Reverse", "Complement":
	default:
		return kv{}, false
	}
	recv := c.expr(sel.X, pre)
	switch {
	case recv.kind == "seq" && sel.Sel.Name == "Bytes":
		c.args(n, nil, pre)
		return kv{kind: "bytes", term: recv.term + ".bytes"}, true
	case recv.kind == "feats" && sel.Sel.Name == "Insert":
		a := c.args(n, []string{"feat"}, pre)
		return kv{kind: "feats", term: fmt.Sprintf("(Gts.Table.insert %s %s)", recv.term, a[0])}, true
	case recv.kind == "loc" && sel.Sel.Name == "Reverse":
		a := c.args(n, []string{"int"}, pre)
		return kv{kind: "loc", term: fmt.Sprintf("(Gts.Loc.reverse %s %s)", recv.term, a[0])}, true
	case recv.kind == "loc" && sel.Sel.Name == "Complement":
		c.args(n, nil, pre)
		return kv{kind: "loc", term: fmt.Sprintf("(Gts.Loc.complement %s)", recv.term)}, true
	}
	refuse("method %s on a %s", sel.Sel.Name, recv.kind)
	return kv{}, false
}

// `a, b := gts.Unpack(seg)`
func cmdAssign(c *kctx, n *ast.AssignStmt, rest []ast.Stmt, k func(c *kctx) string) (string, bool) {
	if len(n.Lhs) != 2 || len(n.Rhs) != 1 {
		return "", false
	}
	call, ok := n.Rhs[0].(*ast.CallExpr)
	if !ok || len(call.Args) != 1 || call.Ellipsis.IsValid() {
		return "", false
	}
	if pkg, name, isPkg := c.pkgName(call.Fun); !isPkg || pkg != "gts" || name != "Unpack" {
		return "", false
	}
	if n.Tok != token.DEFINE && n.Tok != token.ASSIGN {
		refuse("assignment operator %s", n.Tok)
	}
	var pre []kbind
	var lets []string
	seg := c.kindOf(call.Args[0], &pre, "seg")
	t := c.tmp()
	lets = append(lets, fmt.Sprintf("let %s : %s := %s;", t, kLean["seg"], seg))
	for i, l := range n.Lhs {
		id, isID := l.(*ast.Ident)
		if !isID {
			refuse("assignment target %s", exprString(l))
		}
		c.setVar(id.Name, kv{kind: "int", term: fmt.Sprintf("%s.%d", t, i+1)}, &lets, n.Tok == token.DEFINE)
	}
	return kwrap(pre, kjoin(lets, c.stmts(rest, k))), true
}

var cmdExt = &kext{expr: cmdExpr, call: cmdCall, assign: cmdAssign}

// ---- tagged switch → tagless -----------------------------------------------------------------------------

// cmdUntag rewrites `switch T { case A: … }` (T a dereferenced option variable, no init) into the tagless
// `switch { case T == A: … }`, recursively
func cmdUntag(list []ast.Stmt) []ast.Stmt {
	out := make([]ast.Stmt, len(list))
	for i, s := range list {
		out[i] = s
		switch n := s.(type) {
		case *ast.SwitchStmt:
			if n.Tag == nil {
				continue
			}
			star, ok := n.Tag.(*ast.StarExpr)
			if !ok || identName(star.X) == "" || n.Init != nil {
				refuse("switch on %s (only a dereferenced option variable is read)", exprString(n.Tag))
			}
			body := &ast.BlockStmt{}
			for _, cl := range n.Body.List {
				cc := cl.(*ast.CaseClause)
				nc := &ast.CaseClause{Case: cc.Case, Colon: cc.Colon, Body: cmdUntag(cc.Body)}
				if cc.List != nil {
					if len(cc.List) != 1 {
						refuse("case list")
					}
					nc.List = []ast.Expr{&ast.BinaryExpr{X: n.Tag, Op: token.EQL, Y: cc.List[0]}}
				}
				body.List = append(body.List, nc)
			}
			out[i] = &ast.SwitchStmt{Switch: n.Switch, Body: body}
		case *ast.IfStmt:
			cp := *n
			cp.Body = &ast.BlockStmt{List: cmdUntag(n.Body.List)}
			if eb, ok := n.Else.(*ast.BlockStmt); ok {
				cp.Else = &ast.BlockStmt{List: cmdUntag(eb.List)}
			}
			out[i] = &cp
		}
	}
	return out
}

// ---- the frame ---------------------------------------------------------------------------------------------

type cmdStep struct {
	file, goFn, base string
}

type cmdFrame struct {
	fd       *ast.FuncDecl
	c        *kctx
	f        *kfn
	list     []ast.Stmt // the top-level statements
	loopAt   int
	scanner  string
	delegate string
	declAt   map[string]int // top-level statement that declares a variable
}

// the model functions a function variable may hold: name → (Lean, argument kinds, result kind)
var cmdFnValues = map[string]struct {
	lean   string
	params []string
	result string
}{
	"Match":  {"Gts.Cli.seqMatch", []string{"seq", "seq"}, "segs"},
	"Search": {"Gts.Cli.seqSearch", []string{"seq", "seq"}, "segs"},
}

func cmdCallPrefix(x ast.Expr, prefixes ...string) bool {
	call, ok := x.(*ast.CallExpr)
	if !ok {
		return false
	}
	f := exprString(call.Fun)
	for _, p := range prefixes {
		if f == p {
			return true
		}
	}
	return false
}

// cmdReadFrame: the scan loop and the declarations in front of it
func cmdReadFrame(src *source, st cmdStep) *cmdFrame {
	fd, err := src.fun(st.goFn)
	if err != nil {
		refuse("%v", err)
	}
	f := &kfn{base: st.base, what: "cmd/gts/" + st.file + " `" + st.goFn + "`", known: map[string]kcallee{}}
	c := &kctx{f: f, vars: map[string]kv{}, seq: map[string]int{}, local: map[string]bool{}, io: map[string]string{}, ext: cmdExt}
	f.global("mapOrder", "(List Int → List Int)", 0, 0)
	f.global("circular", "Bool", 3, 0)
	fr := &cmdFrame{fd: fd, c: c, f: f, list: fd.Body.List, loopAt: -1, declAt: map[string]int{}}
	// the *flags.Context parameter and the two argument sets `pos, opt := flags.Flags()`, whatever they are called
	if ps := fd.Type.Params.List; len(ps) == 1 && len(ps[0].Names) == 1 && exprString(ps[0].Type) == "*flags.Context" {
		c.ctxNm = ps[0].Names[0].Name
	} else {
		refuse("%s: the parameter list is not (ctx *flags.Context)", st.goFn)
	}
	posName, optName := "", ""
	for _, s := range fr.list {
		if as, ok := s.(*ast.AssignStmt); ok && as.Tok == token.DEFINE && len(as.Lhs) == 2 && len(as.Rhs) == 1 && exprString(as.Rhs[0]) == "flags.Flags()" {
			posName, optName = identName(as.Lhs[0]), identName(as.Lhs[1])
		}
	}
	if posName == "" || optName == "" {
		refuse("%s: no `pos, opt := flags.Flags()`", st.goFn)
	}
	for i, s := range fr.list {
		fs, ok := s.(*ast.ForStmt)
		if !ok || fs.Init != nil || fs.Post != nil || fs.Cond == nil {
			continue
		}
		call, ok := fs.Cond.(*ast.CallExpr)
		if !ok || len(call.Args) != 0 {
			continue
		}
		sel, ok := call.Fun.(*ast.SelectorExpr)
		if ok && sel.Sel.Name == "Scan" && identName(sel.X) != "" {
			fr.loopAt, fr.scanner = i, identName(sel.X)
		}
	}
	if fr.loopAt < 0 {
		refuse("%s: no `for scanner.Scan()` loop", st.goFn)
	}
	scanSrc := ""
	fnDefs := map[string]int{}
	for i, s := range fr.list[:fr.loopAt] {
		switch n := s.(type) {
		case *ast.AssignStmt:
			if n.Tok == token.DEFINE {
				for _, l := range n.Lhs {
					if id := identName(l); id != "" && id != "_" {
						if _, seen := fr.declAt[id]; !seen {
							fr.declAt[id] = i
						}
					}
				}
			}
			if len(n.Rhs) != 1 {
				continue
			}
			lhs0 := identName(n.Lhs[0])
			rhs := n.Rhs[0]
			glob := func(kind string, class int) {
				c.vars[lhs0] = kv{kind: kind, term: kLeanName(lhs0)}
				t := kLean[kind]
				switch kind {
				case "flagptr":
					t = "Bool"
				case "strptr":
					t = "String"
				}
				f.global(kLeanName(lhs0), t, class, i)
			}
			switch {
			case lhs0 == fr.scanner:
				scanSrc = exprString(rhs)
			case n.Tok != token.DEFINE:
			case len(n.Lhs) == 2 && cmdCallPrefix(rhs, "newIODelegate"):
				fr.delegate = lhs0
			case len(n.Lhs) == 1 && cmdCallPrefix(rhs, optName+".Switch"):
				glob("flagptr", 2)
			case len(n.Lhs) == 1 && cmdCallPrefix(rhs, optName+".String", posName+".String"):
				glob("strptr", 2)
			case len(n.Lhs) == 1 && exprString(rhs) == "gts.Props{}":
				glob("props", 4)
			case len(n.Lhs) == 1 && exprString(rhs) == "[]gts.Sequence{}":
				glob("seqs", 4)
			case len(n.Lhs) == 1 && cmdCallPrefix(rhs, "gts.NewFeature"):
				glob("feat", 4)
			case len(n.Lhs) == 1 && cmdCallPrefix(rhs, "gts.Or", "gts.And", "gts.Not", "gts.Key"):
				glob("filter", 1)
			case len(n.Lhs) == 1 && cmdIsFeatureSliceAssert(rhs):
				glob("feats", 4)
			case len(n.Lhs) == 1 && cmdCallPrefix(rhs, "bufio.NewWriter"):
				if call := rhs.(*ast.CallExpr); len(call.Args) == 1 && identName(call.Args[0]) == fr.delegate && fr.delegate != "" {
					c.io[lhs0] = "buffer"
				}
			case len(n.Lhs) == 1 && cmdCallPrefix(rhs, "seqio.NewWriter"):
				if call := rhs.(*ast.CallExpr); len(call.Args) == 2 && c.io[identName(call.Args[0])] == "buffer" {
					c.io[lhs0] = "writer"
				}
			case len(n.Lhs) == 1 && strings.HasPrefix(exprString(rhs), "gts."):
				if fn, ok := cmdFnValues[strings.TrimPrefix(exprString(rhs), "gts.")]; ok {
					c.vars[lhs0] = kv{kind: "fnv:" + fn.result, fnElse: fn.lean, fnSig: fn.params}
					fnDefs[lhs0] = i
				}
			}
		case *ast.IfStmt:
			// `if *flag { f = gts.B }`
			if n.Init != nil || n.Else != nil || len(n.Body.List) != 1 {
				continue
			}
			as, ok := n.Body.List[0].(*ast.AssignStmt)
			if !ok || as.Tok != token.ASSIGN || len(as.Lhs) != 1 || len(as.Rhs) != 1 {
				continue
			}
			v, isFn := c.vars[identName(as.Lhs[0])]
			if !isFn || !strings.HasPrefix(v.kind, "fnv:") {
				continue
			}
			star, isStar := n.Cond.(*ast.StarExpr)
			var flag kv
			isFlag := false
			if isStar {
				flag, isFlag = c.vars[identName(star.X)]
			}
			fn, known := cmdFnValues[strings.TrimPrefix(exprString(as.Rhs[0]), "gts.")]
			if !isStar || !isFlag || flag.kind != "flagptr" || !known || !strings.HasPrefix(exprString(as.Rhs[0]), "gts.") || v.fnFlag != "" ||
				strings.Join(fn.params, ",") != strings.Join(v.fnSig, ",") || "fnv:"+fn.result != v.kind {
				refuse("%s: the conditional assignment of the function variable %s is not of the form `if *flag { f = gts.F }`", st.goFn, identName(as.Lhs[0]))
			}
			v.fnFlag, v.fnThen = flag.term, fn.lean
			c.vars[identName(as.Lhs[0])] = v
		case *ast.DeclStmt:
			if gd, ok := n.Decl.(*ast.GenDecl); ok {
				for _, sp := range gd.Specs {
					if vs, ok := sp.(*ast.ValueSpec); ok {
						for _, id := range vs.Names {
							if _, seen := fr.declAt[id.Name]; !seen {
								fr.declAt[id.Name] = i
							}
						}
					}
				}
			}
		}
	}
	// a function variable is assigned nowhere else
	for name := range fnDefs {
		count := 0
		ast.Inspect(fd.Body, func(x ast.Node) bool {
			if as, ok := x.(*ast.AssignStmt); ok {
				for _, l := range as.Lhs {
					if identName(l) == name {
						count++
					}
				}
			}
			return true
		})
		want := 1
		if c.vars[name].fnFlag != "" {
			want = 2
		}
		if count != want {
			refuse("%s: the function variable %s is assigned %d times", st.goFn, name, count)
		}
	}
	if fr.delegate == "" || scanSrc != "seqio.NewAutoScanner("+fr.delegate+")" {
		refuse("%s: the scanned input is %s, not seqio.NewAutoScanner of the I/O delegate", st.goFn, scanSrc)
	}
	return fr
}

func cmdIsFeatureSliceAssert(x ast.Expr) bool {
	ta, ok := x.(*ast.TypeAssertExpr)
	if !ok || ta.Type == nil {
		return false
	}
	at, ok := ta.Type.(*ast.ArrayType)
	return ok && at.Len == nil && exprString(at.Elt) == "gts.Feature"
}

// a parameter declared in front of the loop must not be assigned inside it, nor between its declaration and the loop
// other than by the statements the frame knows (the `-q` loop of a Props value, the query loop of a `[]gts.Sequence`)
func (fr *cmdFrame) checkNotAssignedInLoop() {
	loop := fr.list[fr.loopAt].(*ast.ForStmt)
	ast.Inspect(loop.Body, func(x ast.Node) bool {
		if as, ok := x.(*ast.AssignStmt); ok && as.Tok != token.DEFINE {
			for _, l := range as.Lhs {
				id := gbBaseIdent(l)
				if v, isVar := fr.c.vars[id]; isVar && !fr.c.local[id] && id != "" {
					switch v.kind {
					case "flagptr", "strptr", "props", "seqs", "feat", "feats", "filter":
						refuse("the scan loop assigns %s, which is set up in front of the loop (state carried between records)", id)
					}
				}
			}
		}
		return true
	})
}

// cmdStepDef: the text of the definitions for the per-record step of one command
func cmdStepDef(src *source, st cmdStep) string {
	fr := cmdReadFrame(src, st)
	c, f := fr.c, fr.f
	body := cmdUntag(fr.list[fr.loopAt].(*ast.ForStmt).Body.List)
	if len(body) == 0 {
		refuse("%s: empty scan loop", st.goFn)
	}
	first, ok := body[0].(*ast.AssignStmt)
	if !ok || first.Tok != token.DEFINE || len(first.Lhs) != 1 || len(first.Rhs) != 1 || exprString(first.Rhs[0]) != fr.scanner+".Value()" {
		refuse("%s: the scan loop does not start with `X := %s.Value()`", st.goFn, fr.scanner)
	}
	record := identName(first.Lhs[0])
	c.declare("written_", "seqs")
	rec := c.declare(record, "seq")
	c.vars[".record"] = kv{kind: "seq", term: record}
	fr.checkNotAssignedInLoop()
	text := c.stmts(body[1:], func(c2 *kctx) string { return "some " + c2.vars["written_"].term })
	b := strings.Builder{}
	for _, h := range f.helpers {
		b.WriteString(h)
	}
	fmt.Fprintf(&b, "/-- %s: what the scan loop does to ONE record `%s` — the records handed to `WriteSeq`, in order (`none`: a run-time panic) -/\n", f.what, record)
	fmt.Fprintf(&b, "def %s%s (%s : Gts.Seq) : Option (List Gts.Seq) :=\n  let written_ : List Gts.Seq := [];\n%s\n\n", st.base, kGDecl, rec.term, kindent(text))
	fmt.Fprintf(&b, "/-- %s: the recognised I/O statements of the step, in source order -/\n", f.what)
	fmt.Fprintf(&b, "def %sFacts : List String := %s\n\n", st.base, leanStrList(f.facts))
	return f.finish(b.String())
}

// ---- the filter of `gts select` ------------------------------------------------------------------------------

// assignedTop: the variables a top-level statement assigns (also inside its branches)
func cmdAssignedIn(s ast.Stmt) map[string]bool {
	out := map[string]bool{}
	ast.Inspect(s, func(x ast.Node) bool {
		switch m := x.(type) {
		case *ast.FuncLit:
			return false
		case *ast.AssignStmt:
			for _, l := range m.Lhs {
				if id := gbBaseIdent(l); id != "" && id != "_" {
					out[id] = true
				}
			}
		case *ast.IncDecStmt:
			if id := gbBaseIdent(m.X); id != "" {
				out[id] = true
			}
		case *ast.RangeStmt:
			for _, l := range []ast.Expr{m.Key, m.Value} {
				if l != nil {
					if id := identName(l); id != "" && id != "_" {
						out[id] = true
					}
				}
			}
		}
		return true
	})
	return out
}

func cmdIdentsIn(s ast.Node) map[string]bool {
	out := map[string]bool{}
	ast.Inspect(s, func(x ast.Node) bool {
		switch m := x.(type) {
		case *ast.SelectorExpr:
			// the selector name is not a variable
			ast.Inspect(m.X, func(y ast.Node) bool {
				if id, ok := y.(*ast.Ident); ok {
					out[id.Name] = true
				}
				return true
			})
			return false
		case *ast.Ident:
			out[m.Name] = true
		}
		return true
	})
	return out
}

// cmdSelectorLoop checks that the `[]gts.Filter` slice V is `make([]gts.Filter, len(*S))` filled by
// `for i, s := range *S { f, err := gts.Selector(s); if err != nil { return … }; V[i] = f }` and by nothing else
func cmdSelectorLoop(fr *cmdFrame, v string) string {
	at, ok := fr.declAt[v]
	if !ok {
		refuse("the filter slice %s is not declared at the top level of the function", v)
	}
	as := fr.list[at].(*ast.AssignStmt)
	call, ok := as.Rhs[0].(*ast.CallExpr)
	if !ok || len(as.Lhs) != 1 || identName(call.Fun) != "make" || len(call.Args) != 2 || exprString(call.Args[0]) != "[]gts.Filter" {
		refuse("the filter slice %s is not `make([]gts.Filter, len(*selectors))`", v)
	}
	ln, ok := call.Args[1].(*ast.CallExpr)
	if !ok || identName(ln.Fun) != "len" || len(ln.Args) != 1 {
		refuse("the filter slice %s is not `make([]gts.Filter, len(*selectors))`", v)
	}
	star, ok := ln.Args[0].(*ast.StarExpr)
	if !ok || identName(star.X) == "" {
		refuse("the filter slice %s is not `make([]gts.Filter, len(*selectors))`", v)
	}
	sels := identName(star.X)
	loops := 0
	for i, s := range fr.list[:fr.loopAt] {
		if i == at || !cmdAssignedIn(s)[v] {
			continue
		}
		rs, ok := s.(*ast.RangeStmt)
		bad := func() {
			refuse("the statement that fills the filter slice %s is not the `gts.Selector` loop over *%s", v, sels)
		}
		if !ok || rs.Tok != token.DEFINE || exprString(rs.X) != "*"+sels || identName(rs.Key) == "" || identName(rs.Value) == "" || len(rs.Body.List) != 3 {
			bad()
		}
		i0, s0 := identName(rs.Key), identName(rs.Value)
		a0, ok0 := rs.Body.List[0].(*ast.AssignStmt)
		if0, ok1 := rs.Body.List[1].(*ast.IfStmt)
		a2, ok2 := rs.Body.List[2].(*ast.AssignStmt)
		if !ok0 || !ok1 || !ok2 || a0.Tok != token.DEFINE || len(a0.Lhs) != 2 || len(a0.Rhs) != 1 || exprString(a0.Rhs[0]) != "gts.Selector("+s0+")" {
			bad()
		}
		f0, e0 := identName(a0.Lhs[0]), identName(a0.Lhs[1])
		if if0.Init != nil || if0.Else != nil || exprString(if0.Cond) != e0+" != nil" || len(if0.Body.List) != 1 {
			bad()
		}
		if _, isRet := if0.Body.List[0].(*ast.ReturnStmt); !isRet {
			bad()
		}
		if a2.Tok != token.ASSIGN || len(a2.Lhs) != 1 || len(a2.Rhs) != 1 || exprString(a2.Lhs[0]) != v+"["+i0+"]" || identName(a2.Rhs[0]) != f0 {
			bad()
		}
		loops++
	}
	if loops != 1 {
		refuse("the filter slice %s is filled by %d loops", v, loops)
	}
	return sels
}

// cmdFilterDef: the filter-building statements of select.go as a function of the selector filters and the options
func cmdFilterDef(src *source, st cmdStep, base string) string {
	fr := cmdReadFrame(src, st)
	c, f := fr.c, fr.f
	f.base = base
	// the variable handed to `.Filter(·)` in the scan loop
	target := ""
	ast.Inspect(fr.list[fr.loopAt], func(x ast.Node) bool {
		call, ok := x.(*ast.CallExpr)
		if !ok || len(call.Args) != 1 {
			return true
		}
		if sel, ok := call.Fun.(*ast.SelectorExpr); ok && sel.Sel.Name == "Filter" {
			id := identName(call.Args[0])
			if id == "" || target != "" && target != id {
				refuse("%s: the scan loop filters with %s (one variable expected)", st.goFn, exprString(call.Args[0]))
			}
			target = id
		}
		return true
	})
	if target == "" {
		refuse("%s: no `.Filter(x)` in the scan loop", st.goFn)
	}
	// backward slice over the top-level statements in front of the loop
	// the parameters of the function: the option variables and the slice(s) `make([]gts.Filter, …)` — what assigns
	// them is not part of the slice (the selector loop is checked by cmdSelectorLoop)
	paramDecl := map[string]bool{}
	sliceDecl := map[string]bool{}
	for _, s := range fr.list[:fr.loopAt] {
		as, ok := s.(*ast.AssignStmt)
		if !ok || as.Tok != token.DEFINE || len(as.Lhs) != 1 || len(as.Rhs) != 1 {
			continue
		}
		name := identName(as.Lhs[0])
		if v, isVar := c.vars[name]; isVar && (v.kind == "flagptr" || v.kind == "strptr") {
			paramDecl[name] = true
		}
		if call, isCall := as.Rhs[0].(*ast.CallExpr); isCall && identName(call.Fun) == "make" && len(call.Args) >= 1 && exprString(call.Args[0]) == "[]gts.Filter" {
			paramDecl[name], sliceDecl[name] = true, true
		}
	}
	need := map[string]bool{target: true}
	take := make([]bool, fr.loopAt)
	for i := fr.loopAt - 1; i >= 0; i-- {
		s := fr.list[i]
		hit := false
		for v := range cmdAssignedIn(s) {
			if need[v] && !paramDecl[v] {
				hit = true
			}
		}
		if !hit {
			continue
		}
		take[i] = true
		for id := range cmdIdentsIn(s) {
			if _, declared := fr.declAt[id]; declared {
				need[id] = true
			}
		}
	}
	params := map[string]bool{}
	for v := range need {
		if sliceDecl[v] {
			params[v] = true
		}
	}
	var blk []ast.Stmt
	for i, t := range take {
		if t {
			blk = append(blk, fr.list[i])
		}
	}
	if len(blk) == 0 {
		refuse("%s: no statement builds the filter %s", st.goFn, target)
	}
	// the variables of the slice are locals of the generated function; the frame registered some of them as
	// parameters of the STEP (the filter variable itself): forget that
	for v := range need {
		if paramDecl[v] {
			continue
		}
		if cur, isVar := c.vars[v]; isVar && (cur.kind == "filter") {
			delete(c.vars, v)
		}
	}
	sels := ""
	for v := range params {
		s := cmdSelectorLoop(fr, v)
		if sels != "" && s != sels {
			refuse("%s: two selector lists", st.goFn)
		}
		sels = s
		c.vars[v] = kv{kind: "filters", term: kLeanName(v)}
		f.global(kLeanName(v), kLean["filters"], 1, fr.declAt[v])
	}
	text := c.stmts(cmdUntag(blk), func(c2 *kctx) string {
		v, ok := c2.vars[target]
		if !ok || v.kind != "filter" {
			refuse("%s: %s is not a filter at the scan loop", st.goFn, target)
		}
		return "some " + v.term
	})
	b := strings.Builder{}
	for _, h := range f.helpers {
		b.WriteString(h)
	}
	fmt.Fprintf(&b, "/-- %s: the statements in front of the scan loop that build `%s`, the filter handed to `FeatureSlice.Filter` for every record (the backward slice of that variable: %d top-level statements), as a function of the filters `gts.Selector` made of the selectors and of the options they read (`none`: a run-time panic — there is none) -/\n", f.what, target, len(blk))
	fmt.Fprintf(&b, "def %s%s : Option (Gts.Feature → Bool) :=\n%s\n\n", base, kGDecl, kindent(text))
	return f.finish(b.String())
}

// ---- `byLength.Less` ---------------------------------------------------------------------------------------

// cmdSortLess: the `Less` method of the type sort.go converts the collected records to (`iface = T(seqs)` with
// `seqs := []gts.Sequence{}`), as a function of the slice and the two indices
func cmdSortLess(src *source, goFn, base string) string {
	fd, err := src.fun(goFn)
	if err != nil {
		refuse("%v", err)
	}
	// the conversion T(x) whose result reaches sort.Sort: the only call of a type of this file on a []gts.Sequence
	typ := ""
	for _, d := range src.file.Decls {
		gd, ok := d.(*ast.GenDecl)
		if !ok || gd.Tok != token.TYPE {
			continue
		}
		for _, sp := range gd.Specs {
			ts := sp.(*ast.TypeSpec)
			if at, ok := ts.Type.(*ast.ArrayType); ok && at.Len == nil && exprString(at.Elt) == "gts.Sequence" {
				uses := callsNamed(fd.Body, ts.Name.Name)
				if len(uses) > 0 {
					if typ != "" {
						refuse("%s: two slice types are converted to", goFn)
					}
					typ = ts.Name.Name
				}
			}
		}
	}
	if typ == "" {
		refuse("%s: no conversion of the records to a `[]gts.Sequence` type with a Less method", goFn)
	}
	var less *ast.FuncDecl
	for _, d := range src.file.Decls {
		md, ok := d.(*ast.FuncDecl)
		if !ok || md.Recv == nil || md.Name.Name != "Less" || md.Body == nil || len(md.Recv.List) != 1 || exprString(md.Recv.List[0].Type) != typ {
			continue
		}
		less = md
	}
	if less == nil || len(less.Recv.List[0].Names) != 1 {
		refuse("%s: no method `(%s) Less`", goFn, typ)
	}
	f := &kfn{base: base, what: "cmd/gts/sort.go `" + typ + ".Less`", known: map[string]kcallee{}}
	c := &kctx{f: f, vars: map[string]kv{}, seq: map[string]int{}, local: map[string]bool{}, io: map[string]string{}, ext: cmdExt}
	f.global("mapOrder", "(List Int → List Int)", 0, 0)
	var binders []string
	rv := c.declare(less.Recv.List[0].Names[0].Name, "seqs")
	binders = append(binders, fmt.Sprintf("(%s : %s)", rv.term, kTypeOf(rv)))
	n := 0
	for _, p := range less.Type.Params.List {
		if exprString(p.Type) != "int" {
			refuse("%s.Less: parameter type %s", typ, exprString(p.Type))
		}
		for _, nm := range p.Names {
			v := c.declare(nm.Name, "int")
			binders = append(binders, fmt.Sprintf("(%s : %s)", v.term, kTypeOf(v)))
			n++
		}
	}
	if n != 2 {
		refuse("%s.Less: %d parameters", typ, n)
	}
	c.retK = "bool"
	c.ret = func(c2 *kctx, rs []ast.Expr) string {
		if len(rs) != 1 {
			refuse("return arity")
		}
		var pre []kbind
		v := kscalar(c2.expr(rs[0], &pre))
		if v.kind != "bool" {
			refuse("return of a %s for a bool", v.kind)
		}
		return kwrap(pre, "some "+v.term)
	}
	text := c.stmts(less.Body.List, nil)
	b := strings.Builder{}
	for _, h := range f.helpers {
		b.WriteString(h)
	}
	fmt.Fprintf(&b, "/-- %s — the order `sort.Sort` is handed for the records `%s` collects (`none`: an index out of range) -/\n", f.what, goFn)
	fmt.Fprintf(&b, "def %s%s %s : Option Bool :=\n%s\n\n", base, kGDecl, strings.Join(binders, " "), kindent(text))
	return f.finish(b.String())
}

// ---- the modules ---------------------------------------------------------------------------------------------

func cmdHeader(what string) string {
	return "/-\n  GENERATED by go2lean (cmdsteps.go over gcli.go) from " + what + " — do not edit.\n" +
		"  The glue of the command: the statements that build what the scan loop uses, and the body of the scan loop, statement by\n" +
		"  statement over the MODEL's library functions (`none` is a Go run-time panic).\n" +
		"  (how the Go is read: the header comments of go2lean/cmdsteps.go and gcli.go)\n-/\n" +
		"import Gts.Model.CliGlue\nimport Gts.Gen.CliList\nnamespace Gts.Gen\nset_option linter.unusedVariables false\n\n"
}

type cmdPart func(dir string) string

func genCmdModule(repo, what string, parts []cmdPart) (text string, err error) {
	defer func() {
		if r := recover(); r != nil {
			if rf, ok := r.(refusal); ok {
				err = fmt.Errorf("%s", rf.msg)
				return
			}
			panic(r)
		}
	}()
	dir := filepath.Join(repo, "cmd", "gts")
	b := strings.Builder{}
	b.WriteString(cmdHeader(what))
	for _, p := range parts {
		b.WriteString(p(dir))
	}
	b.WriteString("end Gts.Gen\n")
	return b.String(), nil
}

func cmdWith(file, goFn string, gen func(src *source) string) cmdPart {
	return func(dir string) string {
		src, perr := parseSource(filepath.Join(dir, file))
		if perr != nil {
			refuse("%v", perr)
		}
		out := ""
		func() {
			defer func() {
				if r := recover(); r != nil {
					if rf, ok := r.(refusal); ok {
						panic(refusal{fmt.Sprintf("cmd/gts/%s %s: %s", file, goFn, rf.msg)})
					}
					panic(r)
				}
			}()
			out = gen(src)
		}()
		return out
	}
}

func cmdStepPart(file, goFn, base string) cmdPart {
	return cmdWith(file, goFn, func(src *source) string { return cmdStepDef(src, cmdStep{file, goFn, base}) })
}

func genCmdSelect(repo string) (string, error) {
	return genCmdModule(repo, "cmd/gts/select.go, clear.go, define.go, annotate.go", []cmdPart{
		cmdWith("select.go", "selectFunc", func(src *source) string {
			return cmdFilterDef(src, cmdStep{"select.go", "selectFunc", "selectStep"}, "selectFilter")
		}),
		cmdStepPart("select.go", "selectFunc", "selectStep"),
		cmdStepPart("clear.go", "clearFunc", "clearStep"),
		cmdStepPart("define.go", "defineFunc", "defineStep"),
		cmdStepPart("annotate.go", "annotateFunc", "annotateStep"),
	})
}

func genCmdReverse(repo string) (string, error) {
	return genCmdModule(repo, "cmd/gts/reverse.go, complement.go", []cmdPart{
		cmdStepPart("reverse.go", "reverseFunc", "reverseStep"),
		cmdStepPart("complement.go", "complementFunc", "complementStep"),
	})
}

func genCmdRepair(repo string) (string, error) {
	return genCmdModule(repo, "cmd/gts/repair.go", []cmdPart{cmdStepPart("repair.go", "repairFunc", "repairStep")})
}

func genCmdSearch(repo string) (string, error) {
	return genCmdModule(repo, "cmd/gts/search.go", []cmdPart{cmdStepPart("search.go", "searchFunc", "searchStep")})
}

func genCmdSort(repo string) (string, error) {
	return genCmdModule(repo, "cmd/gts/sort.go", []cmdPart{
		cmdWith("sort.go", "sortFunc", func(src *source) string { return cmdSortLess(src, "sortFunc", "byLengthLess") }),
	})
}
