package main

import (
	"fmt"
	"go/ast"
	"go/parser"
	"go/token"
	"strconv"
	"strings"
)

type source struct {
	fset *token.FileSet
	file *ast.File
	name string
}

func parseSource(path string) (*source, error) {
	fset := token.NewFileSet()
	f, err := parser.ParseFile(fset, path, nil, parser.SkipObjectResolution)
	if err != nil {
		return nil, err
	}
	return &source{fset: fset, file: f, name: path}, nil
}

func (s *source) errAt(n ast.Node, format string, a ...interface{}) error {
	p := s.fset.Position(n.Pos())
	return fmt.Errorf("%s:%d:%d: %s", p.Filename, p.Line, p.Column, fmt.Sprintf(format, a...))
}

// fun returns the top-level function (not method) with the given name.
func (s *source) fun(name string) (*ast.FuncDecl, error) {
	var found *ast.FuncDecl
	for _, d := range s.file.Decls {
		if fd, ok := d.(*ast.FuncDecl); ok && fd.Recv == nil && fd.Name.Name == name {
			if found != nil {
				return nil, fmt.Errorf("%s: function %s declared twice", s.name, name)
			}
			found = fd
		}
	}
	if found == nil || found.Body == nil {
		return nil, fmt.Errorf("%s: function %s not found", s.name, name)
	}
	return found, nil
}

// exprString renders the few expression forms the extractors compare literally.
func exprString(e ast.Expr) string {
	switch v := e.(type) {
	case *ast.Ident:
		return v.Name
	case *ast.BasicLit:
		return v.Value
	case *ast.SelectorExpr:
		return exprString(v.X) + "." + v.Sel.Name
	case *ast.CallExpr:
		args := make([]string, len(v.Args))
		for i, a := range v.Args {
			args[i] = exprString(a)
		}
		return exprString(v.Fun) + "(" + strings.Join(args, ", ") + ")"
	case *ast.ArrayType:
		if v.Len == nil {
			return "[]" + exprString(v.Elt)
		}
	case *ast.ParenExpr:
		return "(" + exprString(v.X) + ")"
	case *ast.CompositeLit:
		if len(v.Elts) == 0 && v.Type != nil {
			return exprString(v.Type) + "{}"
		}
	case *ast.BinaryExpr:
		return exprString(v.X) + " " + v.Op.String() + " " + exprString(v.Y)
	case *ast.UnaryExpr:
		return v.Op.String() + exprString(v.X)
	case *ast.StarExpr:
		return "*" + exprString(v.X)
	case *ast.IndexExpr:
		return exprString(v.X) + "[" + exprString(v.Index) + "]"
	}
	return fmt.Sprintf("<%T>", e)
}

// callsNamed collects, in source order, every call of the plain identifier name below n.
func callsNamed(n ast.Node, name string) []*ast.CallExpr {
	var out []*ast.CallExpr
	ast.Inspect(n, func(x ast.Node) bool {
		if c, ok := x.(*ast.CallExpr); ok {
			if id, ok := c.Fun.(*ast.Ident); ok && id.Name == name {
				out = append(out, c)
			}
		}
		return true
	})
	return out
}

// byteSliceLiteral accepts exactly `[]byte("…")` and returns the bytes of the literal.
func byteSliceLiteral(e ast.Expr) ([]byte, bool) {
	c, ok := e.(*ast.CallExpr)
	if !ok || len(c.Args) != 1 || exprString(c.Fun) != "[]byte" {
		return nil, false
	}
	s, ok := stringLiteral(c.Args[0])
	return []byte(s), ok
}

func stringLiteral(e ast.Expr) (string, bool) {
	l, ok := e.(*ast.BasicLit)
	if !ok || l.Kind != token.STRING {
		return "", false
	}
	s, err := strconv.Unquote(l.Value)
	return s, err == nil
}

// byteLiteral accepts a character literal that denotes one byte.
func byteLiteral(e ast.Expr) (byte, bool) {
	l, ok := e.(*ast.BasicLit)
	if !ok || l.Kind != token.CHAR {
		return 0, false
	}
	s, err := strconv.Unquote(l.Value)
	if err != nil || len(s) != 1 {
		return 0, false
	}
	return s[0], true
}

// --- Lean rendering -------------------------------------------------------

func leanBytes(p []byte) string {
	xs := make([]string, len(p))
	for i, c := range p {
		xs[i] = strconv.Itoa(int(c))
	}
	return "[" + strings.Join(xs, ", ") + "]"
}

// leanComment renders text for use inside a `--` comment.
func leanComment(s string) string {
	q := strconv.QuoteToASCII(s)
	return strings.ReplaceAll(strings.ReplaceAll(q, "-/", "-\\u002f"), "/-", "\\u002f-")
}

func isASCII(s string) bool {
	for i := 0; i < len(s); i++ {
		if s[i] >= 0x80 {
			return false
		}
	}
	return true
}
