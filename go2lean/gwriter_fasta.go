package main

// Generators (translator: gwriter.go):
//
//	Gts/Gen/FastaWrite.lean   seqio/fasta.go    Fasta.WriteTo (the text handed to io.WriteString),
//	                                            FastaWriter.WriteSeq (the two type switches)           (C17)
//	Gts/Gen/GbFields.lean     seqio/genbank.go  GenBankFields.ID, GenBankFields.String                 (C17)

import (
	"fmt"
	"go/ast"
	"go/token"
	"strings"
)

// writtenText: for a method `func (x T) WriteTo(w io.Writer) (int64, error) { stmts; n, err := io.WriteString(w, S);
// return int64(n), err }` the declaration `func (x T) WriteTo() string { stmts; return S }` — what is written
func wWrittenText(p *wpkg, key string) *ast.FuncDecl {
	fd := p.funcs[key]
	bad := func() {
		refuse("%s.%s does not end in `n, err := io.WriteString(w, S); return int64(n), err`", p.name, key)
	}
	if fd == nil || fd.Body == nil || len(fd.Body.List) < 2 {
		bad()
	}
	ps := wParamNames(fd)
	if len(ps) != 1 || exprString(fd.Type.Params.List[0].Type) != "io.Writer" {
		bad()
	}
	n := len(fd.Body.List)
	as, ok := fd.Body.List[n-2].(*ast.AssignStmt)
	if !ok || as.Tok != token.DEFINE || len(as.Lhs) != 2 || len(as.Rhs) != 1 {
		bad()
	}
	call, ok := as.Rhs[0].(*ast.CallExpr)
	if !ok || exprString(call.Fun) != "io.WriteString" || len(call.Args) != 2 || exprString(call.Args[0]) != ps[0] {
		bad()
	}
	nn, ee := exprString(as.Lhs[0]), exprString(as.Lhs[1])
	ret, ok := fd.Body.List[n-1].(*ast.ReturnStmt)
	if !ok || nn == "_" || ee == "_" || nn == ee || len(ret.Results) != 2 || exprString(ret.Results[0]) != "int64("+nn+")" || exprString(ret.Results[1]) != ee {
		bad()
	}
	// the writer must not be used anywhere else
	for _, s := range fd.Body.List[:n-2] {
		ast.Inspect(s, func(x ast.Node) bool {
			if id, ok := x.(*ast.Ident); ok && id.Name == ps[0] {
				refuse("%s.%s uses its writer in front of the final io.WriteString", p.name, key)
			}
			return true
		})
	}
	body := append(append([]ast.Stmt{}, fd.Body.List[:n-2]...), &ast.ReturnStmt{Return: ret.Return, Results: []ast.Expr{call.Args[1]}})
	return &ast.FuncDecl{Recv: fd.Recv, Name: fd.Name,
		Type: &ast.FuncType{Func: fd.Type.Func, Params: &ast.FieldList{}, Results: &ast.FieldList{List: []*ast.Field{{Type: ast.NewIdent("string")}}}},
		Body: &ast.BlockStmt{Lbrace: fd.Body.Lbrace, List: body, Rbrace: fd.Body.Rbrace}}
}

func fastaModule(repo string) (*wmod, string) {
	m := newWmod(wLoadWorld(repo))
	p := m.w.pkgs["seqio"]
	wt := m.calleeFrom(p, "Fasta.WriteTo", wWrittenText(p, "Fasta.WriteTo"), "fastaWriteTo", "the text handed to io.WriteString")

	// ---- FastaWriter.WriteSeq
	fd := p.funcs["FastaWriter.WriteSeq"]
	if fd == nil || fd.Body == nil {
		refuse("fasta.go: FastaWriter.WriteSeq not found")
	}
	p.checkImports(p.fileOf[fd])
	if len(fd.Recv.List[0].Names) != 1 || len(wParamNames(fd)) != 1 || exprString(fd.Type.Params.List[0].Type) != "gts.Sequence" ||
		fd.Type.Results == nil || len(fd.Type.Results.List) != 2 || exprString(fd.Type.Results.List[0].Type) != "int" || exprString(fd.Type.Results.List[1].Type) != "error" {
		refuse("fasta.go: FastaWriter.WriteSeq is not func (w FastaWriter) WriteSeq(seq gts.Sequence) (int, error)")
	}
	recv := fd.Recv.List[0].Names[0].Name
	seq := wParamNames(fd)[0]
	fs, _ := m.w.structOf("seqio.FastaWriter")
	if len(fs) != 1 || fs[0].typ != "io.Writer" {
		refuse("fasta.go: the struct FastaWriter is not {w io.Writer}")
	}
	wfield := recv + "." + fs[0].name
	if len(fd.Body.List) != 1 {
		refuse("fasta.go: the body of WriteSeq is not a single type switch")
	}
	bound, guard, clauses := wTypeSwitch(fd.Body.List[0], "fasta.go: WriteSeq")
	if guard != seq {
		refuse("fasta.go: WriteSeq: the type switch is not on the parameter")
	}
	arms := map[string]*ast.CaseClause{}
	for _, cc := range clauses {
		k := wCaseKey(cc, "fasta.go: WriteSeq")
		if _, dup := arms[k]; dup {
			refuse("fasta.go: WriteSeq: case %s twice", k)
		}
		arms[k] = cc
	}
	if len(arms) != 3 || arms["Fasta"] == nil || arms["*Fasta"] == nil || arms["default"] == nil {
		refuse("fasta.go: WriteSeq: the cases are not Fasta, *Fasta, default")
	}
	// case Fasta: n, err := v.WriteTo(w.w); return int(n), err
	{
		b := arms["Fasta"].Body
		bad := func() {
			refuse("fasta.go: WriteSeq: case Fasta is not `n, err := %s.WriteTo(%s); return int(n), err`", bound, wfield)
		}
		if len(b) != 2 {
			bad()
		}
		as, ok := b[0].(*ast.AssignStmt)
		if !ok || as.Tok != token.DEFINE || len(as.Lhs) != 2 || len(as.Rhs) != 1 || exprString(as.Rhs[0]) != fmt.Sprintf("%s.WriteTo(%s)", bound, wfield) {
			bad()
		}
		nn, ee := exprString(as.Lhs[0]), exprString(as.Lhs[1])
		ret, ok := b[1].(*ast.ReturnStmt)
		if !ok || nn == "_" || ee == "_" || nn == ee || len(ret.Results) != 2 || exprString(ret.Results[0]) != "int("+nn+")" || exprString(ret.Results[1]) != ee {
			bad()
		}
	}
	// case *Fasta: return w.WriteSeq(*v)
	{
		b := arms["*Fasta"].Body
		if len(b) != 1 {
			refuse("fasta.go: WriteSeq: case *Fasta is not `return %s.WriteSeq(*%s)`", recv, bound)
		}
		ret, ok := b[0].(*ast.ReturnStmt)
		if !ok || len(ret.Results) != 1 || exprString(ret.Results[0]) != fmt.Sprintf("%s.WriteSeq(*%s)", recv, bound) {
			refuse("fasta.go: WriteSeq: case *Fasta is not `return %s.WriteSeq(*%s)`", recv, bound)
		}
	}
	// default: switch info := v.Info().(type) { case string: …; case fmt.Stringer: …; default: return 0, fmt.Errorf(…) }
	db := arms["default"].Body
	if len(db) != 1 {
		refuse("fasta.go: WriteSeq: the default case is not a single type switch")
	}
	ibound, iguard, iclauses := wTypeSwitch(db[0], "fasta.go: WriteSeq (metadata)")
	if iguard != bound+".Info()" {
		refuse("fasta.go: WriteSeq: the inner type switch is not on %s.Info()", bound)
	}
	specials := append([]string{}, wt.specials...)
	pass := ""
	for _, s := range specials {
		pass += " " + s
	}
	// the arms of the inner switch, through the translator
	innerArm := func(cc *ast.CaseClause, infoTyp string) string {
		f := &wfn{m: m, p: p, base: "fastaWriterWriteSeq", used: map[string]bool{}}
		f.what = "fasta.go `FastaWriter.WriteSeq`"
		c := &wctx{f: f, vars: map[string]*wvar{}, marks: map[string]bool{}, eff: false}
		if infoTyp != "" {
			c.declare(ibound, infoTyp)
		}
		f.callExt = func(c *wctx, n *ast.CallExpr, pre *[]wbind) (wval, bool) {
			switch exprString(n.Fun) {
			case bound + ".Bytes":
				if len(n.Args) == 0 {
					return wval{typ: "[]byte", expr: "bytes_"}, true
				}
			case ibound + ".String":
				if infoTyp == "fmt.Stringer!" && len(n.Args) == 0 {
					return wval{typ: "string", expr: wname(ibound)}, true
				}
			case recv + ".WriteSeq":
				if len(n.Args) == 1 {
					a := c.expr(n.Args[0], pre)
					if a.typ != "seqio.Fasta" {
						refuse("%s: WriteSeq is called again with a %s (only a Fasta value is read: its case is known)", c.at(n), a.typ)
					}
					return wval{typ: "written!", expr: "(fastaWriterWriteSeqFasta" + pass + " " + a.expr + ")"}, true
				}
			case "fmt.Errorf":
				return wval{typ: "error!", expr: "none"}, true
			}
			return wval{}, false
		}
		c.ret = func(c *wctx, vals []wval) string {
			switch {
			case len(vals) == 1 && vals[0].typ == "written!":
				return vals[0].expr
			case len(vals) == 2 && vals[1].typ == "error!" && vals[0].lit && vals[0].expr == "(0 : Int)":
				return "none"
			}
			refuse("fasta.go: WriteSeq: a return that is neither `return %s.WriteSeq(f)` nor `return 0, fmt.Errorf(…)`", recv)
			return ""
		}
		if !wTerminates(cc.Body) {
			refuse("%s: the case does not return", c.at(cc))
		}
		text := c.stmts(cc.Body, func(*wctx) string { refuse("internal"); return "" })
		for k := range f.used {
			refuse("fasta.go: WriteSeq: the metadata cases use the parameter %s", k)
		}
		return text
	}
	iarms := map[string]string{}
	for _, cc := range iclauses {
		k := wCaseKey(cc, "fasta.go: WriteSeq (metadata)")
		if _, dup := iarms[k]; dup {
			refuse("fasta.go: WriteSeq: metadata case %s twice", k)
		}
		switch k {
		case "string":
			iarms[k] = innerArm(cc, "string")
		case "fmt.Stringer":
			// `info` is used through info.String() only
			iarms[k] = innerArm(cc, "fmt.Stringer!")
		case "default":
			iarms[k] = innerArm(cc, "")
		default:
			refuse("fasta.go: WriteSeq: metadata case %s outside the subset", k)
		}
	}
	if len(iarms) != 3 {
		refuse("fasta.go: WriteSeq: the metadata cases are not string, fmt.Stringer, default")
	}
	ib := wname(ibound)
	b := strings.Builder{}
	b.WriteString("/-- what the type switches of `FastaWriter.WriteSeq` distinguish in the metadata `" + bound + ".Info()` -/\ninductive InfoDyn where\n" +
		"  /-- `case string` -/\n  | string (s : List UInt8)\n" +
		"  /-- `case fmt.Stringer`: the value of `String()` (a `string` itself is not a Stringer) -/\n  | stringer (s : List UInt8)\n" +
		"  /-- `default` -/\n  | other\n\n")
	b.WriteString("/-- the dynamic type of the `gts.Sequence` handed to `FastaWriter.WriteSeq` -/\ninductive SeqDyn where\n" +
		"  /-- `case Fasta` -/\n  | fasta (v : Fasta)\n  /-- `case *Fasta` (not nil) -/\n  | fastaPtr (v : Fasta)\n" +
		"  /-- `default`: what `Info()` and `Bytes()` return -/\n  | other (info : InfoDyn) (bytes_ : List UInt8)\n\n")
	binders := ""
	for _, s := range specials {
		binders += " " + wSpecialBinder(s)
	}
	fmt.Fprintf(&b, "/-- fasta.go `FastaWriter.WriteSeq`, `case Fasta`: `n, err := %s.WriteTo(%s); return int(n), err` — the text written -/\n"+
		"def fastaWriterWriteSeqFasta%s (%s : Fasta) : Option (List UInt8) :=\n  some (%s%s %s)\n\n", bound, wfield, binders, wname(bound), wt.lean, pass, wname(bound))
	fmt.Fprintf(&b, "/-- fasta.go `FastaWriter.WriteSeq`: the text written, `none` for the returned error.  A call `%s.WriteSeq(f)` with a\n`Fasta` value `f` is the case `Fasta` on `f` -/\n"+
		"def fastaWriterWriteSeq%s : SeqDyn → Option (List UInt8)\n", recv, binders)
	fmt.Fprintf(&b, "  | .fasta %s => fastaWriterWriteSeqFasta%s %s\n", wname(bound), pass, wname(bound))
	fmt.Fprintf(&b, "  | .fastaPtr %s => fastaWriterWriteSeqFasta%s %s\n", wname(bound), pass, wname(bound))
	fmt.Fprintf(&b, "  | .other (.string %s) bytes_ =>\n%s\n", ib, wIndent(wIndent(iarms["string"])))
	fmt.Fprintf(&b, "  | .other (.stringer %s) bytes_ =>\n%s\n", ib, wIndent(wIndent(iarms["fmt.Stringer"])))
	fmt.Fprintf(&b, "  | .other .other bytes_ =>\n%s\n\n", wIndent(wIndent(iarms["default"])))
	return m, b.String()
}

// wTypeSwitch: `switch v := X.(type) { … }`: the bound variable, the text of X, the clauses
func wTypeSwitch(s ast.Stmt, where string) (string, string, []*ast.CaseClause) {
	ts, ok := s.(*ast.TypeSwitchStmt)
	if !ok || ts.Init != nil {
		refuse("%s: not a type switch", where)
	}
	as, ok := ts.Assign.(*ast.AssignStmt)
	if !ok || len(as.Lhs) != 1 || len(as.Rhs) != 1 {
		refuse("%s: the type switch does not bind the value", where)
	}
	ta, ok := as.Rhs[0].(*ast.TypeAssertExpr)
	if !ok || ta.Type != nil {
		refuse("%s: type switch outside the subset", where)
	}
	var out []*ast.CaseClause
	for _, c := range ts.Body.List {
		out = append(out, c.(*ast.CaseClause))
	}
	return as.Lhs[0].(*ast.Ident).Name, exprString(ta.X), out
}

func wCaseKey(cc *ast.CaseClause, where string) string {
	if cc.List == nil {
		return "default"
	}
	if len(cc.List) != 1 {
		refuse("%s: a case with several types", where)
	}
	return exprString(cc.List[0])
}

func genFastaWrite(repo string) (string, error) {
	return wRun(func() string {
		m, tail := fastaModule(repo)
		return m.render(wmodText{
			header: "  GENERATED by go2lean (gwriter_fasta.go) from seqio/fasta.go — do not edit.\n" +
				"  `Fasta.WriteTo` (the text it hands to io.WriteString) statement by statement, and the two type switches of\n" +
				"  `FastaWriter.WriteSeq` over the dynamic types they distinguish (how the Go is read: the header comments of\n" +
				"  go2lean/gwriter.go, gwriter_world.go and Gts/Gen/GoStrings.lean); `wrap.Force` is a parameter.\n",
			ns:   "Gts.Gen.FastaWrite",
			tail: tail,
		})
	})
}

// ---- GenBankFields.ID / String ----------------------------------------------------------------------------------

func gbFieldsModule(repo string) *wmod {
	m := newWmod(wLoadWorld(repo))
	p := m.w.pkgs["seqio"]
	m.callee(p, "GenBankFields.ID")
	m.callee(p, "GenBankFields.String")
	return m
}

func genGbFields(repo string) (string, error) {
	return wRun(func() string {
		m := gbFieldsModule(repo)
		return m.render(wmodText{
			header: "  GENERATED by go2lean (gwriter_fasta.go) from seqio/genbank.go — do not edit.\n" +
				"  The struct `GenBankFields` (and the structs of its fields) and its methods `ID`, `String` statement by\n" +
				"  statement (how the Go is read: the header comments of go2lean/gwriter.go, gwriter_world.go and\n" +
				"  Gts/Gen/GoStrings.lean); the verb `%d` is the parameter `itoa_`.\n",
			ns: "Gts.Gen.GbFields",
		})
	})
}

// ---- GenBank.String --------------------------------------------------------------------------------------------------

func genBankModule(repo string) *wmod {
	m := newWmod(wLoadWorld(repo))
	m.importFrom(insdcModule(repo))
	m.importFrom(gbFieldsModule(repo))
	p := m.w.pkgs["seqio"]
	m.callee(p, "GenBankExtraField")
	m.callee(p, "GenBank.String")
	return m
}

func genGenBankWrite(repo string) (string, error) {
	return wRun(func() string {
		m := genBankModule(repo)
		return m.render(wmodText{
			header: "  GENERATED by go2lean (gwriter_fasta.go) from seqio/genbank.go — do not edit.\n" +
				"  `GenBank.String` statement by statement: the LOCUS line, the field blocks in their order with their\n" +
				"  guards and format strings, the feature table through the regenerated `INSDCFormatter.String`\n" +
				"  (Gts/Gen/InsdcWrite.lean), CONTIG, ORIGIN, `//` — over the Go structs (Gts/Gen/GbFields.lean).  How the Go is\n" +
				"  read: the header comments of go2lean/gwriter.go, gwriter_world.go and Gts/Gen/GoStrings.lean.\n",
			imports: []string{"Gts.Gen.InsdcWrite", "Gts.Gen.GbFields"},
			opens:   []string{"Gts.Gen.InsdcWrite", "Gts.Gen.GbFields"},
			ns:      "Gts.Gen.GenBankWrite",
		})
	})
}

// ---- GenBankFields.Slice ---------------------------------------------------------------------------------------------

// The reference parser of `Slice` is read as a pair of statements:
//
//	P := parseReferenceInfo(E)
//	T := func(info string) ([]gts.Ranged, bool) {
//	    result, err := P.Parse(pars.FromString(info))
//	    if err != nil { return nil, false }
//	    return result.Value.([]gts.Ranged), true
//	}
//
// P is the prefix E (a value), `T(x)` is `parseInfo_ P x` — the parameter: the ranges, `none` for an error.
func gbSliceModule(repo string) *wmod {
	m := newWmod(wLoadWorld(repo))
	m.importFrom(gbFieldsModule(repo))
	p := m.w.pkgs["seqio"]
	closures := map[string]string{} // T -> P
	m.stmtExt = func(c *wctx, list []ast.Stmt, k func(c *wctx) string) (string, bool) {
		if len(list) < 2 {
			return "", false
		}
		as, ok := list[0].(*ast.AssignStmt)
		if !ok || as.Tok != token.DEFINE || len(as.Lhs) != 1 || len(as.Rhs) != 1 {
			return "", false
		}
		call, ok := as.Rhs[0].(*ast.CallExpr)
		if !ok || exprString(call.Fun) != "parseReferenceInfo" || len(call.Args) != 1 {
			return "", false
		}
		if _, ok := p.funcs["parseReferenceInfo"]; !ok {
			refuse("reference.go: parseReferenceInfo not found")
		}
		pid := as.Lhs[0].(*ast.Ident)
		c.checkShadow(pid)
		var pre []wbind
		e := c.expr(call.Args[0], &pre)
		if c.kind(e.typ) != "string" {
			refuse("%s: parseReferenceInfo of a %s", c.at(call), e.typ)
		}
		bad := func() {
			refuse("%s: `%s := parseReferenceInfo(…)` is not followed by the closure `func(info string) ([]gts.Ranged, bool) { result, err := %s.Parse(pars.FromString(info)); if err != nil { return nil, false }; return result.Value.([]gts.Ranged), true }`", c.at(as), pid.Name, pid.Name)
		}
		as2, ok := list[1].(*ast.AssignStmt)
		if !ok || as2.Tok != token.DEFINE || len(as2.Lhs) != 1 || len(as2.Rhs) != 1 {
			bad()
		}
		tid := as2.Lhs[0].(*ast.Ident)
		fl, ok := as2.Rhs[0].(*ast.FuncLit)
		if !ok || len(fl.Body.List) != 3 {
			bad()
		}
		c.checkShadow(tid)
		ft := fl.Type
		if ft.Params == nil || len(ft.Params.List) != 1 || len(ft.Params.List[0].Names) != 1 || exprString(ft.Params.List[0].Type) != "string" ||
			ft.Results == nil || len(ft.Results.List) != 2 || exprString(ft.Results.List[0].Type) != "[]gts.Ranged" || exprString(ft.Results.List[1].Type) != "bool" {
			bad()
		}
		arg := ft.Params.List[0].Names[0].Name
		s0, ok := fl.Body.List[0].(*ast.AssignStmt)
		if !ok || s0.Tok != token.DEFINE || len(s0.Lhs) != 2 || len(s0.Rhs) != 1 || exprString(s0.Rhs[0]) != fmt.Sprintf("%s.Parse(pars.FromString(%s))", pid.Name, arg) {
			bad()
		}
		res, er := exprString(s0.Lhs[0]), exprString(s0.Lhs[1])
		s1, ok := fl.Body.List[1].(*ast.IfStmt)
		if !ok || s1.Init != nil || s1.Else != nil || exprString(s1.Cond) != er+" != nil" || len(s1.Body.List) != 1 {
			bad()
		}
		r1, ok := s1.Body.List[0].(*ast.ReturnStmt)
		if !ok || len(r1.Results) != 2 || exprString(r1.Results[0]) != "nil" || exprString(r1.Results[1]) != "false" {
			bad()
		}
		r2, ok := fl.Body.List[2].(*ast.ReturnStmt)
		if !ok || len(r2.Results) != 2 || exprString(r2.Results[1]) != "true" {
			bad()
		}
		ta, ok := r2.Results[0].(*ast.TypeAssertExpr)
		if !ok || ta.Type == nil || exprString(ta.Type) != "[]gts.Ranged" || exprString(ta.X) != res+".Value" || res == "_" || er == "_" || res == er {
			bad()
		}
		c.declare(pid.Name, "seqio.refParser!")
		c.ownSet(pid.Name)
		c.declare(tid.Name, "closure!")
		c.ownSet(tid.Name)
		closures[tid.Name] = pid.Name
		return wwrap(pre, fmt.Sprintf("let %s : List UInt8 := %s;\n%s", wname(pid.Name), e.expr, c.stmts(list[2:], k))), true
	}
	m.callExt = func(c *wctx, n *ast.CallExpr, pre *[]wbind) (wval, bool) {
		id, ok := n.Fun.(*ast.Ident)
		if !ok {
			return wval{}, false
		}
		v := c.vars[id.Name]
		if v == nil || v.typ != "closure!" {
			return wval{}, false
		}
		pname := closures[id.Name]
		if pv := c.vars[pname]; pv == nil || pv.typ != "seqio.refParser!" || len(n.Args) != 1 {
			refuse("%s: call of %s outside the subset", c.at(n), id.Name)
		}
		c.marks[id.Name] = true
		c.marks[pname] = true
		a := c.expr(n.Args[0], pre)
		if c.kind(a.typ) != "string" {
			refuse("%s: %s of a %s", c.at(n), id.Name, a.typ)
		}
		call := "(" + c.special("parseInfo_") + " " + wname(pname) + " " + a.expr + ")"
		return wval{typ: "tuple", expr: "((" + call + ".getD []), " + call + ".isSome)", multi: []string{"[]gts.Ranged", "bool"}}, true
	}
	m.callee(p, "GenBankFields.Slice")
	return m
}

func genGbSlice(repo string) (string, error) {
	return wRun(func() string {
		m := gbSliceModule(repo)
		return m.render(wmodText{
			header: "  GENERATED by go2lean (gwriter_fasta.go) from seqio/genbank.go — do not edit.\n" +
				"  `GenBankFields.Slice` statement by statement (how the Go is read: the header comments of go2lean/gwriter.go,\n" +
				"  gwriter_world.go and Gts/Gen/GoStrings.lean): the REGION, the loop over the references — parse the info, keep\n" +
				"  the overlapping ranges, clip and re-base them, re-format —, the renumbering.  `parseReferenceInfo(prefix)` with\n" +
				"  the closure around it is the parameter `parseInfo_`, `gts.LocationOverlap` on a `gts.Ranged` the parameter\n" +
				"  `locationOverlap_`, `%d` the parameter `itoa_`.\n",
			imports: []string{"Gts.Gen.GbFields"},
			opens:   []string{"Gts.Gen.GbFields"},
			ns:      "Gts.Gen.GbSlice",
		})
	})
}
