package main

// cmdfacts.go — the GLUE between the library and the CLI as regenerated facts (Gts/Gen/CmdFacts.lean;
// expectation Gts/Spec/CmdTable.lean, bridge Gts/Bridge/CmdFacts.lean; obligations `cmd_<file>` and
// `cmd_inventory` of C19, C05, C12, C18, C17).
//
// Every command function of cmd/gts that has no regenerated tie of its own — select, sort, reverse,
// complement, repair, clear, define, pick, query, search, join, summary, annotate, length — is written
// down, with every other function, method and function literal of its file (`init`, `byLength.Less`,
// `asPicker`, `formatCSV` …), in the NORMAL FORM of gbreader.go: one line `(indent, kind, text)` per
// statement, locals `v0, v1, …` in order of declaration, parameters by type, the receiver `recv`
// (`defer` and the type switch are kinds of their own, hook `stmtExt`; the untyped composite literal
// of `[]tuple{{"command", …}}` through the hook `exprExt`).  So renaming locals changes nothing and
// every other change of a statement — which library function is applied to every record, with which
// arguments built from which options, in which order, and what is written — shows in the bridge
// theorem of its file.
//
//   - `files`: the inventory of cmd/gts — every .go file with the way it is tied (`facts` here, `gcli`
//     the per-record step of a multi-site command (gcli_cmds.go), `iodelegate` io.go, `untied` cache.go /
//     hash.go / main.go) and its top-level declarations in source order; a NEW file shows as `new`.
//   - `registered`: the `flags.Register(name, …, fn)` calls of the `init` functions: which function runs
//     for which command name.
//   - `types`: the types the facts files declare.
//   - derived tables for the command function of EVERY command (the six multi-site ones included, whose
//     normal form is generated for this purpose only): `calls`, `returns`, `under` as in iodelegate.go —
//     the frame reader → edit → writer is stated on them (`cmd_frames`).
//
// A statement or expression form the printer does not know makes THAT function's table the single line
// `(0, "refused", reason)`: only the theorems about it stop checking.

import (
	"fmt"
	"go/ast"
	"go/token"
	"os"
	"path/filepath"
	"sort"
	"strings"
)

// how every file of cmd/gts is tied; a file that is not listed shows as `new` in the inventory
var cmdFileTie = map[string]string{
	"annotate.go": "facts", "clear.go": "facts", "complement.go": "facts", "define.go": "facts", "join.go": "facts",
	"length.go": "facts", "pick.go": "facts", "query.go": "facts", "repair.go": "facts", "reverse.go": "facts",
	"search.go": "facts", "select.go": "facts", "sort.go": "facts", "summary.go": "facts",
	"delete.go": "gcli", "extract.go": "gcli", "infix.go": "gcli", "insert.go": "gcli", "rotate.go": "gcli", "split.go": "gcli",
	"io.go": "iodelegate", "cache.go": "untied", "hash.go": "untied", "main.go": "untied",
}

// cmdStmtExt: `defer f(x)` and the type switch `switch v := x.(type) { case T: … }`
func cmdStmtExt(p *gbPrinter, sc *gbScope, s ast.Stmt, ind int, out *[]gbLine) bool {
	switch n := s.(type) {
	case *ast.DeferStmt:
		*out = append(*out, gbLine{ind, "defer", p.expr(sc, n.Call)})
		return true
	case *ast.TypeSwitchStmt:
		if n.Init != nil {
			p.refuse(s, "type switch with an init statement")
		}
		in := p.open(sc)
		guard := func(x ast.Expr) string {
			ta, ok := x.(*ast.TypeAssertExpr)
			if !ok || ta.Type != nil {
				p.refuse(s, "type switch guard")
			}
			return p.expr(sc, ta.X) + ".(type)"
		}
		text := ""
		switch a := n.Assign.(type) {
		case *ast.ExprStmt:
			text = guard(a.X)
		case *ast.AssignStmt:
			if a.Tok != token.DEFINE || len(a.Lhs) != 1 || len(a.Rhs) != 1 {
				p.refuse(s, "type switch guard")
			}
			id, ok := a.Lhs[0].(*ast.Ident)
			if !ok {
				p.refuse(s, "type switch guard")
			}
			g := guard(a.Rhs[0])
			text = p.declare(in, id) + " := " + g
		default:
			p.refuse(s, "type switch guard")
		}
		*out = append(*out, gbLine{ind, "typeswitch", text})
		for _, c := range n.Body.List {
			cc := c.(*ast.CaseClause)
			if cc.List == nil {
				*out = append(*out, gbLine{ind + 1, "default", ""})
			} else {
				ts := make([]string, len(cc.List))
				for i, e := range cc.List {
					if id, ok := e.(*ast.Ident); ok && id.Name == "nil" {
						ts[i] = "nil"
					} else {
						ts[i] = p.typ(e)
					}
				}
				*out = append(*out, gbLine{ind + 1, "case", strings.Join(ts, ", ")})
			}
			p.block(in, cc.Body, ind+2, out)
		}
		return true
	}
	return false
}

// cmdExprExt: the untyped composite literal `{a, b}` (an element of `[]tuple{…}`)
func cmdExprExt(p *gbPrinter, sc *gbScope, x ast.Expr) (string, bool) {
	cl, ok := x.(*ast.CompositeLit)
	if !ok || cl.Type != nil {
		return "", false
	}
	elts := make([]string, len(cl.Elts))
	for i, e := range cl.Elts {
		if _, kv := e.(*ast.KeyValueExpr); kv {
			return "", false
		}
		elts[i] = p.expr(sc, e)
	}
	return "{" + strings.Join(elts, ", ") + "}", true
}

// cmdPrintDecl: one function or method in the normal form, its function literals behind it; a refusal
// becomes the one-line table `refused`
func cmdPrintDecl(src *source, fd *ast.FuncDecl) (out []gbFn) {
	name := fd.Name.Name
	defer func() {
		if r := recover(); r != nil {
			rf, ok := r.(refusal)
			if !ok {
				panic(r)
			}
			out = []gbFn{{name: name, lines: []gbLine{{0, "refused", rf.msg}}}}
		}
	}()
	name, recvType := ioDeclName(fd)
	p := &gbPrinter{src: src, top: name, ncount: map[string]int{}, fns: map[int]*gbFn{}, stmtExt: cmdStmtExt, exprExt: cmdExprExt}
	sc := p.open(nil)
	recv := ""
	if fd.Recv != nil {
		recv = "(recv " + recvType + ") "
		if ns := fd.Recv.List[0].Names; len(ns) == 1 && ns[0].Name != "_" {
			sc.names[ns[0].Name] = "recv"
		}
	}
	main := gbFn{name: name}
	sig := p.bindSig(sc, fd.Type)
	main.lines = append(main.lines, gbLine{0, "func", recv + sig})
	p.body(sc, fd.Type, fd.Body.List, 1, &main.lines)
	out = []gbFn{main}
	for k := 0; k < p.nfunc; k++ {
		out = append(out, *p.fns[k])
	}
	return out
}

func cmdMangle(s string) string {
	return strings.NewReplacer("/", "_", ".", "_").Replace(s)
}

// cmdDeclNames: the top-level declarations of a file in source order (`T.M` for a method, `type T`,
// `var x` / `const x`)
func cmdDeclNames(src *source) []string {
	var out []string
	for _, d := range src.file.Decls {
		switch dd := d.(type) {
		case *ast.FuncDecl:
			n := dd.Name.Name
			if dd.Recv != nil && len(dd.Recv.List) == 1 {
				n = strings.TrimPrefix(exprString(dd.Recv.List[0].Type), "*") + "." + n
			}
			out = append(out, n)
		case *ast.GenDecl:
			for _, sp := range dd.Specs {
				switch s := sp.(type) {
				case *ast.TypeSpec:
					out = append(out, "type "+s.Name.Name)
				case *ast.ValueSpec:
					for _, id := range s.Names {
						out = append(out, strings.ToLower(dd.Tok.String())+" "+id.Name)
					}
				}
			}
		}
	}
	return out
}

// cmdRegistered: the `flags.Register("name", "help", fn)` calls of a file's `init`
func cmdRegistered(src *source) [][2]string {
	var out [][2]string
	for _, d := range src.file.Decls {
		fd, ok := d.(*ast.FuncDecl)
		if !ok || fd.Recv != nil || fd.Name.Name != "init" || fd.Body == nil {
			continue
		}
		ast.Inspect(fd.Body, func(x ast.Node) bool {
			call, ok := x.(*ast.CallExpr)
			if !ok || exprString(call.Fun) != "flags.Register" || len(call.Args) != 3 {
				return true
			}
			name, isLit := stringLiteral(call.Args[0])
			fn := identName(call.Args[2])
			if !isLit || fn == "" {
				name, fn = exprString(call.Args[0]), exprString(call.Args[2])
			}
			out = append(out, [2]string{name, fn})
			return true
		})
	}
	return out
}

type cmdPipeRow struct {
	callee string
	under  []string
}

// the packages whose functions make up the library pipeline, and the methods of library values
var cmdPipePkgs = map[string]bool{"gts": true, "seqio": true}
var cmdPipeMethods = map[string]bool{"Features": true, "Filter": true, "Insert": true, "WriteSeq": true, "Scan": true, "Value": true,
	"Err": true, "Bytes": true, "Info": true, "Reverse": true, "Complement": true, "Region": true, "Locate": true, "Head": true,
	"Tail": true, "Len": true, "Resize": true, "Commit": true, "TryCache": true, "Flush": true}

// cmdPipeline: the library calls of a command function in source order with the kinds of the headers above them
func cmdPipeline(f gbFn) (rows []cmdPipeRow) {
	defer func() {
		if r := recover(); r != nil {
			rf, ok := r.(refusal)
			if !ok {
				panic(r)
			}
			rows = []cmdPipeRow{{"refused", []string{rf.msg}}}
		}
	}()
	for i, l := range f.lines {
		if l.kind == "refused" {
			return []cmdPipeRow{{"refused", []string{l.text}}}
		}
		if l.kind == "func" || l.kind == "case" && !strings.Contains(l.text, "(") {
			continue
		}
		var kinds []string
		for _, h := range ioUnder(f, i) {
			k := strings.SplitN(h, " ", 2)[0]
			if strings.HasPrefix(h, "else of if") {
				k = "else"
			}
			kinds = append(kinds, k)
		}
		if l.kind == "for" || l.kind == "range" || l.kind == "if" || l.kind == "switch" || l.kind == "typeswitch" || l.kind == "defer" || l.kind == "return" {
			kinds = append(kinds, l.kind+":")
		}
		// values of the library packages that are not called (`gts.ForwardStrand`, `gts.Circular`, `gts.Match`)
		toks := ioScan(l.text)
		calls := ioCalls(l.text)
		isCallee := map[string]bool{}
		for _, c := range calls {
			isCallee[c.callee] = true
		}
		type ev struct {
			off  int
			name string
		}
		var evs []ev
		for j := 0; j+2 < len(toks); j++ {
			if toks[j].tok == token.IDENT && cmdPipePkgs[toks[j].text] && toks[j+1].tok == token.PERIOD && toks[j+2].tok == token.IDENT &&
				(j == 0 || toks[j-1].tok != token.PERIOD) {
				name := toks[j].text + "." + toks[j+2].text
				if name == "gts.Version" {
					continue // the cache key, C14
				}
				called := j+3 < len(toks) && toks[j+3].tok == token.LPAREN
				if called {
					name += "()"
				}
				evs = append(evs, ev{toks[j].off, name})
			}
		}
		// method calls on values: `.M(` with M in the list, the receiver not a library package
		for j := 1; j+1 < len(toks); j++ {
			if toks[j].tok == token.IDENT && toks[j-1].tok == token.PERIOD && toks[j+1].tok == token.LPAREN && cmdPipeMethods[toks[j].text] {
				if j >= 2 && toks[j-2].tok == token.IDENT && cmdPipePkgs[toks[j-2].text] && (j < 3 || toks[j-3].tok != token.PERIOD) {
					continue // gts.Reverse( … ): listed above
				}
				evs = append(evs, ev{toks[j].off, "." + toks[j].text + "()"})
			}
		}
		sort.Slice(evs, func(a, b int) bool { return evs[a].off < evs[b].off })
		for _, e := range evs {
			rows = append(rows, cmdPipeRow{e.name, kinds})
		}
	}
	return rows
}

func genCmdFacts(repo string) (text string, err error) {
	defer recoverRefusal(&err)
	dir := filepath.Join(repo, "cmd", "gts")
	ents, rerr := os.ReadDir(dir)
	if rerr != nil {
		return "", rerr
	}
	var names []string
	for _, e := range ents {
		if e.IsDir() || !strings.HasSuffix(e.Name(), ".go") || strings.HasSuffix(e.Name(), "_test.go") {
			continue
		}
		names = append(names, e.Name())
	}
	sort.Strings(names)

	b := strings.Builder{}
	b.WriteString("/-\n  GENERATED by go2lean (cmdfacts.go) from cmd/gts/*.go - DO NOT EDIT.  Regenerated by bin/setup and by every\n  bin/check run.\n")
	b.WriteString("  The command functions that have no regenerated tie of their own (and every other function of their files) in the\n  normal form of the reader facts, one line per statement (indent, kind, text): locals renamed in order of\n  declaration (`v0, v1, …`), parameters by type, the receiver `recv`; the inventory of cmd/gts; the tables read off\n  the command functions.  Compared with the expectation Gts/Spec/CmdTable.lean by Gts/Bridge/CmdFacts.lean.\n-/\n")
	b.WriteString("namespace Gts.Gen.Cmd\n\n")
	b.WriteString("/-- one statement: (indent, kind, text) -/\nabbrev Line := Nat × String × String\n\n")

	type fileRow struct {
		file, tie string
		decls     []string
	}
	var inventory []fileRow
	var registered [][3]string
	pipe := func(name string, f gbFn) {
		rows := cmdPipeline(f)
		fmt.Fprintf(&b, "/-- the LIBRARY PIPELINE of `%s`: every call of a function or value of package `gts` / `seqio` and every method\ncall on a library value (`.Features()`, `.Filter(…)`, `.Insert(…)`, `.WriteSeq(…)`, `.Scan()` …) in source order, each with\nthe KINDS of the headers it stands under.  No variable name and no line number occurs in it: a rewrite of the option\nhandling or of the error paths keeps it; a library call that is added, dropped, replaced or moved under / out of a\ncondition or a loop changes it. -/\ndef pipeline_%s : List (String × List String) := [\n", f.name, name)
		for j, r := range rows {
			fmt.Fprintf(&b, "  (%s, %s)%s\n", leanString(r.callee), leanStrs(r.under), sepComma(j, len(rows)))
		}
		b.WriteString("]\n\n")
	}
	for _, fn := range names {
		src, perr := parseSource(filepath.Join(dir, fn))
		if perr != nil {
			return "", perr
		}
		tie, known := cmdFileTie[fn]
		if !known {
			tie = "new"
		}
		stem := strings.TrimSuffix(fn, ".go")
		decls := cmdDeclNames(src)
		regs := cmdRegistered(src)
		for _, r := range regs {
			registered = append(registered, [3]string{fn, r[0], r[1]})
		}
		isCmdFn := map[string]bool{}
		for _, r := range regs {
			isCmdFn[r[1]] = true
		}
		if tie != "facts" {
			inventory = append(inventory, fileRow{fn, tie, decls})
		} else {
			inventory = append(inventory, fileRow{fn, tie, nil})
		}
		if tie != "facts" && tie != "gcli" {
			continue
		}
		var all []gbFn
		var cmdFn *gbFn
		for _, d := range src.file.Decls {
			fd, ok := d.(*ast.FuncDecl)
			if !ok || fd.Body == nil {
				continue
			}
			if tie == "gcli" && !(fd.Recv == nil && isCmdFn[fd.Name.Name]) {
				continue
			}
			fns := cmdPrintDecl(src, fd)
			all = append(all, fns...)
			if fd.Recv == nil && isCmdFn[fd.Name.Name] {
				cmdFn = &gbFn{name: stem + "/" + fd.Name.Name, lines: fns[0].lines}
			}
		}
		if tie == "gcli" {
			// the normal form of a multi-site command is generated for its pipeline only
			if cmdFn != nil {
				pipe(cmdMangle(stem), *cmdFn)
			}
			continue
		}
		for _, f := range all {
			fmt.Fprintf(&b, "def fn_%s_%s : List Line := [\n", cmdMangle(stem), cmdMangle(f.name))
			for i, l := range f.lines {
				fmt.Fprintf(&b, "  (%d, %s, %s)%s\n", l.ind, leanString(l.kind), leanString(l.text), sepComma(i, len(f.lines)))
			}
			b.WriteString("]\n\n")
		}
		fmt.Fprintf(&b, "/-- cmd/gts/%s: every function, method and function literal, in source order -/\ndef file_%s : List (String × List Line) := [\n", fn, cmdMangle(stem))
		for i, f := range all {
			fmt.Fprintf(&b, "  (%s, fn_%s_%s)%s\n", leanString(f.name), cmdMangle(stem), cmdMangle(f.name), sepComma(i, len(all)))
		}
		b.WriteString("]\n\n")
		fmt.Fprintf(&b, "/-- cmd/gts/%s: its top-level declarations in source order -/\ndef decls_%s : List String := %s\n\n", fn, cmdMangle(stem), leanStrs(decls))
		var types [][2]interface{}
		func() {
			defer func() {
				if r := recover(); r != nil {
					if rf, ok := r.(refusal); ok {
						types = [][2]interface{}{{"refused", []string{rf.msg}}}
						return
					}
					panic(r)
				}
			}()
			types = ioStructs(src)
		}()
		fmt.Fprintf(&b, "/-- cmd/gts/%s: the types it declares (a struct field by field / another type as `= T`) -/\ndef types_%s : List (String × List String) := [", fn, cmdMangle(stem))
		for i, t := range types {
			fmt.Fprintf(&b, "\n  (%s, %s)%s", leanString(t[0].(string)), leanStrs(t[1].([]string)), sepComma(i, len(types)))
		}
		if len(types) > 0 {
			b.WriteString("\n")
		}
		b.WriteString("]\n\n")
		if cmdFn != nil {
			pipe(cmdMangle(stem), *cmdFn)
		}
	}

	b.WriteString("/-- the inventory of cmd/gts: (file, how it is tied — `facts`: every function in normal form here, declarations in\n`decls_<file>`; `gcli`: the per-record step regenerated by go2lean/gcli_cmds.go; `iodelegate`: go2lean/iodelegate.go;\n`untied`; `new`: a file the generator does not know —, for a file that is not `facts` its top-level declarations in\nsource order) -/\ndef files : List (String × String × List String) := [\n")
	for i, r := range inventory {
		fmt.Fprintf(&b, "  (%s, %s, %s)%s\n", leanString(r.file), leanString(r.tie), leanStrs(r.decls), sepComma(i, len(inventory)))
	}
	b.WriteString("]\n\n")
	b.WriteString("/-- the `flags.Register(name, help, fn)` calls of the `init` functions: (file, command name, command function) -/\ndef registered : List (String × String × String) := [\n")
	for i, r := range registered {
		fmt.Fprintf(&b, "  (%s, %s, %s)%s\n", leanString(r[0]), leanString(r[1]), leanString(r[2]), sepComma(i, len(registered)))
	}
	b.WriteString("]\n\n")
	b.WriteString("end Gts.Gen.Cmd\n")
	return b.String(), nil
}
