package main

// gparsfn.go — the state and the primitive parsers of github.com/go-pars/pars as generated FUNCTIONS
// (Gts/Gen/Pars.lean, prelude Gts/Gen/ParsPrelude.lean; bridge Gts/Bridge/Pars*.lean, obligations of C07).
//
// The hand-written model Gts/Model/Pars.lean reads a parser state as "the rest of the input + the rests at
// the saved positions".  The Go state is a buffer with an offset, the end of the requested range, a reader
// that fills the buffer in chunks, a line / byte position and a stack of (offset, position) frames kept in
// a slice with a fill index; `Clear` (and `autoclear`, whenever the stack runs empty) re-bases all offsets.
// This generator translates that code LITERALLY, statement by statement, so that the bridge can prove the
// model's reading of it:
//
//   - the struct types `Position`, `frame`, `stack`, `State` become Lean structures field by field
//     (`int` = `Int`, `[]byte` = `List UInt8`, `error` = `Option ε`, `io.Reader` = an abstract `ρ`,
//     `*stack` = the stack as a value: nobody else holds the pointer);
//   - a function or method is a Lean function: a pointer receiver / parameter of type *State, *stack is
//     taken and given back (`(state', results…)`), `*Result` likewise as the value last set
//     (`SetToken(p)` = `.token p`, `SetValue(n)` = `.int n`: the reading of result.go, pinned by the facts);
//     a function whose body can panic (index, slice expression, `panic(…)`, a callee that can) yields
//     `Option`, `none` = the Go panic;
//   - `if` / tagless `switch` that can fall through get a JOIN POINT lifted to a definition of its own
//     (`<function>_k<n>` over the variables in scope); a `for` loop is `loop body exit fuel vars` of the
//     prelude: the body (condition first) is a definition `<function>_body<n>` answering `.next` /
//     `.done` / `.ret`, so that the generated text itself has no recursion; `for _, b := range p` with a
//     body that only assigns is a `List.foldl`;
//   - what is NOT translated is a field of the parameter record `Env`: the read loop at the head of
//     `State.Request` (`fill`: its five statements are compared with the expected normal form, then it
//     is one call), error VALUES (`mkErr`: every `NewError` / `NewNestedError` / `errors.New`),
//     `strconv.Atoi` (`atoi`), `ascii.IsDigit` / `ascii.IsSpace` (`isDigit`, `isSpace`).
//
// Every other statement or expression form is refused.

import (
	"fmt"
	"go/ast"
	"go/token"
	"strconv"
	"strings"
)

// ---- types ------------------------------------------------------------------------------------------

// Go type text -> the translator's type
var pfGoTypes = map[string]string{
	"int": "int", "bool": "bool", "byte": "byte", "[]byte": "bytes", "string": "bytes", "error": "error",
	"Position": "Position", "frame": "frame", "[]frame": "frames", "*stack": "stack", "stack": "stack",
	"*State": "State", "State": "State", "*Result": "Result", "io.Reader": "reader", "ascii.Filter": "filter",
	"func(byte) bool": "filter", "Parser": "parser", "Map": "mapfn",
}

var pfLeanTypes = map[string]string{
	"int": "Int", "bool": "Bool", "byte": "UInt8", "bytes": "List UInt8", "error": "Option ε",
	"Position": "Position", "frame": "Frame", "frames": "List Frame", "stack": "Stack", "State": "State ρ ε",
	"Result": "ResultV", "reader": "ρ", "filter": "UInt8 → Bool",
	"parser": "GoParser ρ ε", "parsers": "List (GoParser ρ ε)", "mapfn": "ResultV → ResultV × Option ε",
}

var pfStructLean = map[string]string{"Position": "Position", "frame": "Frame", "stack": "Stack", "State": "State"}

type pfField struct{ name, lean, typ string }

func pfLeanField(n string) string {
	if n == "end" {
		return "end_"
	}
	return n
}

// ---- functions --------------------------------------------------------------------------------------

type pfParam struct {
	name, typ string
	ptr       bool // *State, *stack, *Result: taken and given back
}

type pfFunc struct {
	key, lean string
	d         *parsDecl
	ft        *ast.FuncType
	body      []ast.Stmt
	params    []pfParam // receiver first, captured parameters of the constructor next
	results   []string
	partial   bool
	fuel, env bool
	textOnly  map[string]bool // set-up variables of a constructor that hold error texts
	doc       string
	fill      bool       // State.Request: the read loop at its head is replaced by env.fill
	prefix    []ast.Stmt // a constructor's set-up statements that compute something the parser uses
	generic   bool       // the signature mentions ρ / ε
	named     []pfParam  // named results: variables that start at their zero value
}

// the translated functions, callee before caller; `X/func0` is the parser a constructor returns
var pfOrder = []struct{ key, lean string }{
	{"Position.Head", "positionHead"},
	{"stack.Empty", "stackEmpty"}, {"stack.Push", "stackPush"}, {"stack.Pop", "stackPop"}, {"stack.Reset", "stackReset"},
	{"State.Request", "stateRequest"}, {"State.Buffer", "stateBuffer"}, {"State.Offset", "stateOffset"},
	{"State.Position", "statePosition"}, {"State.Push", "statePush"}, {"State.Pushed", "statePushed"},
	{"State.Clear", "stateClear"}, {"State.autoclear", "stateAutoclear"}, {"State.Pop", "statePop"},
	{"State.Drop", "stateDrop"}, {"State.Advance", "stateAdvance"},
	{"Skip", "parsSkip"}, {"Next", "parsNext"}, {"Trail", "parsTrail"},
	{"End", "parsEnd"}, {"Head", "parsHead"},
	{"Byte/func1", "parsByte"}, {"Bytes/func0", "parsBytes"}, {"String/func0", "parsString"},
	{"Spaces", "parsSpaces"}, {"Word/func0", "parsWord"},
	{"EOL", "parsEOL"}, {"calculateLineLength", "parsCalculateLineLength"}, {"Line", "parsLine"},
	{"untilByte/func0", "parsUntilByte"}, {"untilFilter/func0", "parsUntilFilter"},
	{"Until/func0", "parsUntil"}, // the `default:` case of Until: a parser argument
	{"convertInt", "parsConvertInt"}, {"Int", "parsInt"},
	{"Parser.Map/func0", "parsMap"}, {"Dry/func0", "parsDry"}, {"Maybe/func0", "parsMaybe"}, {"Any/func0", "parsAny"},
	{"Seq/func0", "parsSeq"}, {"Child/func0", "parsChild"}, // gparsseq.go; behind them: parsMapP, parsParserChild, parsExact
}

// the read loop of State.Request in the normal form of the facts (renaming-invariant)
var pfFillLoop = []gbLine{
	{1, "for", "len(recv.buf) < recv.off + n0 && recv.err == nil"},
	{2, "assign", "v0 := make([]byte, bufferReadSize)"},
	{2, "var", "v1 int"},
	{2, "assign", "v1, recv.err = recv.rd.Read(v0)"},
	{2, "assign", "recv.buf = append(recv.buf, v0[:v1]...)"},
}

type pfGen struct {
	pk      *parsPkg
	structs map[string][]pfField
	funcs   map[string]*pfFunc
	consts  map[string]string
	out     []string // finished definitions, in order
}

func (g *pfGen) goType(what string, x ast.Expr) string {
	t, ok := pfGoTypes[nodeText(x)]
	if !ok {
		refuse("go-pars: %s: type %s is outside the translator's subset", what, nodeText(x))
	}
	return t
}

func pfIsPtr(x ast.Expr) bool {
	_, ok := x.(*ast.StarExpr)
	return ok
}

// ---- values and contexts ----------------------------------------------------------------------------

type pfVal struct{ lean, typ string }

type pfVar struct{ typ string }

// what falling off the end / `return` / `break` / `continue` mean where a statement stands
type pfCtx struct {
	g      *pfGen
	f      *pfFunc
	vars   map[string]pfVar
	order  []string
	pre    []string // binds in front of the statement at hand
	ntmp   *int
	nk     *int
	inLoop bool
	loopVs []string // the loop state (variables) when inLoop
	retT   string   // Lean type a `return` yields (without Option / Flow)
	flowT  string   // in a loop body: the Flow type arguments "(σ) (R)"
}

func (c *pfCtx) clone() *pfCtx {
	n := *c
	n.vars = map[string]pfVar{}
	for k, v := range c.vars {
		n.vars[k] = v
	}
	n.order = append([]string{}, c.order...)
	n.pre = nil
	return &n
}

func (c *pfCtx) refuse(n ast.Node, format string, a ...interface{}) {
	panic(refusal{c.f.d.src.errAt(n, "%s: %s", c.f.key, fmt.Sprintf(format, a...)).Error()})
}

func (c *pfCtx) declare(name, typ string) {
	if strings.HasSuffix(name, "_") {
		refuse("go-pars: %s: variable name %s is reserved by the generator", c.f.key, name)
	}
	switch name {
	case "env", "fuel", "loop", "some", "none", "fun", "let", "if", "then", "else", "match", "with", "end", "at", "from", "have", "show", "do":
		refuse("go-pars: %s: variable name %s cannot be used in the generated text", c.f.key, name)
	}
	if _, ok := c.vars[name]; !ok {
		c.order = append(c.order, name)
	}
	c.vars[name] = pfVar{typ}
}

func (c *pfCtx) tmp() string {
	*c.ntmp++
	return fmt.Sprintf("t%d_", *c.ntmp)
}

func (c *pfCtx) flush() string {
	s := ""
	for _, l := range c.pre {
		s += l + "\n"
	}
	c.pre = nil
	return s
}

func pfTupleType(ts []string) string {
	if len(ts) == 0 {
		return "Unit"
	}
	ls := make([]string, len(ts))
	for i, t := range ts {
		ls[i] = pfLeanTypes[t]
		if strings.Contains(ls[i], " ") && len(ts) > 1 {
			ls[i] = "(" + ls[i] + ")"
		}
	}
	return strings.Join(ls, " × ")
}

func pfTuple(vs []string) string {
	switch len(vs) {
	case 0:
		return "()"
	case 1:
		return vs[0]
	}
	return "(" + strings.Join(vs, ", ") + ")"
}

// pfProj: component i of an n-tuple held in t
func pfProj(t string, i, n int) string {
	if n == 1 {
		return t
	}
	s := t
	for k := 0; k < i; k++ {
		s += ".2"
	}
	if i < n-1 {
		s += ".1"
	}
	return s
}

// ---- signatures -------------------------------------------------------------------------------------

// retTypes: what a call gives back: the pointer parameters, then the results
func (f *pfFunc) retTypes() []string {
	var ts []string
	for _, p := range f.params {
		if p.ptr {
			ts = append(ts, p.typ)
		}
	}
	return append(ts, f.results...)
}

func (f *pfFunc) retLean() string {
	t := pfTupleType(f.retTypes())
	if f.partial {
		if strings.Contains(t, " ") {
			t = "(" + t + ")"
		}
		return "Option " + t
	}
	return t
}

func (f *pfFunc) header(name string, extra string) string {
	s := "def " + name
	if f.generic {
		s += " {ρ ε : Type}"
	}
	if f.env {
		s += " (env : Env ρ ε)"
	}
	if f.fuel {
		s += " (fuel : Nat)"
	}
	return s + extra
}

// callPrefix: the function with the generator's own arguments
func (f *pfFunc) callPrefix() string {
	s := f.lean
	if f.env {
		s += " env"
	}
	if f.fuel {
		s += " fuel"
	}
	return s
}

// ---- expressions ------------------------------------------------------------------------------------

func (c *pfCtx) structOf(typ string) []pfField {
	fs, ok := c.g.structs[typ]
	if !ok {
		return nil
	}
	return fs
}

// path: `x.f.g` rooted at a variable: the variable and the fields
func pfPath(x ast.Expr) (root string, fields []string, ok bool) {
	switch n := x.(type) {
	case *ast.Ident:
		return n.Name, nil, true
	case *ast.SelectorExpr:
		r, fs, ok := pfPath(n.X)
		if !ok {
			return "", nil, false
		}
		return r, append(fs, n.Sel.Name), true
	case *ast.ParenExpr:
		return pfPath(n.X)
	}
	return "", nil, false
}

func (c *pfCtx) bindPartial(expr string) string {
	t := c.tmp()
	c.pre = append(c.pre, "("+expr+").bind fun "+t+" =>")
	return t
}

func (c *pfCtx) bindLet(expr string) string {
	t := c.tmp()
	c.pre = append(c.pre, "let "+t+" := "+expr)
	return t
}

func (c *pfCtx) asProp(v pfVal, n ast.Node) string {
	switch v.typ {
	case "prop":
		return v.lean
	case "bool":
		return "(" + v.lean + " = true)"
	}
	c.refuse(n, "a %s where a condition is expected", v.typ)
	return ""
}

func (c *pfCtx) expr(x ast.Expr) pfVal {
	if v, ok := c.seqExpr(x); ok { // gparsseq.go
		return v
	}
	switch n := x.(type) {
	case *ast.ParenExpr:
		v := c.expr(n.X)
		return pfVal{"(" + v.lean + ")", v.typ}
	case *ast.Ident:
		switch n.Name {
		case "true", "false":
			return pfVal{n.Name, "bool"}
		case "nil":
			return pfVal{"", "nil"}
		}
		if v, ok := c.vars[n.Name]; ok {
			if c.f.textOnly[n.Name] {
				c.refuse(x, "the error text %s is used in a computation", n.Name)
			}
			return pfVal{n.Name, v.typ}
		}
		if k, ok := c.g.consts[n.Name]; ok {
			return pfVal{k, "int"}
		}
		c.refuse(x, "name %s", n.Name)
	case *ast.BasicLit:
		switch n.Kind {
		case token.INT:
			return pfVal{n.Value, "int"}
		case token.CHAR:
			b, ok := byteLiteral(n)
			if !ok {
				c.refuse(x, "character literal %s", n.Value)
			}
			return pfVal{"(" + strconv.Itoa(int(b)) + " : UInt8)", "byte"}
		}
		c.refuse(x, "literal %s", n.Value)
	case *ast.SelectorExpr:
		base := c.expr(n.X)
		for _, f := range c.structOf(base.typ) {
			if f.name == n.Sel.Name {
				return pfVal{base.lean + "." + f.lean, f.typ}
			}
		}
		c.refuse(x, "selector %s on a %s", n.Sel.Name, base.typ)
	case *ast.UnaryExpr:
		switch n.Op {
		case token.NOT:
			v := c.expr(n.X)
			return pfVal{"(¬ " + c.asProp(v, n.X) + ")", "prop"}
		case token.SUB:
			v := c.expr(n.X)
			if v.typ != "int" {
				c.refuse(x, "negation of a %s", v.typ)
			}
			return pfVal{"(-" + v.lean + ")", "int"}
		}
		c.refuse(x, "operator %s", n.Op)
	case *ast.BinaryExpr:
		return c.binary(n)
	case *ast.IndexExpr:
		p := c.expr(n.X)
		i := c.expr(n.Index)
		if i.typ != "int" {
			c.refuse(x, "index of type %s", i.typ)
		}
		switch p.typ {
		case "bytes":
			return pfVal{c.bindPartial("goIdx " + pfArg(p.lean) + " " + pfArg(i.lean)), "byte"}
		case "frames":
			return pfVal{c.bindPartial("goIdx " + pfArg(p.lean) + " " + pfArg(i.lean)), "frame"}
		}
		c.refuse(x, "index into a %s", p.typ)
	case *ast.SliceExpr:
		if n.Slice3 {
			c.refuse(x, "three-index slice")
		}
		p := c.expr(n.X)
		if p.typ != "bytes" {
			c.refuse(x, "slice of a %s", p.typ)
		}
		var lo, hi *pfVal
		if n.Low != nil {
			v := c.expr(n.Low)
			lo = &v
		}
		if n.High != nil {
			v := c.expr(n.High)
			hi = &v
		}
		for _, v := range []*pfVal{lo, hi} {
			if v != nil && v.typ != "int" {
				c.refuse(x, "slice bound of type %s", v.typ)
			}
		}
		switch {
		case lo != nil && hi != nil:
			return pfVal{c.bindPartial("goSlice " + pfArg(p.lean) + " " + pfArg(lo.lean) + " " + pfArg(hi.lean)), "bytes"}
		case lo != nil:
			return pfVal{c.bindPartial("goFrom " + pfArg(p.lean) + " " + pfArg(lo.lean)), "bytes"}
		case hi != nil:
			return pfVal{c.bindPartial("goTo " + pfArg(p.lean) + " " + pfArg(hi.lean)), "bytes"}
		}
		return p
	case *ast.CompositeLit:
		return c.composite(n)
	case *ast.CallExpr:
		vs := c.call(n)
		if len(vs) != 1 {
			c.refuse(x, "a call with %d results where one value is expected", len(vs))
		}
		return vs[0]
	}
	c.refuse(x, "expression %T", x)
	return pfVal{}
}

func pfArg(s string) string {
	if strings.ContainsAny(s, " ") && !(strings.HasPrefix(s, "(") && strings.HasSuffix(s, ")") && pfBalanced(s[1:len(s)-1])) {
		return "(" + s + ")"
	}
	return s
}

func pfBalanced(s string) bool {
	d := 0
	for _, r := range s {
		switch r {
		case '(':
			d++
		case ')':
			d--
			if d < 0 {
				return false
			}
		}
	}
	return d == 0
}

func (c *pfCtx) binary(n *ast.BinaryExpr) pfVal {
	switch n.Op {
	case token.LAND, token.LOR:
		l := c.expr(n.X)
		npre := len(c.pre)
		r := c.expr(n.Y)
		if len(c.pre) != npre {
			c.refuse(n.Y, "a call or an index on the right of %s (evaluated conditionally)", n.Op)
		}
		op := " ∧ "
		if n.Op == token.LOR {
			op = " ∨ "
		}
		return pfVal{"(" + c.asProp(l, n.X) + op + c.asProp(r, n.Y) + ")", "prop"}
	}
	l, r := c.expr(n.X), c.expr(n.Y)
	// nil takes the type of the other side
	if l.typ == "nil" && r.typ != "nil" {
		l, r = r, l
		switch n.Op {
		case token.EQL, token.NEQ:
		default:
			c.refuse(n, "comparison with nil")
		}
	}
	if r.typ == "nil" {
		if l.typ != "error" {
			c.refuse(n, "comparison of a %s with nil", l.typ)
		}
		switch n.Op {
		case token.EQL:
			return pfVal{"(" + pfArg(l.lean) + ".isNone = true)", "prop"}
		case token.NEQ:
			return pfVal{"(" + pfArg(l.lean) + ".isSome = true)", "prop"}
		}
		c.refuse(n, "comparison with nil")
	}
	if l.typ != r.typ {
		c.refuse(n, "operands of types %s and %s", l.typ, r.typ)
	}
	switch n.Op {
	case token.ADD, token.SUB:
		if l.typ != "int" {
			c.refuse(n, "arithmetic on a %s", l.typ)
		}
		return pfVal{"(" + l.lean + " " + n.Op.String() + " " + r.lean + ")", "int"}
	case token.EQL, token.NEQ:
		switch l.typ {
		case "int", "byte", "Position":
		default:
			c.refuse(n, "comparison of two %s", l.typ)
		}
		op := " = "
		if n.Op == token.NEQ {
			op = " ≠ "
		}
		return pfVal{"(" + l.lean + op + r.lean + ")", "prop"}
	case token.LSS, token.LEQ, token.GTR, token.GEQ:
		if l.typ != "int" {
			c.refuse(n, "order comparison of two %s", l.typ)
		}
		op := map[token.Token]string{token.LSS: " < ", token.LEQ: " ≤ ", token.GTR: " > ", token.GEQ: " ≥ "}[n.Op]
		return pfVal{"(" + l.lean + op + r.lean + ")", "prop"}
	}
	c.refuse(n, "operator %s", n.Op)
	return pfVal{}
}

func (c *pfCtx) composite(n *ast.CompositeLit) pfVal {
	if n.Type == nil {
		c.refuse(n, "composite literal without a type")
	}
	tt := nodeText(n.Type)
	if tt == "[]byte" {
		es := make([]string, len(n.Elts))
		for i, e := range n.Elts {
			v := c.expr(e)
			if v.typ != "byte" {
				c.refuse(e, "element of type %s in a []byte literal", v.typ)
			}
			es[i] = v.lean
		}
		return pfVal{"[" + strings.Join(es, ", ") + "]", "bytes"}
	}
	typ, ok := pfGoTypes[tt]
	fs := c.g.structs[typ]
	if !ok || fs == nil {
		c.refuse(n, "composite literal of type %s", tt)
	}
	if len(n.Elts) != len(fs) {
		c.refuse(n, "a %s literal with %d of %d fields", tt, len(n.Elts), len(fs))
	}
	parts := make([]string, len(fs))
	for i, e := range n.Elts {
		if _, kv := e.(*ast.KeyValueExpr); kv {
			c.refuse(n, "keyed %s literal", tt)
		}
		v := c.expr(e)
		if v.typ != fs[i].typ {
			c.refuse(e, "field %s of type %s gets a %s", fs[i].name, fs[i].typ, v.typ)
		}
		parts[i] = fs[i].lean + " := " + v.lean
	}
	return pfVal{"{ " + strings.Join(parts, ", ") + " : " + pfStructLean[typ] + " }", typ}
}

// zero value of a type
func (c *pfCtx) zero(typ string) string {
	switch typ {
	case "int":
		return "0"
	case "byte":
		return "(0 : UInt8)"
	case "bool":
		return "false"
	case "bytes":
		return "[]"
	case "error":
		return "none"
	}
	if fs := c.g.structs[typ]; fs != nil {
		parts := make([]string, len(fs))
		for i, f := range fs {
			parts[i] = f.lean + " := " + c.zero(f.typ)
		}
		return "{ " + strings.Join(parts, ", ") + " : " + pfStructLean[typ] + " }"
	}
	refuse("go-pars: %s: zero value of %s", c.f.key, typ)
	return ""
}

// callee: the translated function a call `x.M(…)` / `F(…)` names, with the receiver expression
func (c *pfCtx) callee(n *ast.CallExpr) (f *pfFunc, recv ast.Expr) {
	switch fn := n.Fun.(type) {
	case *ast.Ident:
		if f, ok := c.g.funcs[fn.Name]; ok {
			return f, nil
		}
	case *ast.SelectorExpr:
		if id, ok := fn.X.(*ast.Ident); ok {
			if _, isVar := c.vars[id.Name]; !isVar {
				return nil, nil // a package
			}
		}
		// the type of the receiver expression (its binds are thrown away: it is translated again at the call)
		save, nt := c.pre, *c.ntmp
		v := c.expr(fn.X)
		c.pre, *c.ntmp = save, nt
		if f, ok := c.g.funcs[v.typ+"."+fn.Sel.Name]; ok {
			return f, fn.X
		}
	}
	return nil, nil
}

// assignPath: `root.f.g := value` as a shadowing `let`
func (c *pfCtx) assignPath(n ast.Node, root string, fields []string, value string) {
	v, ok := c.vars[root]
	if !ok {
		c.refuse(n, "assignment to %s, which is not a variable", root)
	}
	if len(fields) == 0 {
		c.pre = append(c.pre, "let "+root+" : "+pfLeanTypes[v.typ]+" := "+value)
		return
	}
	// { root with f := { root.f with g := value } }
	typ := v.typ
	acc := root
	var opens []string
	for i, fname := range fields {
		var fld *pfField
		for k := range c.g.structs[typ] {
			if c.g.structs[typ][k].name == fname {
				fld = &c.g.structs[typ][k]
			}
		}
		if fld == nil {
			c.refuse(n, "field %s of a %s", fname, typ)
		}
		opens = append(opens, "{ "+acc+" with "+fld.lean+" := ")
		acc += "." + fld.lean
		typ = fld.typ
		_ = i
	}
	text := strings.Join(opens, "") + value + strings.Repeat(" }", len(opens))
	c.pre = append(c.pre, "let "+root+" : "+pfLeanTypes[v.typ]+" := "+text)
}

// call translates a call; the values are its Go results
func (c *pfCtx) call(n *ast.CallExpr) []pfVal {
	if vs, ok := c.seqCall(n); ok { // gparsseq.go
		return vs
	}
	ft := nodeText(n.Fun)
	// conversions and built-ins
	switch ft {
	case "len":
		if len(n.Args) == 1 {
			v := c.expr(n.Args[0])
			if v.typ != "bytes" && v.typ != "frames" {
				c.refuse(n, "len of a %s", v.typ)
			}
			return []pfVal{{"(" + pfArg(v.lean) + ".length : Int)", "int"}}
		}
	case "string", "[]byte":
		if len(n.Args) == 1 {
			v := c.expr(n.Args[0])
			if v.typ != "bytes" {
				c.refuse(n, "conversion of a %s", v.typ)
			}
			return []pfVal{v}
		}
	case "append":
		// append(X, make([]T, K)...) and append(X, Y...)
		if len(n.Args) == 2 && n.Ellipsis.IsValid() {
			a := c.expr(n.Args[0])
			if mk, ok := n.Args[1].(*ast.CallExpr); ok && nodeText(mk.Fun) == "make" && len(mk.Args) == 2 {
				et, okT := pfGoTypes[nodeText(mk.Args[0])]
				k := c.expr(mk.Args[1])
				kn, err := strconv.Atoi(k.lean)
				if !okT || et != a.typ || err != nil || kn < 0 {
					c.refuse(n, "append of a make")
				}
				elem := map[string]string{"frames": "frame", "bytes": "byte"}[et]
				return []pfVal{{"(" + a.lean + " ++ List.replicate " + k.lean + " " + c.zero(elem) + ")", a.typ}}
			}
			b := c.expr(n.Args[1])
			if a.typ != b.typ || (a.typ != "bytes" && a.typ != "frames") {
				c.refuse(n, "append of a %s to a %s", b.typ, a.typ)
			}
			return []pfVal{{"(" + a.lean + " ++ " + b.lean + ")", a.typ}}
		}
	case "panic":
		c.refuse(n, "panic in an expression")
	case "NewError", "NewNestedError", "errors.New":
		// the error VALUE is a parameter; the arguments must be pure
		for _, a := range n.Args {
			if id, ok := a.(*ast.Ident); ok && c.f.textOnly[id.Name] {
				continue
			}
			if _, ok := a.(*ast.BasicLit); ok {
				continue
			}
			np := len(c.pre)
			c.expr(a)
			if len(c.pre) != np {
				c.refuse(a, "argument of an error constructor with an effect")
			}
		}
		return []pfVal{{"(some env.mkErr)", "error"}}
	case "strconv.Atoi":
		if len(n.Args) == 1 {
			v := c.expr(n.Args[0])
			if v.typ != "bytes" {
				c.refuse(n, "Atoi of a %s", v.typ)
			}
			t := c.bindLet("env.atoi " + pfArg(v.lean))
			return []pfVal{{t + ".1", "int"}, {t + ".2", "error"}}
		}
	case "ascii.IsDigit", "ascii.IsSpace":
		if len(n.Args) == 1 {
			v := c.expr(n.Args[0])
			if v.typ != "byte" {
				c.refuse(n, "%s of a %s", ft, v.typ)
			}
			return []pfVal{{"(env." + map[string]string{"ascii.IsDigit": "isDigit", "ascii.IsSpace": "isSpace"}[ft] + " " + pfArg(v.lean) + ")", "bool"}}
		}
	case "bytes.Equal":
		if len(n.Args) == 2 {
			a, b := c.expr(n.Args[0]), c.expr(n.Args[1])
			if a.typ != "bytes" || b.typ != "bytes" {
				c.refuse(n, "bytes.Equal of a %s and a %s", a.typ, b.typ)
			}
			return []pfVal{{"(" + a.lean + " = " + b.lean + ")", "prop"}}
		}
	}
	// a parser or a result mapping held in a variable
	if id, ok := n.Fun.(*ast.Ident); ok {
		if v, isVar := c.vars[id.Name]; isVar && v.typ == "parser" && len(n.Args) == 2 {
			st, rs := identName(n.Args[0]), identName(n.Args[1])
			if st == "" || rs == "" || c.vars[st].typ != "State" || c.vars[rs].typ != "Result" {
				c.refuse(n, "a parser applied to something else than the state and the result")
			}
			t := c.bindPartial(id.Name + " " + st + " " + rs)
			c.assignPath(n, st, nil, t+".1")
			c.assignPath(n, rs, nil, t+".2.1")
			return []pfVal{{t + ".2.2", "error"}}
		}
		if v, isVar := c.vars[id.Name]; isVar && v.typ == "mapfn" && len(n.Args) == 1 {
			rs := identName(n.Args[0])
			if rs == "" || c.vars[rs].typ != "Result" {
				c.refuse(n, "a mapping applied to something else than the result")
			}
			t := c.bindLet(id.Name + " " + rs)
			c.assignPath(n, rs, nil, t+".1")
			return []pfVal{{t + ".2", "error"}}
		}
	}
	// a filter variable
	if id, ok := n.Fun.(*ast.Ident); ok {
		if v, isVar := c.vars[id.Name]; isVar && v.typ == "filter" && len(n.Args) == 1 {
			a := c.expr(n.Args[0])
			if a.typ != "byte" {
				c.refuse(n, "filter applied to a %s", a.typ)
			}
			return []pfVal{{"(" + id.Name + " " + pfArg(a.lean) + ")", "bool"}}
		}
	}
	// result.SetToken / SetValue
	if sel, ok := n.Fun.(*ast.SelectorExpr); ok {
		if id, ok := sel.X.(*ast.Ident); ok {
			if v, isVar := c.vars[id.Name]; isVar && v.typ == "Result" && len(n.Args) == 1 {
				a := c.expr(n.Args[0])
				var text string
				switch {
				case sel.Sel.Name == "SetToken" && a.typ == "bytes":
					text = "ResultV.token " + pfArg(a.lean)
				case sel.Sel.Name == "SetToken" && a.typ == "nil":
					text = "ResultV.token []"
				case sel.Sel.Name == "SetValue" && a.typ == "int":
					text = "ResultV.int " + pfArg(a.lean)
				case sel.Sel.Name == "SetValue" && a.typ == "bytes":
					text = "ResultV.str " + pfArg(a.lean)
				default:
					c.refuse(n, "%s of a %s", sel.Sel.Name, a.typ)
				}
				c.assignPath(n, id.Name, nil, text)
				return nil
			}
		}
	}
	f, recv := c.callee(n)
	if f == nil {
		c.refuse(n, "call of %s, which is not a translated function", ft)
	}
	// arguments: receiver, captured (none at a call site), then the Go arguments
	var args []string
	var backTo []ast.Expr // where the pointer parameters are written back
	goArgs := n.Args
	pi := 0
	if recv != nil {
		v := c.expr(recv)
		args = append(args, pfArg(v.lean))
		if f.params[0].ptr {
			backTo = append(backTo, recv)
		}
		pi = 1
	}
	if len(f.params)-pi != len(goArgs) {
		c.refuse(n, "call of %s with %d arguments", f.key, len(goArgs))
	}
	for i, a := range goArgs {
		p := f.params[pi+i]
		v := c.expr(a)
		if v.typ == "nil" && p.typ == "error" {
			v = pfVal{"none", "error"}
		}
		if v.typ != p.typ {
			c.refuse(a, "argument of type %s for a parameter of type %s of %s", v.typ, p.typ, f.key)
		}
		args = append(args, pfArg(v.lean))
		if p.ptr {
			backTo = append(backTo, a)
		}
	}
	text := f.callPrefix()
	if len(args) > 0 {
		text += " " + strings.Join(args, " ")
	}
	rts := f.retTypes()
	var t string
	if f.partial {
		t = c.bindPartial(text)
	} else if len(backTo) == 0 && len(f.results) == 1 {
		return []pfVal{{"(" + text + ")", f.results[0]}}
	} else {
		t = c.bindLet(text)
	}
	for i, b := range backTo {
		root, fields, ok := pfPath(b)
		if !ok {
			c.refuse(b, "a pointer argument that is not a variable or a field of one")
		}
		c.assignPath(b, root, fields, pfProj(t, i, len(rts)))
	}
	out := make([]pfVal, len(f.results))
	for i, r := range f.results {
		out[i] = pfVal{pfProj(t, len(backTo)+i, len(rts)), r}
	}
	return out
}

// ---- statements -------------------------------------------------------------------------------------

func pfIndent(s string) string { return "  " + strings.ReplaceAll(s, "\n", "\n  ") }

// retText: `return v…`
func (c *pfCtx) retText(n ast.Node, vals []pfVal) string {
	if len(vals) != len(c.f.results) {
		c.refuse(n, "return of %d values", len(vals))
	}
	var parts []string
	for _, p := range c.f.params {
		if p.ptr {
			parts = append(parts, p.name)
		}
	}
	for i, v := range vals {
		want := c.f.results[i]
		if v.typ == "nil" {
			switch want {
			case "error":
				v = pfVal{"none", "error"}
			case "bytes":
				v = pfVal{"[]", "bytes"}
			}
		}
		if v.typ == "prop" && want == "bool" {
			v = pfVal{"(decide " + v.lean + ")", "bool"}
		}
		if v.typ == "int" && want == "byte" {
			if k, err := strconv.Atoi(v.lean); err == nil && 0 <= k && k < 256 {
				v = pfVal{"(" + v.lean + " : UInt8)", "byte"} // an untyped constant
			}
		}
		if v.typ != want {
			c.refuse(n, "result %d of type %s where %s is declared", i, v.typ, want)
		}
		parts = append(parts, v.lean)
	}
	val := pfTuple(parts)
	if c.inLoop {
		return "some (Flow.ret " + pfArg(val) + ")"
	}
	if c.f.partial {
		return "some " + pfArg(val)
	}
	return val
}

// loopState: the loop variables as one value
func (c *pfCtx) loopState() string { return pfTuple(c.loopVs) }

// scopeParams: the variables in scope as binders, and as arguments
func (c *pfCtx) scopeParams() (binders, args string) {
	for _, n := range c.order {
		binders += " (" + n + " : " + pfLeanTypes[c.vars[n].typ] + ")"
		args += " " + n
	}
	return
}

// resultType: the Lean type of the definition a statement list of this context forms
func (c *pfCtx) resultType() string {
	if c.inLoop {
		return "Option (Flow " + c.flowT + ")"
	}
	return c.f.retLean()
}

// lift: the statements `rest` (with the continuation k) as a definition of its own; the text of its call
func (c *pfCtx) lift(rest []ast.Stmt, k func(c *pfCtx) string) func(c *pfCtx) string {
	if len(rest) == 0 {
		return k
	}
	*c.nk++
	id := *c.nk
	name := fmt.Sprintf("%s_k%d", c.f.lean, id)
	in := c.clone()
	binders, args := in.scopeParams()
	body := in.stmts(rest, k)
	c.g.out = append(c.g.out, fmt.Sprintf("/-- %s: join point %d -/\n%s :=\n%s\n", c.f.doc, id,
		c.f.header(name, binders+" : "+c.resultType()), pfIndent(body)))
	call := name
	if c.f.env {
		call += " env"
	}
	if c.f.fuel {
		call += " fuel"
	}
	call += args
	return func(*pfCtx) string { return call }
}

func pfReturns(list []ast.Stmt) bool {
	if len(list) == 0 {
		return false
	}
	switch n := list[len(list)-1].(type) {
	case *ast.ReturnStmt:
		return true
	case *ast.BranchStmt:
		return true
	case *ast.ExprStmt:
		if call, ok := n.X.(*ast.CallExpr); ok && nodeText(call.Fun) == "panic" {
			return true
		}
	case *ast.IfStmt:
		if n.Else == nil {
			return false
		}
		switch e := n.Else.(type) {
		case *ast.BlockStmt:
			return pfReturns(n.Body.List) && pfReturns(e.List)
		case *ast.IfStmt:
			return pfReturns(n.Body.List) && pfReturns([]ast.Stmt{e})
		}
	case *ast.SwitchStmt:
		hasDefault := false
		for _, cl := range n.Body.List {
			cc := cl.(*ast.CaseClause)
			if cc.List == nil {
				hasDefault = true
			}
			if !pfReturns(cc.Body) {
				return false
			}
		}
		return hasDefault
	}
	return false
}

// stmts translates a statement list; k gives the text of falling off its end
func (c *pfCtx) stmts(list []ast.Stmt, k func(c *pfCtx) string) string {
	if len(list) == 0 {
		return k(c)
	}
	s, rest := list[0], list[1:]
	switch n := s.(type) {
	case *ast.ExprStmt:
		call, ok := n.X.(*ast.CallExpr)
		if !ok {
			c.refuse(s, "expression statement")
		}
		if nodeText(call.Fun) == "panic" {
			if len(rest) != 0 {
				c.refuse(rest[0], "statement behind a panic")
			}
			return c.flush() + "none"
		}
		c.call(call) // results discarded
		return c.flush() + c.stmts(rest, k)
	case *ast.IncDecStmt:
		v := c.expr(n.X)
		if v.typ != "int" {
			c.refuse(s, "%s of a %s", n.Tok, v.typ)
		}
		op := " + 1"
		if n.Tok == token.DEC {
			op = " - 1"
		}
		root, fields, ok := pfPath(n.X)
		if !ok {
			c.refuse(s, "%s of something that is not a variable or a field", n.Tok)
		}
		c.assignPath(s, root, fields, "("+v.lean+op+")")
		return c.flush() + c.stmts(rest, k)
	case *ast.AssignStmt:
		c.assign(n)
		return c.flush() + c.stmts(rest, k)
	case *ast.ReturnStmt:
		if len(rest) != 0 {
			c.refuse(rest[0], "statement behind a return")
		}
		var vals []pfVal
		if len(n.Results) == 1 && len(c.f.results) > 1 {
			call, ok := n.Results[0].(*ast.CallExpr)
			if !ok {
				c.refuse(s, "return of one value where %d are declared", len(c.f.results))
			}
			vals = c.call(call)
		} else {
			for _, r := range n.Results {
				vals = append(vals, c.expr(r))
			}
		}
		t := c.retText(s, vals)
		return c.flush() + t
	case *ast.BranchStmt:
		if !c.inLoop || n.Label != nil || len(rest) != 0 {
			c.refuse(s, "branch statement %s", n.Tok)
		}
		switch n.Tok {
		case token.BREAK:
			return "some (Flow.done " + pfArg(c.loopState()) + ")"
		case token.CONTINUE:
			return "some (Flow.next " + pfArg(c.loopState()) + ")"
		}
		c.refuse(s, "branch statement %s", n.Tok)
	case *ast.IfStmt:
		return c.ifStmt(n, rest, k)
	case *ast.SwitchStmt:
		if n.Init != nil || n.Tag != nil {
			c.refuse(s, "switch with an init statement or a tag")
		}
		// a tagless switch is an if / else-if chain
		var chain ast.Stmt
		var defaultBody []ast.Stmt
		clauses := n.Body.List
		for i := len(clauses) - 1; i >= 0; i-- {
			cc := clauses[i].(*ast.CaseClause)
			if cc.List == nil {
				if i != len(clauses)-1 {
					c.refuse(cc, "default clause that is not the last one")
				}
				defaultBody = cc.Body
				continue
			}
			if len(cc.List) != 1 {
				c.refuse(cc, "case with several expressions")
			}
			for _, b := range cc.Body {
				if br, ok := b.(*ast.BranchStmt); ok && br.Tok != token.CONTINUE {
					c.refuse(br, "%s inside a switch", br.Tok)
				}
			}
			ifs := &ast.IfStmt{If: cc.Pos(), Cond: cc.List[0], Body: &ast.BlockStmt{List: cc.Body}}
			if chain != nil {
				ifs.Else = chain
			} else if defaultBody != nil {
				ifs.Else = &ast.BlockStmt{List: defaultBody}
			}
			chain = ifs
		}
		if chain == nil {
			c.refuse(s, "switch without a case")
		}
		return c.stmts(append([]ast.Stmt{chain}, rest...), k)
	case *ast.ForStmt:
		return c.forStmt(n, rest, k)
	case *ast.RangeStmt:
		return c.rangeStmt(n, rest, k)
	}
	c.refuse(s, "statement %T", s)
	return ""
}

// assign: `:=`, `=` (also in parallel, also from one call with several results)
func (c *pfCtx) assign(n *ast.AssignStmt) {
	if c.seqAssign(n) { // gparsseq.go
		return
	}
	if n.Tok != token.DEFINE && n.Tok != token.ASSIGN {
		c.refuse(n, "assignment operator %s", n.Tok)
	}
	var vals []pfVal
	if len(n.Rhs) == 1 && len(n.Lhs) > 1 {
		call, ok := n.Rhs[0].(*ast.CallExpr)
		if !ok {
			c.refuse(n, "%d variables from one value", len(n.Lhs))
		}
		vals = c.call(call)
	} else {
		for _, r := range n.Rhs {
			vals = append(vals, c.expr(r))
		}
	}
	if len(vals) != len(n.Lhs) {
		c.refuse(n, "%d values for %d variables", len(vals), len(n.Lhs))
	}
	// a constructor's error texts
	if n.Tok == token.DEFINE && len(n.Lhs) == 1 {
		if id, ok := n.Lhs[0].(*ast.Ident); ok && c.f.textOnly[id.Name] {
			return
		}
	}
	// all right sides are evaluated first: bind them when there are several
	if len(vals) > 1 && len(n.Rhs) > 1 {
		for i := range vals {
			if _, isBlank := n.Lhs[i].(*ast.Ident); isBlank && n.Lhs[i].(*ast.Ident).Name == "_" {
				continue
			}
			if vals[i].typ == "nil" {
				continue
			}
			vals[i] = pfVal{c.bindLet(vals[i].lean), vals[i].typ}
		}
	}
	for i, l := range n.Lhs {
		v := vals[i]
		if id, ok := l.(*ast.Ident); ok {
			if id.Name == "_" {
				continue
			}
			old, known := c.vars[id.Name]
			if n.Tok == token.ASSIGN && !known {
				c.refuse(n, "assignment to %s, which is not a variable", id.Name)
			}
			if known && n.Tok == token.DEFINE && old.typ == "parser" && v.typ != "parser" && v.typ != "nil" {
				// Until: `p, err := Trail(state)` in the literal, `p := AsParser(q)` in front of it: the types differ, so
				// Go declares a NEW variable in the literal's scope that hides the captured parser from here on
				known = false
			}
			typ := v.typ
			if known {
				typ = old.typ
			}
			if v.typ == "nil" {
				switch typ {
				case "error":
					v = pfVal{"none", "error"}
				case "bytes":
					v = pfVal{"[]", "bytes"}
				default:
					c.refuse(n, "nil assigned to a %s", typ)
				}
			}
			if v.typ == "prop" && typ == "bool" {
				v = pfVal{"(decide " + v.lean + ")", "bool"}
			}
			if v.typ != typ {
				c.refuse(n, "a %s assigned to %s of type %s", v.typ, id.Name, typ)
			}
			if !known {
				c.declare(id.Name, typ)
			}
			c.pre = append(c.pre, "let "+id.Name+" : "+pfLeanTypes[typ]+" := "+v.lean)
			continue
		}
		if n.Tok == token.DEFINE {
			c.refuse(n, "definition of something that is not a variable")
		}
		// a field, or a cell of a slice held in a field
		if ix, ok := l.(*ast.IndexExpr); ok {
			p := c.expr(ix.X)
			i := c.expr(ix.Index)
			if p.typ != "frames" || i.typ != "int" || v.typ != "frame" {
				c.refuse(n, "store of a %s into a %s", v.typ, p.typ)
			}
			t := c.bindPartial("goSet " + pfArg(p.lean) + " " + pfArg(i.lean) + " " + pfArg(v.lean))
			root, fields, ok := pfPath(ix.X)
			if !ok {
				c.refuse(n, "store into something that is not a variable or a field")
			}
			c.assignPath(n, root, fields, t)
			continue
		}
		root, fields, ok := pfPath(l)
		if !ok || len(fields) == 0 {
			c.refuse(n, "assignment to %s", nodeText(l))
		}
		lt := c.expr(l)
		if v.typ == "nil" && lt.typ == "error" {
			v = pfVal{"none", "error"}
		}
		if v.typ != lt.typ {
			c.refuse(n, "a %s assigned to a field of type %s", v.typ, lt.typ)
		}
		c.assignPath(n, root, fields, v.lean)
	}
}

func (c *pfCtx) ifStmt(n *ast.IfStmt, rest []ast.Stmt, k func(c *pfCtx) string) string {
	in := c.clone()
	in.pre = c.pre
	c.pre = nil
	if n.Init != nil {
		as, ok := n.Init.(*ast.AssignStmt)
		if !ok || (as.Tok != token.DEFINE && as.Tok != token.ASSIGN) {
			c.refuse(n, "init statement of an if")
		}
		in.assign(as)
	}
	cond := in.expr(n.Cond)
	prop := in.asProp(cond, n.Cond)
	head := in.flush()
	// the variables the init statement declared are visible in both arms only; pointer parameters it
	// changed stay changed: the join point takes the scope of `c` with the current values
	var elseList []ast.Stmt
	switch e := n.Else.(type) {
	case nil:
	case *ast.BlockStmt:
		elseList = e.List
	case *ast.IfStmt:
		elseList = []ast.Stmt{e}
	default:
		c.refuse(n, "else branch %T", e)
	}
	thenRet, elseRet := pfReturns(n.Body.List), pfReturns(elseList)
	kk := k
	restAfter := rest
	if !(thenRet && elseRet) && !(thenRet && len(elseList) == 0) && len(rest) > 0 {
		// both the arm(s) that fall through and the path around them reach `rest`
		kk = c.lift(rest, k)
		restAfter = nil
	} else if thenRet && elseRet {
		restAfter = nil
		if len(rest) != 0 {
			c.refuse(rest[0], "statement behind an if that returns on both paths")
		}
	}
	arm := func(list []ast.Stmt, returns bool) string {
		a := in.clone()
		if returns {
			return a.stmts(list, func(*pfCtx) string { return "none" })
		}
		if restAfter != nil {
			// `if c { return }; rest`: rest is the else arm
			return a.stmts(append(append([]ast.Stmt{}, list...), restAfter...), k)
		}
		// a block: what it declares is not in scope behind it
		return a.stmts(list, func(b *pfCtx) string {
			out := c.clone()
			return kk(out)
		})
	}
	thenText := arm(n.Body.List, thenRet)
	elseText := arm(elseList, elseRet)
	return head + "if " + prop + " then\n" + pfIndent(thenText) + "\nelse\n" + pfIndent(elseText)
}

// assignedIn: the variables a statement list assigns (base identifiers), pointer variables it may change included
func (c *pfCtx) assignedIn(nodes []ast.Node) map[string]bool {
	out := map[string]bool{}
	for _, nd := range nodes {
		ast.Inspect(nd, func(x ast.Node) bool {
			switch m := x.(type) {
			case *ast.AssignStmt:
				for _, l := range m.Lhs {
					if id := gbBaseIdent(l); id != "" && id != "_" {
						out[id] = true
					}
				}
			case *ast.IncDecStmt:
				if id := gbBaseIdent(m.X); id != "" {
					out[id] = true
				}
			case *ast.CallExpr:
				// a pointer variable handed to a function or used as a receiver
				for _, a := range m.Args {
					c.seqAssigned(a, out) // gparsseq.go
					if id, ok := a.(*ast.Ident); ok {
						if v, isVar := c.vars[id.Name]; isVar && (v.typ == "State" || v.typ == "stack" || v.typ == "Result") {
							out[id.Name] = true
						}
					}
				}
				if sel, ok := m.Fun.(*ast.SelectorExpr); ok {
					if id := gbBaseIdent(sel.X); id != "" {
						if v, isVar := c.vars[id]; isVar && (v.typ == "State" || v.typ == "stack" || v.typ == "Result") {
							out[id] = true
						}
					}
				}
			}
			return true
		})
	}
	return out
}

func (c *pfCtx) forStmt(n *ast.ForStmt, rest []ast.Stmt, k func(c *pfCtx) string) string {
	if n.Init != nil || n.Post != nil || n.Cond == nil {
		c.refuse(n, "a for statement that is not `for cond { … }`")
	}
	if c.inLoop {
		c.refuse(n, "nested loop")
	}
	if !c.f.fuel {
		c.refuse(n, "loop in a function that has no fuel")
	}
	head := c.flush()
	as := c.assignedIn([]ast.Node{n.Cond, n.Body})
	var loopVs, fixed []string
	for _, v := range c.order {
		if as[v] {
			loopVs = append(loopVs, v)
		} else {
			fixed = append(fixed, v)
		}
	}
	if len(loopVs) == 0 {
		c.refuse(n, "a loop that assigns nothing")
	}
	lts := make([]string, len(loopVs))
	for i, v := range loopVs {
		lts[i] = c.vars[v].typ
	}
	sigma := pfTupleType(lts)
	retT := pfTupleType(c.f.retTypes())
	*c.nk++
	id := *c.nk
	bodyName := fmt.Sprintf("%s_body%d", c.f.lean, id)
	exitName := fmt.Sprintf("%s_exit%d", c.f.lean, id)
	fixedB, fixedA := "", ""
	for _, v := range fixed {
		fixedB += " (" + v + " : " + pfLeanTypes[c.vars[v].typ] + ")"
		fixedA += " " + v
	}
	unpack := ""
	for i, v := range loopVs {
		unpack += "let " + v + " : " + pfLeanTypes[c.vars[v].typ] + " := " + pfProj("s_", i, len(loopVs)) + "\n"
	}
	gens := ""
	if c.f.env {
		gens += " env"
	}
	if c.f.fuel {
		gens += " fuel"
	}
	// the exit: what follows the loop, over the loop state
	ex := c.clone()
	exitBody := ex.stmts(rest, k)
	c.g.out = append(c.g.out, fmt.Sprintf("/-- %s: behind the loop `for %s` -/\n%s :=\n%s\n", c.f.doc, nodeText(n.Cond),
		c.f.header(exitName, fixedB+" (s_ : "+sigma+") : "+c.resultType()), pfIndent(unpack+exitBody)))
	// the body: the condition first
	b := c.clone()
	b.inLoop = true
	b.loopVs = loopVs
	b.flowT = "(" + sigma + ") (" + retT + ")"
	cond := b.expr(n.Cond)
	prop := b.asProp(cond, n.Cond)
	condHead := b.flush()
	inner := b.clone()
	inner.inLoop, inner.loopVs, inner.flowT = true, loopVs, b.flowT
	bodyText := inner.stmts(n.Body.List, func(e *pfCtx) string { return "some (Flow.next " + pfArg(pfTuple(loopVs)) + ")" })
	full := unpack + condHead + "if " + prop + " then\n" + pfIndent(bodyText) + "\nelse\n  some (Flow.done " + pfArg(pfTuple(loopVs)) + ")"
	c.g.out = append(c.g.out, fmt.Sprintf("/-- %s: one round of the loop `for %s` (the condition first) -/\n%s :=\n%s\n", c.f.doc, nodeText(n.Cond),
		c.f.header(bodyName, fixedB+" (s_ : "+sigma+") : Option (Flow "+b.flowT+")"), pfIndent(full)))
	if !c.f.partial {
		refuse("go-pars: %s: a loop in a function that cannot panic (the translator yields Option for every loop)", c.f.key)
	}
	return head + "loop (" + bodyName + gens + fixedA + ") (" + exitName + gens + fixedA + ") fuel " + pfTuple(loopVs)
}

// rangeStmt: `for _, b := range p { assignments }` as a fold
func (c *pfCtx) rangeStmt(n *ast.RangeStmt, rest []ast.Stmt, k func(c *pfCtx) string) string {
	if s, ok := c.seqRange(n, rest, k); ok { // gparsseq.go
		return s
	}
	if n.Tok != token.DEFINE || identName(n.Key) != "_" || identName(n.Value) == "" {
		c.refuse(n, "a range statement that is not `for _, x := range p`")
	}
	p := c.expr(n.X)
	if p.typ == "parsers" {
		return c.rangeParsers(n, p, rest, k)
	}
	if p.typ != "bytes" {
		c.refuse(n, "range over a %s", p.typ)
	}
	as := c.assignedIn([]ast.Node{n.Body})
	var vs []string
	for _, v := range c.order {
		if as[v] {
			vs = append(vs, v)
		}
	}
	if len(vs) != 1 {
		c.refuse(n, "a range loop that assigns %d variables", len(vs))
	}
	acc := vs[0]
	b := c.clone()
	b.declare(identName(n.Value), "byte")
	b.inLoop = false
	body := b.pureBlock(n.Body.List, acc)
	c.pre = append(c.pre, "let "+acc+" : "+pfLeanTypes[c.vars[acc].typ]+" := "+pfArg(p.lean)+".foldl (fun "+acc+" "+identName(n.Value)+" =>\n"+pfIndent(pfIndent(body))+") "+acc)
	return c.flush() + c.stmts(rest, k)
}

// rangeParsers: `for _, p := range ps { … }` over a list of parsers, a body that may return: `rangeLoop` of the prelude
// (one round per element, no fuel)
func (c *pfCtx) rangeParsers(n *ast.RangeStmt, p pfVal, rest []ast.Stmt, k func(c *pfCtx) string) string {
	if c.inLoop {
		c.refuse(n, "nested loop")
	}
	head := c.flush()
	elem := identName(n.Value)
	as := c.assignedIn([]ast.Node{n.Body})
	var loopVs, fixed []string
	for _, v := range c.order {
		if as[v] {
			loopVs = append(loopVs, v)
		} else {
			fixed = append(fixed, v)
		}
	}
	if len(loopVs) == 0 {
		c.refuse(n, "a loop that assigns nothing")
	}
	lts := make([]string, len(loopVs))
	for i, v := range loopVs {
		lts[i] = c.vars[v].typ
	}
	sigma := pfTupleType(lts)
	retT := pfTupleType(c.f.retTypes())
	*c.nk++
	id := *c.nk
	bodyName := fmt.Sprintf("%s_body%d", c.f.lean, id)
	exitName := fmt.Sprintf("%s_exit%d", c.f.lean, id)
	fixedB, fixedA := "", ""
	for _, v := range fixed {
		fixedB += " (" + v + " : " + pfLeanTypes[c.vars[v].typ] + ")"
		fixedA += " " + v
	}
	unpack := ""
	for i, v := range loopVs {
		unpack += "let " + v + " : " + pfLeanTypes[c.vars[v].typ] + " := " + pfProj("s_", i, len(loopVs)) + "\n"
	}
	gens := ""
	if c.f.env {
		gens += " env"
	}
	if c.f.fuel {
		gens += " fuel"
	}
	ex := c.clone()
	exitBody := ex.stmts(rest, k)
	c.g.out = append(c.g.out, fmt.Sprintf("/-- %s: behind the loop `for _, %s := range %s` -/\n%s :=\n%s\n", c.f.doc, elem, nodeText(n.X),
		c.f.header(exitName, fixedB+" (s_ : "+sigma+") : "+c.resultType()), pfIndent(unpack+exitBody)))
	b := c.clone()
	b.inLoop, b.loopVs = true, loopVs
	b.flowT = "(" + sigma + ") (" + retT + ")"
	b.declare(elem, "parser")
	bodyText := b.stmts(n.Body.List, func(e *pfCtx) string { return "some (Flow.next " + pfArg(pfTuple(loopVs)) + ")" })
	c.g.out = append(c.g.out, fmt.Sprintf("/-- %s: one round of the loop `for _, %s := range %s` -/\n%s :=\n%s\n", c.f.doc, elem, nodeText(n.X),
		c.f.header(bodyName, fixedB+" ("+elem+" : "+pfLeanTypes["parser"]+") (s_ : "+sigma+") : Option (Flow "+b.flowT+")"), pfIndent(unpack+bodyText)))
	if !c.f.partial {
		refuse("go-pars: %s: a loop in a function that cannot panic", c.f.key)
	}
	return head + "rangeLoop (" + bodyName + gens + fixedA + ") (" + exitName + gens + fixedA + ") " + pfArg(p.lean) + " " + pfTuple(loopVs)
}

// pureBlock: the body of a range loop: assignments, `x.f++`, if / else over them — nothing that can panic or
// return; yields the variable acc
func (c *pfCtx) pureBlock(list []ast.Stmt, acc string) string {
	out := ""
	for _, s := range list {
		switch n := s.(type) {
		case *ast.IncDecStmt:
			v := c.expr(n.X)
			root, fields, ok := pfPath(n.X)
			if !ok || v.typ != "int" {
				c.refuse(s, "%s in a range body", n.Tok)
			}
			op := " + 1"
			if n.Tok == token.DEC {
				op = " - 1"
			}
			c.assignPath(s, root, fields, "("+v.lean+op+")")
		case *ast.AssignStmt:
			c.assign(n)
		case *ast.IfStmt:
			if n.Init != nil {
				c.refuse(s, "if with an init statement in a range body")
			}
			cond := c.expr(n.Cond)
			var elseList []ast.Stmt
			if n.Else != nil {
				e, ok := n.Else.(*ast.BlockStmt)
				if !ok {
					c.refuse(s, "else-if in a range body")
				}
				elseList = e.List
			}
			v := c.vars[acc]
			c.pre = append(c.pre, "let "+acc+" : "+pfLeanTypes[v.typ]+" := if "+c.asProp(cond, n.Cond)+" then\n"+
				pfIndent(pfIndent(c.clone().pureBlock(n.Body.List, acc)))+"\n  else\n"+pfIndent(pfIndent(c.clone().pureBlock(elseList, acc))))
		default:
			c.refuse(s, "statement %T in a range body", s)
		}
		for _, l := range c.pre {
			if !strings.HasPrefix(l, "let ") {
				c.refuse(s, "a statement that can panic in a range body")
			}
		}
		out += c.flush()
	}
	return out + acc
}

// ---- analysis of a function -------------------------------------------------------------------------

// pfSyntacticPartial: the body has an index, a slice expression, a store into a cell or a panic
func pfSyntacticPartial(f *pfFunc) bool {
	found := false
	for _, s := range f.body {
		ast.Inspect(s, func(x ast.Node) bool {
			switch m := x.(type) {
			case *ast.IndexExpr, *ast.SliceExpr, *ast.ForStmt:
				found = true
			case *ast.CallExpr:
				if nodeText(m.Fun) == "panic" {
					found = true
				}
			}
			return true
		})
	}
	return found
}

func pfUsesEnv(f *pfFunc) bool {
	found := f.fill
	for _, s := range f.body {
		ast.Inspect(s, func(x ast.Node) bool {
			if m, ok := x.(*ast.CallExpr); ok {
				switch nodeText(m.Fun) {
				case "NewError", "NewNestedError", "errors.New", "strconv.Atoi", "ascii.IsDigit", "ascii.IsSpace":
					found = true
				}
			}
			return true
		})
	}
	return found
}

func pfHasLoop(f *pfFunc) bool {
	found := false
	for _, s := range f.body {
		ast.Inspect(s, func(x ast.Node) bool {
			if _, ok := x.(*ast.ForStmt); ok {
				found = true
			}
			return true
		})
	}
	return found
}

// pfCalls: the names a body may call: identifiers and selector names
func pfCalls(f *pfFunc) map[string]bool {
	out := map[string]bool{}
	for _, s := range f.body {
		ast.Inspect(s, func(x ast.Node) bool {
			if m, ok := x.(*ast.CallExpr); ok {
				switch fn := m.Fun.(type) {
				case *ast.Ident:
					out[fn.Name] = true
				case *ast.SelectorExpr:
					out["."+fn.Sel.Name] = true
				}
			}
			return true
		})
	}
	return out
}

// ---- the generator ----------------------------------------------------------------------------------

func (g *pfGen) loadStructs() {
	g.structs = map[string][]pfField{}
	for _, name := range []string{"Position", "frame", "stack", "State"} {
		d, ok := g.pk.byName[name]
		if !ok || d.kind != "type" {
			refuse("go-pars: type %s not found", name)
		}
		st, ok := d.spec.Type.(*ast.StructType)
		if !ok {
			refuse("go-pars: type %s is not a struct", name)
		}
		var fs []pfField
		for _, f := range st.Fields.List {
			if len(f.Names) == 0 {
				refuse("go-pars: type %s has an embedded field", name)
			}
			t := g.goType("type "+name, f.Type)
			for _, n := range f.Names {
				fs = append(fs, pfField{n.Name, pfLeanField(n.Name), t})
			}
		}
		g.structs[name] = fs
	}
	g.consts = map[string]string{}
	for _, d := range g.pk.decls {
		if d.kind == "const" {
			if l, ok := d.value.(*ast.BasicLit); ok && l.Kind == token.INT {
				g.consts[d.name] = l.Value
			}
		}
	}
}

func (g *pfGen) loadFunc(key, lean string) *pfFunc {
	top := key
	lit := ""
	if k := strings.Index(key, "/"); k >= 0 {
		top, lit = key[:k], key[k+1:]
	}
	d, ok := g.pk.byName[top]
	if !ok || d.kind != "func" {
		refuse("go-pars: function %s not found", top)
	}
	f := &pfFunc{key: key, lean: lean, d: d, textOnly: map[string]bool{}}
	f.doc = d.file + " `" + key + "`"
	fd := d.fd
	if fd.Recv != nil {
		rt := fd.Recv.List[0].Type
		name := "recv_"
		if ns := fd.Recv.List[0].Names; len(ns) == 1 {
			name = ns[0].Name
		}
		f.params = append(f.params, pfParam{name, g.goType(key+": receiver", rt), pfIsPtr(rt)})
	}
	addParams := func(fl *ast.FieldList, captured bool) {
		if fl == nil {
			return
		}
		for _, p := range fl.List {
			t := g.goType(key+": parameter", p.Type)
			if len(p.Names) == 0 {
				refuse("go-pars: %s: unnamed parameter", key)
			}
			for _, n := range p.Names {
				f.params = append(f.params, pfParam{n.Name, t, pfIsPtr(p.Type) && !captured})
			}
		}
	}
	if lit == "" {
		addParams(fd.Type.Params, false)
		f.ft, f.body = fd.Type, fd.Body.List
	} else {
		// a constructor: error texts, then `return func(state, result) error { … }`; `lit` = funcN in
		// the numbering of the facts (source order)
		want, err := strconv.Atoi(strings.TrimPrefix(lit, "func"))
		if err != nil {
			refuse("go-pars: %s: literal name", key)
		}
		var lits []*ast.FuncLit
		ast.Inspect(fd.Body, func(x ast.Node) bool {
			if fl, ok := x.(*ast.FuncLit); ok {
				lits = append(lits, fl)
			}
			return true
		})
		if want >= len(lits) {
			refuse("go-pars: %s: the constructor has %d function literals", key, len(lits))
		}
		fl := lits[want]
		// the statements in front of the literal, on the path to it: only error texts
		var collect func(list []ast.Stmt) bool
		collect = func(list []ast.Stmt) bool {
			for _, s := range list {
				if s.Pos() <= fl.Pos() && fl.End() <= s.End() {
					switch n := s.(type) {
					case *ast.ReturnStmt:
						if len(n.Results) == 1 && n.Results[0] == ast.Expr(fl) {
							return true
						}
					case *ast.SwitchStmt:
						for _, cl := range n.Body.List {
							cc := cl.(*ast.CaseClause)
							if cc.Pos() <= fl.Pos() && fl.End() <= cc.End() {
								return collect(cc.Body)
							}
						}
					case *ast.TypeSwitchStmt:
						// Until: the parser of the `default:` case of `switch v := q.(type)`
						for _, cl := range n.Body.List {
							cc := cl.(*ast.CaseClause)
							if cc.Pos() <= fl.Pos() && fl.End() <= cc.End() {
								if cc.List != nil {
									refuse("go-pars: %s: the function literal is not in the default case of the type switch", key)
								}
								return collect(cc.Body)
							}
						}
					}
					refuse("go-pars: %s: the function literal is not returned directly", key)
				}
				as, ok := s.(*ast.AssignStmt)
				if !ok || as.Tok != token.DEFINE || len(as.Lhs) != 1 || len(as.Rhs) != 1 || identName(as.Lhs[0]) == "" {
					refuse("go-pars: %s: a set-up statement that is not `name := …`", key)
				}
				switch r := as.Rhs[0].(type) {
				case *ast.CallExpr:
					switch nodeText(r.Fun) {
					case "fmt.Sprintf", "reflect.ValueOf", "runtime.FuncForPC", "ascii.Rep":
						f.textOnly[identName(as.Lhs[0])] = true
						continue
					case "AsParser":
						// p := AsParser(q): the parser the combinator is built from
						if len(r.Args) == 1 && identName(r.Args[0]) != "" {
							f.params = append(f.params, pfParam{identName(as.Lhs[0]), "parser", false})
							continue
						}
					case "AsParsers":
						if len(r.Args) == 1 && identName(r.Args[0]) != "" && r.Ellipsis.IsValid() {
							f.params = append(f.params, pfParam{identName(as.Lhs[0]), "parsers", false})
							continue
						}
					case "[]byte":
						// p := []byte(s): computed where the parser is built; translated in front of its body
						if len(r.Args) == 1 && identName(r.Args[0]) != "" {
							f.prefix = append(f.prefix, s)
							continue
						}
					}
					if sel, ok := r.Fun.(*ast.SelectorExpr); ok && (sel.Sel.Name == "Name" || sel.Sel.Name == "Pointer") && f.textOnly[identName(sel.X)] {
						f.textOnly[identName(as.Lhs[0])] = true
						continue
					}
				case *ast.IndexExpr:
					// e := p[0] under `case 1` of `switch len(p)`: the one byte of the variadic parameter
					if l, ok := r.Index.(*ast.BasicLit); ok && l.Value == "0" && identName(r.X) != "" {
						f.params = append(f.params, pfParam{identName(as.Lhs[0]), "byte", false})
						continue
					}
				}
				refuse("go-pars: %s: set-up statement %s", key, nodeText(s))
			}
			return false
		}
		if !collect(fd.Body.List) {
			refuse("go-pars: %s: the function literal is not returned by the constructor", key)
		}
		// the constructor's own parameters are captured (variadic `p ...byte` is read through `e := p[0]`)
		if fd.Type.Params != nil {
			for _, p := range fd.Type.Params.List {
				if _, variadic := p.Type.(*ast.Ellipsis); variadic {
					continue
				}
				if nodeText(p.Type) == "interface{}" {
					continue // reaches the parser through `AsParser(q)` only
				}
				t := g.goType(key+": parameter", p.Type)
				for _, n := range p.Names {
					f.params = append(f.params, pfParam{n.Name, t, false})
				}
			}
		}
		addParams(fl.Type.Params, false)
		f.ft, f.body = fl.Type, fl.Body.List
	}
	if f.ft.Results != nil {
		for _, r := range f.ft.Results.List {
			t := g.goType(key+": result", r.Type)
			for _, n := range r.Names {
				f.named = append(f.named, pfParam{n.Name, t, false})
			}
			if len(r.Names) > 1 {
				refuse("go-pars: %s: several named results in one field", key)
			}
			f.results = append(f.results, t)
		}
	}
	return f
}

func (g *pfGen) structText(name string) string {
	b := strings.Builder{}
	params := ""
	if name == "State" {
		params = " (ρ ε : Type)"
	}
	fmt.Fprintf(&b, "/-- the Go type `%s`, field by field -/\nstructure %s%s where\n", name, pfStructLean[name], params)
	for _, f := range g.structs[name] {
		fmt.Fprintf(&b, "  %s : %s\n", f.lean, pfLeanTypes[f.typ])
	}
	return b.String()
}

func (g *pfGen) translate(f *pfFunc) {
	ntmp, nk := 0, 0
	c := &pfCtx{g: g, f: f, vars: map[string]pfVar{}, ntmp: &ntmp, nk: &nk}
	binders := ""
	for _, p := range f.params {
		c.declare(p.name, p.typ)
		binders += " (" + p.name + " : " + pfLeanTypes[p.typ] + ")"
	}
	for n := range f.textOnly {
		c.vars[n] = pfVar{"text"}
	}
	body := append(append([]ast.Stmt{}, f.prefix...), f.body...)
	head := ""
	for _, n := range f.named {
		c.declare(n.name, n.typ)
		head += "let " + n.name + " : " + pfLeanTypes[n.typ] + " := " + c.zero(n.typ) + "\n"
	}
	if f.fill {
		recv := f.params[0].name
		head = "let " + recv + " : " + pfLeanTypes["State"] + " := env.fill " + recv + " " + f.params[1].name + "\n"
	}
	text := c.stmts(body, func(e *pfCtx) string {
		if len(f.results) != 0 {
			refuse("go-pars: %s: control reaches the end of a function with results", f.key)
		}
		return e.retText(f.d.fd, nil)
	})
	g.out = append(g.out, fmt.Sprintf("/-- %s -/\n%s :=\n%s\n", f.doc, f.header(f.lean, binders+" : "+f.retLean()), pfIndent(head+text)))
}

func genParsFns(repo string) (text string, err error) {
	defer recoverRefusal(&err)
	parsPin(repo)
	dir := parsModuleDir(repo)
	pk := parsLoad(dir)
	g := &pfGen{pk: pk, funcs: map[string]*pfFunc{}}
	g.loadStructs()
	var order []*pfFunc
	for _, o := range pfOrder {
		f := g.loadFunc(o.key, o.lean)
		order = append(order, f)
	}
	order = append(order, g.loadMapP()) // gparsseq.go
	// State.Request: the read loop is the parameter env.fill
	for _, f := range order {
		if f.key != "State.Request" {
			continue
		}
		lines := parsPrint(f.d)[0].lines
		if len(lines) < 1+len(pfFillLoop) {
			refuse("go-pars: State.Request: the read loop at its head is not the expected one")
		}
		for i, l := range pfFillLoop {
			if lines[1+i] != l {
				refuse("go-pars: State.Request: the read loop at its head is not the expected one: line %d is `%s`, expected `%s`", i+1, lines[1+i].text, l.text)
			}
		}
		if len(lines) > 1+len(pfFillLoop) && lines[1+len(pfFillLoop)].ind != 1 {
			refuse("go-pars: State.Request: the read loop at its head has more statements than expected")
		}
		f.fill = true
		f.body = f.body[1:]
	}
	// partial / fuel / env: fixpoint over the calls (by name; `.M` stands for every translated method M)
	byCallName := map[string][]*pfFunc{}
	for _, f := range order {
		g.funcs[f.key] = f
		top := f.key
		if strings.Contains(top, "/") {
			continue // a returned parser is not called by name
		}
		if k := strings.Index(top, "."); k >= 0 {
			byCallName["."+top[k+1:]] = append(byCallName["."+top[k+1:]], f)
		} else {
			byCallName[top] = append(byCallName[top], f)
		}
	}
	for _, f := range order {
		f.partial = pfSyntacticPartial(f)
		f.env = pfUsesEnv(f) || g.seqUsesEnv(f)
		f.fuel = pfHasLoop(f)
		for _, p := range f.params {
			switch p.typ {
			case "State", "error", "reader":
				f.generic = true
			case "parser", "parsers":
				f.generic, f.partial = true, true // a parser that is called can panic
			case "mapfn", "mapfnP":
				f.generic = true
			}
		}
		for _, r := range f.results {
			if r == "error" {
				f.generic = true
			}
		}
	}
	for changed := true; changed; {
		changed = false
		for _, f := range order {
			for name := range pfCalls(f) {
				for _, cal := range byCallName[name] {
					if cal.partial && !f.partial {
						f.partial, changed = true, true
					}
					if cal.env && !f.env {
						f.env, changed = true, true
					}
					if cal.fuel && !f.fuel {
						f.fuel, changed = true, true
					}
				}
			}
		}
	}
	for _, f := range order {
		if f.env && !f.generic {
			refuse("go-pars: %s: uses the parameter record but has no State", f.key)
		}
	}
	for _, f := range order {
		g.translate(f)
	}
	for _, o := range pfCompositions { // gparsseq.go
		g.compose(o.key, o.lean)
	}

	b := strings.Builder{}
	b.WriteString("/-\n  GENERATED by go2lean (gparsfn.go) from the module directory of github.com/go-pars/pars — do not edit.\n")
	b.WriteString("  The parser state (stack.go, state.go) and the primitive parsers (basic.go, bytes.go, strings.go, ascii.go,\n  convenience.go, literals.go) translated statement by statement: a pointer receiver / parameter is taken and given\n  back, `none` is a Go panic, an `if` that falls through has its join point `_k<n>`, a `for` loop is `loop body exit fuel`\n  of the prelude with the round `_body<n>` and what follows `_exit<n>`; the read loop of `Request`, error values,\n  `strconv.Atoi`, `ascii.IsDigit / IsSpace` are the fields of `Env` (Gts/Gen/ParsPrelude.lean).\n-/\n")
	b.WriteString("import Gts.Gen.ParsPrelude\nnamespace Gts.Gen.GoPars\nset_option linter.unusedVariables false\n\n")
	for _, n := range []string{"Position", "frame", "stack", "State"} {
		b.WriteString(g.structText(n))
		b.WriteString("\n")
	}
	b.WriteString("/-- what is not translated: the read loop at the head of `State.Request` (`fill s n`: reads from `s.rd` into `s.buf` until\n`len(s.buf) ≥ s.off + n` or `s.err` is set), the error values (`mkErr`), `strconv.Atoi` on a byte string (`atoi`: value and\nerror), `ascii.IsDigit`, `ascii.IsSpace` -/\n")
	b.WriteString("structure Env (ρ ε : Type) where\n  fill : State ρ ε → Int → State ρ ε\n  mkErr : ε\n  atoi : List UInt8 → Int × Option ε\n  isDigit : UInt8 → Bool\n  isSpace : UInt8 → Bool\n\n")
	b.WriteString("/-- a `pars.Parser` held in a variable: it takes and gives back the state and the result and answers its error (`none` = nil);\n`none` outside = it panicked -/\nabbrev GoParser (ρ ε : Type) := State ρ ε → ResultV → Option (State ρ ε × ResultV × Option ε)\n\n")
	for _, d := range g.out {
		b.WriteString(d)
		b.WriteString("\n")
	}
	b.WriteString("end Gts.Gen.GoPars\n")
	return b.String(), nil
}

const parsPreludeText = `/-
  GENERATED by go2lean (gparsfn.go) — fixed text, do not edit.
  How the translator of go-pars reads Go: a slice is a ` + "`List`" + ` (a value: no aliasing, no capacity), an ` + "`int`" + ` is an
  unbounded ` + "`Int`" + `, every operation that can panic at run time is a checked operation whose ` + "`none`" + ` is the panic
  (ASSUMED READING: a slice END beyond ` + "`len(p)`" + ` is a panic; Go: beyond ` + "`cap(p)`" + `), a ` + "`*Result`" + ` is the value last set
  in it, a ` + "`for`" + ` loop is ` + "`loop`" + ` over a round function.
-/
namespace Gts.Gen.GoPars

/-- ` + "`p[i]`" + ` -/
def goIdx {α : Type} (p : List α) (i : Int) : Option α :=
  if i < 0 then none else p[i.toNat]?

/-- ` + "`p[a:]`" + ` -/
def goFrom {α : Type} (p : List α) (a : Int) : Option (List α) :=
  if 0 ≤ a ∧ a ≤ (p.length : Int) then some (p.drop a.toNat) else none

/-- ` + "`p[:b]`" + ` -/
def goTo {α : Type} (p : List α) (b : Int) : Option (List α) :=
  if 0 ≤ b ∧ b ≤ (p.length : Int) then some (p.take b.toNat) else none

/-- ` + "`p[a:b]`" + ` -/
def goSlice {α : Type} (p : List α) (a b : Int) : Option (List α) :=
  if 0 ≤ a ∧ a ≤ b ∧ b ≤ (p.length : Int) then some ((p.drop a.toNat).take (b.toNat - a.toNat)) else none

/-- ` + "`p[i] = x`" + ` -/
def goSet {α : Type} (p : List α) (i : Int) (x : α) : Option (List α) :=
  if 0 ≤ i ∧ i < (p.length : Int) then some (p.set i.toNat x) else none

/-- what a ` + "`*pars.Result`" + ` holds: ` + "`SetToken(p)`" + ` / ` + "`SetValue(v)`" + ` set one field and clear the others (result.go, pinned by the
facts ` + "`pars_Result_SetToken`" + ` / ` + "`pars_Result_SetValue`" + `)` + parsPreludeResultDoc + ` -/
inductive ResultV where
  | unset
  | token (p : List UInt8)
  | int (n : Int)
  | str (s : List UInt8)
  | children (c : List ResultV)
  deriving Repr, Inhabited
` + parsPreludeChildren + `
/-- how one round of a ` + "`for`" + ` loop ends: ` + "`.next s`" + ` the next round (also ` + "`continue`" + `), ` + "`.done s`" + ` the condition was false (also
` + "`break`" + `), ` + "`.ret r`" + ` the function returned ` + "`r`" + ` -/
inductive Flow (σ R : Type) where
  | next (s : σ)
  | done (s : σ)
  | ret (r : R)

/-- ` + "`for cond { body }`" + `; rest: ` + "`body`" + ` is one round with the condition first, ` + "`exit`" + ` what follows the loop; ` + "`none`" + ` = a panic.
The fuel bounds the number of rounds (the bridge states how much is enough); when it runs out the loop is left as if its
condition were false. -/
def loop {σ R : Type} (body : σ → Option (Flow σ R)) (exit : σ → Option R) : Nat → σ → Option R
  | 0, s => exit s
  | fuel + 1, s =>
    match body s with
    | none => none
    | some (.next s') => loop body exit fuel s'
    | some (.done s') => exit s'
    | some (.ret r) => some r

/-- ` + "`for _, x := range xs { body }`" + `; rest, with a body that may return: one round per element (no fuel) -/
def rangeLoop {α σ R : Type} (body : α → σ → Option (Flow σ R)) (exit : σ → Option R) : List α → σ → Option R
  | [], s => exit s
  | x :: xs, s =>
    match body x s with
    | none => none
    | some (.next s') => rangeLoop body exit xs s'
    | some (.done s') => exit s'
    | some (.ret r) => some r
` + parsPreludeRangeIdx + `
end Gts.Gen.GoPars
`

func genParsPrelude(repo string) (string, error) { return parsPreludeText, nil }
