package main

// iodelegatefn.go — the cache PROTOCOL code of cmd/gts/io.go as generated FUNCTIONS (Gts/Gen/IoDelegate.lean,
// obligations of C14; bridge Gts/Bridge/IoDelegateFn.lean).
//
// `gtsCacheDir`, `(*ioDelegate).Commit`, `newIODelegate`, `(*ioDelegate).Write`, `(*ioDelegate).Close`,
// `(*ioDelegate).TryCache` are decision logic around calls into the OS, the digest and cmd/cache.  They are
// translated, statement by statement, into Lean functions over an ARBITRARY record of primitives
// `io : Gts.CacheProto.DelegateIO σ ε φ κ ν` (Gts/Model/CacheProtoIO.lean: one field per external call shape),
// the state `s : σ` threaded through every effectful call in statement order (the design of cachefile.go):
//
//	dir, err := os.UserCacheDir()               let (s, dir, err) := io.userCacheDir s;
//	if _, err := f.Seek(0, io.SeekStart); err != nil { … }
//	                                            let (s, _, err_1) := io.fileSeek f 0 s;
//	                                            if (err_1.isSome = true) then … else …
//	h.Write(data)                               let s := io.hashWrite data s;
//	d.infile = f                                let d := { d with infile := f };
//	d.Close()                                   let (s, d, _) := close io d s;
//
// Reading of the Go:
//   - the receiver `*ioDelegate` is a value `d : Delegate φ κ` that every method takes and gives back; the
//     struct must have exactly the fields `infile outfile *os.File; cache *cache.File; tmpin done bool`;
//   - `*os.File` values are `φ` (`os.Stdin`, `os.Stdout` are `io.stdin`, `io.stdout`; `==` is equality), `*cache.File`
//     values are `κ` (`nil` is `io.nilCache`), what `Name()` returns is `ν` (only ever handed to `os.Remove`),
//     `error` is `Option ε`, `[]byte` / `string` / `int` / `bool` are `Bytes` / `String` / `Int` / `Bool`; the one
//     `hash.Hash` is implicit in `σ`;
//   - an `if` whose body can fall through gets a JOIN POINT: what follows it becomes a definition `f_kn` of its own over
//     everything in scope, the delegate and the state, called at the end of the body and in the else arm (so that
//     the bridge can state one lemma per piece);
//   - `defer f(x)`: the function value and the arguments are evaluated where the statement stands, the call runs
//     before every later `return` of the function, last deferred first (`if c { defer … }` registers under the
//     guard `c`, evaluated there); the results of the function are evaluated before the deferred calls run;
//   - a call whose results are discarded is `let s := (…).1`, so a dropped error check still translates.
//
// Anything else — another statement form, another call, a call on the wrong kind of value, a `defer` inside a
// block that falls through, an `else`, a loop, a function literal, shadowing of a package name — is refused.

import (
	"fmt"
	"go/ast"
	"go/token"
	"path/filepath"
	"strconv"
	"strings"
)

type iofVal struct {
	kind string // file cacheptr name err bytes str int bool hash deleg delegptr nil
	term string
}

type iofVar struct {
	kind string
	lean string
}

type iofScope struct {
	parent *iofScope
	vars   map[string]*iofVar
	order  []*iofVar // the variables of this scope that are Lean values, in order of declaration
}

func newIofScope(parent *iofScope) *iofScope {
	return &iofScope{parent: parent, vars: map[string]*iofVar{}}
}

// visible: every Lean-valued variable in scope, outermost scope first, in order of declaration
func (s *iofScope) visible() []*iofVar {
	if s == nil {
		return nil
	}
	return append(s.parent.visible(), s.order...)
}

func (s *iofScope) lookup(n string) (*iofVar, bool) {
	for ; s != nil; s = s.parent {
		if v, ok := s.vars[n]; ok {
			return v, true
		}
	}
	return nil, false
}

type iofDefer struct {
	guard string // Lean Bool variable, "" = unconditional
	call  string // Lean term `(prim args s)` yielding (σ × results…)
}

type iofFn struct {
	lean    string
	method  bool
	params  []string // kinds of the Go parameters (without the receiver)
	results []string // kinds of the Go results
}

type iofGen struct {
	src     *source
	fn      string
	recv    string // Go name of the receiver, "" for a function
	method  bool
	results []string
	used    map[string]int
	nk      int
	known   map[string]*iofFn
	lean    string   // Lean name of the function
	aux     []string // the join points, lifted to definitions of their own (inner ones first)
}

var iofLeanType = map[string]string{
	"file": "φ", "cacheptr": "κ", "name": "ν", "err": "Option ε", "bytes": "Gts.Cache.Bytes", "str": "String",
	"int": "Int", "bool": "Bool", "deleg": "Gts.CacheProto.Delegate φ κ", "delegptr": "Option (Gts.CacheProto.Delegate φ κ)",
}

var iofDelegFields = [][2]string{{"infile", "file"}, {"outfile", "file"}, {"cache", "cacheptr"}, {"tmpin", "bool"}, {"done", "bool"}}

var iofReserved = map[string]bool{"io": true, "s": true, "d": true, "σ": true, "ε": true, "φ": true, "κ": true, "ν": true}

func (g *iofGen) refuse(n ast.Node, format string, a ...interface{}) {
	panic(refusal{g.src.errAt(n, "%s: %s", g.fn, fmt.Sprintf(format, a...)).Error()})
}

// fresh Lean name for a Go local
func (g *iofGen) leanName(goName string) string {
	base := goName
	if leanKeywords[base] || iofReserved[base] || strings.HasPrefix(base, "k_") || strings.HasPrefix(base, "dg_") || strings.HasPrefix(base, "df_") {
		base += "_"
	}
	k := g.used[base]
	g.used[base] = k + 1
	if k == 0 {
		return base
	}
	return fmt.Sprintf("%s_%d", base, k)
}

func (g *iofGen) declare(sc *iofScope, goName, kind string) *iofVar {
	v := &iofVar{kind: kind, lean: g.leanName(goName)}
	sc.vars[goName] = v
	sc.order = append(sc.order, v)
	return v
}

// pkg: a package-level name that no local shadows
func (g *iofGen) pkg(sc *iofScope, x ast.Expr, name string) bool {
	id, ok := x.(*ast.Ident)
	if !ok || id.Name != name {
		return false
	}
	_, shadow := sc.lookup(name)
	return !shadow
}

func (g *iofGen) pkgSel(sc *iofScope, x ast.Expr) (string, bool) {
	sel, ok := x.(*ast.SelectorExpr)
	if !ok {
		return "", false
	}
	id, ok := sel.X.(*ast.Ident)
	if !ok {
		return "", false
	}
	if _, shadow := sc.lookup(id.Name); shadow {
		return "", false
	}
	return id.Name + "." + sel.Sel.Name, true
}

// ---- pure expressions -------------------------------------------------------------------------------

func (g *iofGen) value(sc *iofScope, x ast.Expr) iofVal {
	switch n := x.(type) {
	case *ast.ParenExpr:
		return g.value(sc, n.X)
	case *ast.BasicLit:
		switch n.Kind {
		case token.INT:
			v, err := strconv.ParseInt(n.Value, 0, 64)
			if err != nil {
				g.refuse(x, "integer literal %s", n.Value)
			}
			return iofVal{"int", strconv.FormatInt(v, 10)}
		case token.STRING:
			s, ok := stringLiteral(n)
			if !ok {
				g.refuse(x, "string literal %s", n.Value)
			}
			return iofVal{"str", leanString(s)}
		}
		g.refuse(x, "literal %s", n.Value)
	case *ast.Ident:
		if v, ok := sc.lookup(n.Name); ok {
			return iofVal{v.kind, v.lean}
		}
		switch n.Name {
		case "nil":
			return iofVal{kind: "nil"}
		case "true", "false":
			return iofVal{"bool", n.Name}
		}
		g.refuse(x, "unknown identifier %s", n.Name)
	case *ast.SelectorExpr:
		if q, ok := g.pkgSel(sc, n); ok {
			switch q {
			case "os.Stdin":
				return iofVal{"file", "io.stdin"}
			case "os.Stdout":
				return iofVal{"file", "io.stdout"}
			}
			if l, ok := flateLevels[n.Sel.Name]; ok && strings.HasPrefix(q, "flate.") {
				return iofVal{"int", l}
			}
			g.refuse(x, "selector %s", q)
		}
		base := g.value(sc, n.X)
		if base.kind == "deleg" {
			for _, f := range iofDelegFields {
				if f[0] == n.Sel.Name {
					return iofVal{f[1], base.term + "." + f[0]}
				}
			}
		}
		g.refuse(x, "field %s of a %s", n.Sel.Name, base.kind)
	case *ast.UnaryExpr:
		switch n.Op {
		case token.NOT:
			return iofVal{"prop", "(¬ " + g.cond(sc, n.X) + ")"}
		case token.AND:
			cl, ok := n.X.(*ast.CompositeLit)
			if !ok || identName(cl.Type) != "ioDelegate" || len(cl.Elts) != len(iofDelegFields) {
				g.refuse(x, "& of something that is not an ioDelegate literal with %d positional elements", len(iofDelegFields))
			}
			var parts []string
			for i, el := range cl.Elts {
				if _, kv := el.(*ast.KeyValueExpr); kv {
					g.refuse(el, "keyed ioDelegate literal")
				}
				parts = append(parts, g.termOf(sc, el, iofDelegFields[i][1]))
			}
			return iofVal{"delegptr", "(some ⟨" + strings.Join(parts, ", ") + "⟩)"}
		}
		g.refuse(x, "unary %s", n.Op)
	case *ast.BinaryExpr:
		switch n.Op {
		case token.LAND:
			return iofVal{"prop", fmt.Sprintf("(%s ∧ %s)", g.cond(sc, n.X), g.cond(sc, n.Y))}
		case token.LOR:
			return iofVal{"prop", fmt.Sprintf("(%s ∨ %s)", g.cond(sc, n.X), g.cond(sc, n.Y))}
		case token.EQL, token.NEQ:
			l, r := g.value(sc, n.X), g.value(sc, n.Y)
			if l.kind == "nil" {
				l, r = r, l
			}
			eq := n.Op == token.EQL
			if r.kind == "nil" {
				switch l.kind {
				case "err":
					if eq {
						return iofVal{"prop", "(" + l.term + ".isNone = true)"}
					}
					return iofVal{"prop", "(" + l.term + ".isSome = true)"}
				case "cacheptr":
					r = iofVal{"cacheptr", "io.nilCache"}
				default:
					g.refuse(x, "comparison of a %s with nil", l.kind)
				}
			}
			if l.kind != r.kind {
				g.refuse(x, "comparison of a %s with a %s", l.kind, r.kind)
			}
			// a constant goes to the right (`os.Stdin == d.infile` reads as `d.infile = io.stdin`)
			if isConst := func(t string) bool { return strings.HasPrefix(t, "io.") || strings.HasPrefix(t, "\"") }; isConst(l.term) && !isConst(r.term) {
				l, r = r, l
			}
			switch l.kind {
			case "file", "cacheptr", "str", "int", "bool":
				op := "="
				if !eq {
					op = "≠"
				}
				return iofVal{"prop", fmt.Sprintf("(%s %s %s)", l.term, op, r.term)}
			}
			g.refuse(x, "comparison of two %s values", l.kind)
		}
		g.refuse(x, "binary %s", n.Op)
	case *ast.CallExpr:
		return g.pureCall(sc, n)
	}
	g.refuse(x, "expression %T", x)
	return iofVal{}
}

// termOf: the Lean term of x as a value of the given kind (nil is read by the kind)
func (g *iofGen) termOf(sc *iofScope, x ast.Expr, kind string) string {
	v := g.value(sc, x)
	if v.kind == "nil" {
		switch kind {
		case "err", "delegptr":
			return "none"
		case "cacheptr":
			return "io.nilCache"
		}
		g.refuse(x, "nil where a %s is expected", kind)
	}
	if v.kind != kind {
		g.refuse(x, "a %s where a %s is expected (%s)", v.kind, kind, nodeText(x))
	}
	return v.term
}

// cond: a decidable Lean proposition
func (g *iofGen) cond(sc *iofScope, x ast.Expr) string {
	v := g.value(sc, x)
	switch v.kind {
	case "prop":
		return v.term
	case "bool":
		return "(" + v.term + " = true)"
	}
	g.refuse(x, "a %s where a condition is expected (%s)", v.kind, nodeText(x))
	return ""
}

func (g *iofGen) pureCall(sc *iofScope, n *ast.CallExpr) iofVal {
	if q, ok := g.pkgSel(sc, n.Fun); ok {
		if q == "filepath.Join" && len(n.Args) == 2 {
			return iofVal{"str", fmt.Sprintf("(io.pathJoin %s %s)", g.termOf(sc, n.Args[0], "str"), g.termOf(sc, n.Args[1], "str"))}
		}
		g.refuse(n, "call %s where a value without effect is expected", nodeText(n))
	}
	if sel, ok := n.Fun.(*ast.SelectorExpr); ok {
		recv := g.value(sc, sel.X)
		switch recv.kind + "." + sel.Sel.Name {
		case "hash.Sum":
			if len(n.Args) == 1 && isNil(n.Args[0]) {
				return iofVal{"bytes", "(io.hashSum s)"}
			}
		case "file.Name":
			if len(n.Args) == 0 {
				return iofVal{"name", "(io.fileName " + recv.term + ")"}
			}
		case "cacheptr.Name":
			if len(n.Args) == 0 {
				return iofVal{"name", "(io.cacheName " + recv.term + ")"}
			}
		}
	}
	g.refuse(n, "call %s where a value without effect is expected", nodeText(n))
	return iofVal{}
}

// ---- effectful calls ---------------------------------------------------------------------------------

type iofEffect struct {
	call  string   // Lean term
	res   []string // kinds of the Go results; "-" = not modelled (must be discarded)
	retD  bool     // the Lean tuple is (s, d, results…) instead of (s, results…)
	noRes bool     // the Lean term is the state alone
}

func (g *iofGen) effect(sc *iofScope, x ast.Expr) (iofEffect, bool) {
	n, ok := x.(*ast.CallExpr)
	if !ok {
		return iofEffect{}, false
	}
	arg := func(i int, kind string) string { return g.termOf(sc, n.Args[i], kind) }
	arity := func(k int) {
		if len(n.Args) != k {
			g.refuse(n, "call %s: %d arguments expected", nodeText(n), k)
		}
	}
	if id, ok := n.Fun.(*ast.Ident); ok {
		if _, shadow := sc.lookup(id.Name); !shadow {
			if info, ok := g.known[id.Name]; ok && !info.method {
				arity(len(info.params))
				args := []string{"io"}
				for i, k := range info.params {
					if t := arg(i, k); k != "hash" { // the one digest is implicit in the state
						args = append(args, t)
					}
				}
				return iofEffect{call: "(" + info.lean + " " + strings.Join(append(args, "s"), " ") + ")", res: info.results}, true
			}
		}
		return iofEffect{}, false
	}
	if q, ok := g.pkgSel(sc, n.Fun); ok {
		switch q {
		case "os.UserCacheDir":
			arity(0)
			return iofEffect{call: "(io.userCacheDir s)", res: []string{"str", "err"}}, true
		case "os.MkdirAll":
			arity(2)
			return iofEffect{call: fmt.Sprintf("(io.mkdirAll %s %s s)", arg(0, "str"), arg(1, "int")), res: []string{"err"}}, true
		case "ioutil.TempFile":
			arity(2)
			return iofEffect{call: fmt.Sprintf("(io.tempFile %s %s s)", arg(0, "str"), arg(1, "str")), res: []string{"file", "err"}}, true
		case "os.Open", "os.Create":
			arity(1)
			return iofEffect{call: fmt.Sprintf("(io.os%s %s s)", strings.TrimPrefix(q, "os."), arg(0, "str")), res: []string{"file", "err"}}, true
		case "os.Remove":
			arity(1)
			return iofEffect{call: fmt.Sprintf("(io.osRemove %s s)", arg(0, "name")), res: []string{"err"}}, true
		case "io.Copy":
			arity(2)
			dst, src := g.value(sc, n.Args[0]), g.value(sc, n.Args[1])
			switch dst.kind + "<-" + src.kind {
			case "file<-file":
				return iofEffect{call: fmt.Sprintf("(io.copyFile %s %s s)", dst.term, src.term), res: []string{"int", "err"}}, true
			case "hash<-file":
				return iofEffect{call: fmt.Sprintf("(io.hashCopy %s s)", src.term), res: []string{"int", "err"}}, true
			case "file<-cacheptr":
				return iofEffect{call: fmt.Sprintf("(io.copyOut %s %s s)", dst.term, src.term), res: []string{"int", "err"}}, true
			}
			g.refuse(n, "io.Copy from a %s to a %s", src.kind, dst.kind)
		case "cache.Open":
			arity(4)
			g.termOf(sc, n.Args[1], "hash")
			return iofEffect{call: fmt.Sprintf("(io.cacheOpen %s %s %s s)", arg(0, "str"), arg(2, "bytes"), arg(3, "bytes")), res: []string{"cacheptr", "err"}}, true
		case "cache.CreateLevel":
			arity(5)
			g.termOf(sc, n.Args[1], "hash")
			return iofEffect{call: fmt.Sprintf("(io.cacheCreateLevel %s %s %s %s s)", arg(0, "str"), arg(2, "bytes"), arg(3, "bytes"), arg(4, "int")), res: []string{"cacheptr", "err"}}, true
		}
		return iofEffect{}, false
	}
	sel, ok := n.Fun.(*ast.SelectorExpr)
	if !ok {
		return iofEffect{}, false
	}
	recv := g.value(sc, sel.X)
	switch recv.kind + "." + sel.Sel.Name {
	case "hash.Reset":
		arity(0)
		return iofEffect{call: "(io.hashReset s)", noRes: true}, true
	case "hash.Write":
		arity(1)
		return iofEffect{call: fmt.Sprintf("(io.hashWrite %s s)", arg(0, "bytes")), res: []string{"-", "-"}, noRes: true}, true
	case "file.Seek":
		arity(2)
		if q, ok := g.pkgSel(sc, n.Args[1]); !ok || q != "io.SeekStart" {
			g.refuse(n, "Seek that is not relative to io.SeekStart")
		}
		return iofEffect{call: fmt.Sprintf("(io.fileSeek %s %s s)", recv.term, arg(0, "int")), res: []string{"int", "err"}}, true
	case "file.Write":
		arity(1)
		return iofEffect{call: fmt.Sprintf("(io.fileWrite %s %s s)", recv.term, arg(0, "bytes")), res: []string{"int", "err"}}, true
	case "file.Close":
		arity(0)
		return iofEffect{call: fmt.Sprintf("(io.fileClose %s s)", recv.term), res: []string{"err"}}, true
	case "cacheptr.Write":
		arity(1)
		return iofEffect{call: fmt.Sprintf("(io.cacheWrite %s %s s)", recv.term, arg(0, "bytes")), res: []string{"int", "err"}}, true
	case "cacheptr.Close":
		arity(0)
		return iofEffect{call: fmt.Sprintf("(io.cacheClose %s s)", recv.term), res: []string{"err"}}, true
	}
	if recv.kind == "deleg" {
		if info, ok := g.known["ioDelegate."+sel.Sel.Name]; ok {
			if recv.term != "d" {
				g.refuse(n, "a method of a delegate other than the receiver")
			}
			arity(len(info.params))
			args := []string{"io", "d"}
			for i, k := range info.params {
				if t := arg(i, k); k != "hash" {
					args = append(args, t)
				}
			}
			return iofEffect{call: "(" + info.lean + " " + strings.Join(append(args, "s"), " ") + ")", res: info.results, retD: true}, true
		}
	}
	return iofEffect{}, false
}

// bind the results of an effectful call; lhs nil = all discarded; names[i] receives the Lean name for result i
func (g *iofGen) bindEffect(n ast.Node, ef iofEffect, names []string) string {
	if ef.noRes {
		for _, nm := range names {
			if nm != "_" {
				g.refuse(n, "a result of %s is not modelled and must be discarded", ef.call)
			}
		}
		return "let s := " + ef.call + ";"
	}
	pat := []string{"s"}
	if ef.retD {
		pat = append(pat, "d")
	}
	all := true
	for i := range ef.res {
		nm := "_"
		if names != nil {
			nm = names[i]
		}
		if nm != "_" {
			all = false
		}
		pat = append(pat, nm)
	}
	if all && !ef.retD {
		return "let s := " + ef.call + ".1;"
	}
	return fmt.Sprintf("let (%s) := %s;", strings.Join(pat, ", "), ef.call)
}

// ---- statements --------------------------------------------------------------------------------------

// target of an assignment: an existing variable (by `=`, or by `:=` in the scope that declared it), a new
// variable (`:=`), `_`, or a field of the receiver
func (g *iofGen) simple(sc *iofScope, st ast.Stmt) []string {
	switch n := st.(type) {
	case *ast.ExprStmt:
		ef, ok := g.effect(sc, n.X)
		if !ok {
			g.refuse(st, "statement %s", nodeText(n.X))
		}
		return []string{g.bindEffect(st, ef, nil)}
	case *ast.DeclStmt:
		gd, ok := n.Decl.(*ast.GenDecl)
		if !ok || gd.Tok != token.VAR || len(gd.Specs) != 1 {
			g.refuse(st, "declaration")
		}
		vs := gd.Specs[0].(*ast.ValueSpec)
		if len(vs.Values) != 0 || vs.Type == nil || exprString(vs.Type) != "error" {
			g.refuse(st, "declaration other than `var x error`")
		}
		var out []string
		for _, id := range vs.Names {
			v := g.declare(sc, id.Name, "err")
			out = append(out, fmt.Sprintf("let %s : Option ε := none;", v.lean))
		}
		return out
	case *ast.AssignStmt:
		if n.Tok != token.DEFINE && n.Tok != token.ASSIGN {
			g.refuse(st, "assignment operator %s", n.Tok)
		}
		// the kinds of the right side
		var kinds, terms []string
		var ef iofEffect
		isEf := false
		if len(n.Rhs) == 1 {
			ef, isEf = g.effect(sc, n.Rhs[0])
		}
		if isEf {
			if ef.noRes && len(ef.res) == 0 {
				g.refuse(st, "%s has no result", ef.call)
			}
			kinds = ef.res
		} else {
			for _, r := range n.Rhs {
				v := g.value(sc, r)
				kinds = append(kinds, v.kind)
				terms = append(terms, v.term)
			}
		}
		if len(n.Lhs) != len(kinds) {
			g.refuse(st, "assignment arity: %d values for %d targets", len(kinds), len(n.Lhs))
		}
		names := make([]string, len(n.Lhs))
		var after []string // field stores that follow the binding
		for i, l := range n.Lhs {
			kind := kinds[i]
			switch t := l.(type) {
			case *ast.Ident:
				if t.Name == "_" {
					names[i] = "_"
					continue
				}
				if kind == "-" {
					g.refuse(st, "result %d of %s is not modelled and must be discarded", i, ef.call)
				}
				var v *iofVar
				if n.Tok == token.DEFINE {
					if old, here := sc.vars[t.Name]; here {
						v = old
					} else {
						if kind == "nil" || kind == "prop" || kind == "hash" || kind == "deleg" {
							g.refuse(st, "a new variable for a %s", kind)
						}
						v = g.declare(sc, t.Name, kind)
					}
				} else {
					old, ok := sc.lookup(t.Name)
					if !ok {
						g.refuse(st, "assignment to %s, which is not a variable of the function", t.Name)
					}
					v = old
				}
				if kind == "nil" {
					switch v.kind {
					case "err":
						terms[i] = "none"
					case "cacheptr":
						terms[i] = "io.nilCache"
					default:
						g.refuse(st, "nil assigned to a %s", v.kind)
					}
					kind = v.kind
				}
				if v.kind != kind || v.kind == "deleg" || v.kind == "hash" {
					g.refuse(st, "a %s assigned to %s, a %s", kind, t.Name, v.kind)
				}
				names[i] = v.lean
			case *ast.SelectorExpr:
				base := g.value(sc, t.X)
				if base.kind != "deleg" || base.term != "d" || n.Tok != token.ASSIGN {
					g.refuse(st, "assignment target %s", nodeText(l))
				}
				fk := ""
				for _, f := range iofDelegFields {
					if f[0] == t.Sel.Name {
						fk = f[1]
					}
				}
				if fk == "" {
					g.refuse(st, "ioDelegate has no field %s", t.Sel.Name)
				}
				if isEf {
					g.refuse(st, "a result of a call stored into a field directly")
				}
				if kind == "nil" && fk == "cacheptr" {
					terms[i], kind = "io.nilCache", fk
				}
				if kind != fk {
					g.refuse(st, "a %s stored into the field %s, a %s", kind, t.Sel.Name, fk)
				}
				names[i] = "_"
				after = append(after, fmt.Sprintf("let d := { d with %s := %s };", t.Sel.Name, terms[i]))
			default:
				g.refuse(st, "assignment target %s", nodeText(l))
			}
		}
		if isEf {
			return append([]string{g.bindEffect(st, ef, names)}, after...)
		}
		var out []string
		// a parallel assignment must not read what it writes
		if len(n.Lhs) > 1 {
			for _, t := range terms {
				for _, nm := range names {
					if nm != "_" && iofMentions(t, nm) {
						g.refuse(st, "parallel assignment that reads %s", nm)
					}
				}
			}
		}
		for i, nm := range names {
			if nm == "_" {
				continue
			}
			out = append(out, fmt.Sprintf("let %s : %s := %s;", nm, iofLeanType[kinds[i]], terms[i]))
		}
		return append(out, after...)
	}
	g.refuse(st, "statement %T", st)
	return nil
}

func iofMentions(term, name string) bool {
	for _, f := range strings.FieldsFunc(term, func(r rune) bool {
		return !(r == '_' || r == '.' || r >= '0' && r <= '9' || r >= 'a' && r <= 'z' || r >= 'A' && r <= 'Z')
	}) {
		if f == name || strings.HasPrefix(f, name+".") {
			return true
		}
	}
	return false
}

// the outer variables (and `d`) a block assigns
func (g *iofGen) assignedOuter(sc *iofScope, stmts []ast.Stmt) (vars []*iofVar, deleg bool) {
	seen := map[*iofVar]bool{}
	declared := map[string]int{} // names declared inside (approximation: by `:=` anywhere in the block)
	var walk func(n ast.Node)
	walk = func(n ast.Node) {
		ast.Inspect(n, func(x ast.Node) bool {
			switch m := x.(type) {
			case *ast.FuncLit:
				g.refuse(m, "function literal")
			case *ast.AssignStmt:
				for _, l := range m.Lhs {
					switch t := l.(type) {
					case *ast.Ident:
						if t.Name == "_" {
							continue
						}
						if m.Tok == token.DEFINE {
							declared[t.Name]++
							continue
						}
						if declared[t.Name] > 0 {
							g.refuse(m, "assignment to %s, which a nested block also declares", t.Name)
						}
						if v, ok := sc.lookup(t.Name); ok && !seen[v] {
							seen[v] = true
							vars = append(vars, v)
						}
					case *ast.SelectorExpr:
						deleg = true
					}
				}
			case *ast.CallExpr:
				if sel, ok := m.Fun.(*ast.SelectorExpr); ok && g.recv != "" && identName(sel.X) == g.recv {
					deleg = true // a method of the receiver may change it
				}
			}
			return true
		})
	}
	for _, s := range stmts {
		walk(s)
	}
	return
}

func iofReturnsAll(stmts []ast.Stmt) bool {
	if len(stmts) == 0 {
		return false
	}
	_, ok := stmts[len(stmts)-1].(*ast.ReturnStmt)
	return ok
}

func (g *iofGen) runDefers(defers []iofDefer, ind string) string {
	out := ""
	for i := len(defers) - 1; i >= 0; i-- {
		d := defers[i]
		if d.guard == "" {
			out += fmt.Sprintf("%slet s := %s.1;\n", ind, d.call)
		} else {
			out += fmt.Sprintf("%slet s := if %s = true then %s.1 else s;\n", ind, d.guard, d.call)
		}
	}
	return out
}

func (g *iofGen) ret(sc *iofScope, defers []iofDefer, n ast.Node, results []ast.Expr, ind string) string {
	out := ""
	parts := []string{"s"}
	if g.method {
		parts = append(parts, "d")
	}
	if len(results) == 1 && len(g.results) > 1 {
		// return f(x): the results of one call are the results of the function
		if ef, ok := g.effect(sc, results[0]); ok && !ef.retD && strings.Join(ef.res, ",") == strings.Join(g.results, ",") {
			var names []string
			for i := range ef.res {
				names = append(names, fmt.Sprintf("r%d_", i))
			}
			out += ind + g.bindEffect(results[0], ef, names) + "\n"
			out += g.runDefers(defers, ind)
			return out + ind + "(" + strings.Join(append(parts, names...), ", ") + ")"
		}
	}
	if len(results) != len(g.results) {
		g.refuse(n, "return arity")
	}
	for i, r := range results {
		if ef, ok := g.effect(sc, r); ok {
			// an effectful call in a result position (evaluated left to right; the other results are values)
			if len(ef.res) != 1 || ef.res[0] != g.results[i] || ef.retD {
				g.refuse(r, "a call with results (%s) where one %s is returned", strings.Join(ef.res, ", "), g.results[i])
			}
			nm := fmt.Sprintf("r%d_", i)
			out += ind + g.bindEffect(r, ef, []string{nm}) + "\n"
			parts = append(parts, nm)
			continue
		}
		parts = append(parts, g.termOf(sc, r, g.results[i]))
	}
	out += g.runDefers(defers, ind)
	if len(parts) == 1 {
		return out + ind + "s"
	}
	return out + ind + "(" + strings.Join(parts, ", ") + ")"
}

// block: the Lean term of a statement list; k = what follows when control falls off its end (nil: the end of
// the function)
func (g *iofGen) block(sc *iofScope, defers []iofDefer, stmts []ast.Stmt, k func(sc *iofScope, defers []iofDefer) string, ind string) string {
	if len(stmts) == 0 {
		if k != nil {
			return k(sc, defers)
		}
		if len(g.results) != 0 {
			g.refuse(g.src.file, "control reaches the end of the function")
		}
		return g.ret(sc, defers, g.src.file, nil, ind)
	}
	st, rest := stmts[0], stmts[1:]
	switch n := st.(type) {
	case *ast.ReturnStmt:
		if len(rest) != 0 {
			g.refuse(st, "code after return")
		}
		return g.ret(sc, defers, st, n.Results, ind)
	case *ast.DeferStmt:
		lets, d := g.deferOf(sc, n, "")
		out := ""
		for _, l := range lets {
			out += ind + l + "\n"
		}
		nd := append(append([]iofDefer{}, defers...), d)
		return out + g.block(sc, nd, rest, k, ind)
	case *ast.IfStmt:
		if n.Else != nil {
			g.refuse(st, "if with else")
		}
		// `if c { defer … }`: registered under the guard
		allDefer := len(n.Body.List) > 0
		for _, b := range n.Body.List {
			if _, ok := b.(*ast.DeferStmt); !ok {
				allDefer = false
			}
		}
		if allDefer {
			if n.Init != nil {
				g.refuse(st, "conditional defer with an init statement")
			}
			g.nk++
			guard := fmt.Sprintf("dg_%d", g.nk)
			out := fmt.Sprintf("%slet %s : Bool := decide %s;\n", ind, guard, g.cond(sc, n.Cond))
			gv := &iofVar{kind: "bool", lean: guard}
			sc.vars[" "+guard] = gv
			sc.order = append(sc.order, gv)
			nd := append([]iofDefer{}, defers...)
			for _, b := range n.Body.List {
				lets, d := g.deferOf(sc, b.(*ast.DeferStmt), guard)
				for _, l := range lets {
					out += ind + l + "\n"
				}
				nd = append(nd, d)
			}
			return out + g.block(sc, nd, rest, k, ind)
		}
		inner := newIofScope(sc)
		out := ""
		if n.Init != nil {
			for _, l := range g.simple(inner, n.Init) {
				out += ind + l + "\n"
			}
		}
		c := g.cond(inner, n.Cond)
		body := newIofScope(inner)
		if iofReturnsAll(n.Body.List) {
			thenS := g.block(body, defers, n.Body.List, nil, ind+"  ")
			elseS := g.block(sc, defers, rest, k, ind)
			return fmt.Sprintf("%s%sif %s then\n%s\n%selse\n%s", out, ind, c, thenS, ind, elseS)
		}
		// a join point for what follows, lifted to a definition of its own over everything in scope
		_, deleg := g.assignedOuter(sc, n.Body.List)
		if deleg && !g.method {
			g.refuse(st, "a delegate outside a method")
		}
		g.nk++
		kn := fmt.Sprintf("%s_k%d", g.lean, g.nk)
		params := ""
		args := "io"
		for _, v := range sc.visible() {
			params += fmt.Sprintf(" (%s : %s)", v.lean, iofLeanType[v.kind])
			args += " " + v.lean
		}
		if g.method {
			params += " (d : Gts.CacheProto.Delegate φ κ)"
			args += " d"
		}
		params += " (s : σ)"
		args += " s"
		nDefers := len(defers)
		restS := g.block(sc, defers, rest, k, "  ")
		g.aux = append(g.aux, fmt.Sprintf("/-- cmd/gts/io.go: `%s`, what follows the `if` of line %d (a join point) -/\ndef %s %s%s :\n    %s :=\n%s\n\n",
			g.fn, g.src.fset.Position(n.Pos()).Line, kn, iofHeader, params, g.resultType(), restS))
		thenS := g.block(body, defers, n.Body.List, func(_ *iofScope, ds []iofDefer) string {
			if len(ds) != nDefers {
				g.refuse(st, "defer inside a block that falls through")
			}
			return ind + "  " + kn + " " + args
		}, ind+"  ")
		return fmt.Sprintf("%s%sif %s then\n%s\n%selse\n%s  %s %s", out, ind, c, thenS, ind, ind, kn, args)
	case *ast.ForStmt, *ast.RangeStmt, *ast.SwitchStmt, *ast.TypeSwitchStmt, *ast.GoStmt, *ast.BlockStmt, *ast.LabeledStmt, *ast.BranchStmt:
		g.refuse(st, "statement %T", st)
	}
	out := ""
	for _, l := range g.simple(sc, st) {
		out += ind + l + "\n"
	}
	return out + g.block(sc, defers, rest, k, ind)
}

// deferOf: `defer f(x)` — receiver and arguments are evaluated here, the call is registered
func (g *iofGen) deferOf(sc *iofScope, n *ast.DeferStmt, guard string) ([]string, iofDefer) {
	// evaluate the receiver / the arguments into variables of their own
	var lets []string
	capture := func(x ast.Expr) ast.Expr {
		v := g.value(sc, x)
		if _, ok := iofLeanType[v.kind]; !ok {
			g.refuse(x, "defer: a %s as receiver or argument", v.kind)
		}
		g.nk++
		nm := fmt.Sprintf("df_%d", g.nk)
		lets = append(lets, fmt.Sprintf("let %s : %s := %s;", nm, iofLeanType[v.kind], v.term))
		tmp := &iofVar{kind: v.kind, lean: nm}
		sc.vars[" "+nm] = tmp // a name no Go identifier has
		sc.order = append(sc.order, tmp)
		return &ast.Ident{Name: " " + nm}
	}
	call := &ast.CallExpr{Fun: n.Call.Fun, Lparen: n.Call.Lparen, Rparen: n.Call.Rparen}
	if sel, ok := n.Call.Fun.(*ast.SelectorExpr); ok {
		if _, isPkg := g.pkgSel(sc, sel); !isPkg {
			call.Fun = &ast.SelectorExpr{X: capture(sel.X), Sel: sel.Sel}
		}
	}
	for _, a := range n.Call.Args {
		call.Args = append(call.Args, capture(a))
	}
	ef, ok := g.effect(sc, call)
	if !ok || ef.retD {
		g.refuse(n, "defer %s", nodeText(n.Call))
	}
	return lets, iofDefer{guard: guard, call: ef.call}
}

// ---- the generator -----------------------------------------------------------------------------------

const iofHeader = "{σ ε φ κ ν : Type} [DecidableEq φ] [DecidableEq κ] (io : Gts.CacheProto.DelegateIO σ ε φ κ ν)"

func (g *iofGen) resultType() string {
	rts := []string{"σ"}
	if g.method {
		rts = append(rts, "Gts.CacheProto.Delegate φ κ")
	}
	for _, k := range g.results {
		rts = append(rts, iofLeanType[k])
	}
	return strings.Join(rts, " × ")
}

var iofFns = []struct{ recv, name, lean string }{
	{"", "gtsCacheDir", "gtsCacheDir"},
	{"*ioDelegate", "Commit", "commit"},
	{"", "newIODelegate", "newIODelegate"},
	{"*ioDelegate", "Write", "write"},
	{"*ioDelegate", "Close", "close"},
	{"*ioDelegate", "TryCache", "tryCache"},
}

func iofParamKind(g *iofGen, t ast.Expr) string {
	switch exprString(t) {
	case "string":
		return "str"
	case "[]byte":
		return "bytes"
	case "int":
		return "int"
	case "hash.Hash":
		return "hash"
	}
	g.refuse(t, "parameter type %s", nodeText(t))
	return ""
}

func iofResultKind(g *iofGen, t ast.Expr) string {
	switch exprString(t) {
	case "string":
		return "str"
	case "error":
		return "err"
	case "int":
		return "int"
	case "bool":
		return "bool"
	case "*ioDelegate":
		return "delegptr"
	}
	g.refuse(t, "result type %s", nodeText(t))
	return ""
}

func genIoDelegateFn(repo string) (text string, err error) {
	defer recoverRefusal(&err)
	src, perr := parseSource(filepath.Join(repo, "cmd", "gts", "io.go"))
	if perr != nil {
		return "", perr
	}
	// the struct layout the translation relies on
	var want []string
	for _, f := range iofDelegFields {
		t := map[string]string{"file": "*os.File", "cacheptr": "*cache.File", "bool": "bool"}[f[1]]
		want = append(want, f[0]+" "+t)
	}
	checkStruct(src.file, "ioDelegate", want)
	// the imports behind the package names the translation reads
	wantImports := map[string]string{"os": "os", "io": "io", "ioutil": "io/ioutil", "filepath": "path/filepath", "hash": "hash",
		"flate": "compress/flate", "cache": "github.com/go-gts/gts/cmd/cache"}
	got := map[string]string{}
	for _, im := range src.file.Imports {
		p, _ := strconv.Unquote(im.Path.Value)
		name := p[strings.LastIndex(p, "/")+1:]
		if im.Name != nil {
			name = im.Name.Name
		}
		got[name] = p
	}
	for n, p := range wantImports {
		if got[n] != p {
			refuse("io.go: the package name %s stands for %q, expected %q", n, got[n], p)
		}
	}

	b := strings.Builder{}
	b.WriteString("/-\n  GENERATED by go2lean (iodelegatefn.go) from cmd/gts/io.go - DO NOT EDIT.  Regenerated by bin/setup and by every\n  bin/check run.\n")
	b.WriteString("  `gtsCacheDir`, `Commit`, `newIODelegate`, `Write`, `Close`, `TryCache` as Lean functions over an arbitrary record\n  of I/O primitives `io : Gts.CacheProto.DelegateIO σ ε φ κ ν`, the state `s : σ` threaded through every effectful\n  call in statement order; a method takes the delegate `d` and gives it back; `f_kn` are the join points of `f` (what\n  follows an `if` that can fall through, over everything in scope), `df_n` / `dg_n` the captured operands / guards of `defer` statements.\n-/\n")
	b.WriteString("import Gts.Model.CacheProtoIO\nnamespace Gts.Gen.IoDelegateFn\nset_option linter.unusedVariables false\n\n")
	known := map[string]*iofFn{}
	for _, spec := range iofFns {
		var decl *ast.FuncDecl
		for _, d := range src.file.Decls {
			fd, ok := d.(*ast.FuncDecl)
			if !ok || fd.Name.Name != spec.name || fd.Body == nil {
				continue
			}
			recv := ""
			if fd.Recv != nil && len(fd.Recv.List) == 1 {
				recv = exprString(fd.Recv.List[0].Type)
			}
			if recv == spec.recv {
				if decl != nil {
					refuse("io.go: %s declared twice", spec.name)
				}
				decl = fd
			}
		}
		if decl == nil {
			refuse("io.go: function %s %s not found", spec.recv, spec.name)
		}
		g := &iofGen{src: src, fn: strings.TrimPrefix(spec.recv+"."+spec.name, "."), used: map[string]int{}, known: known, method: spec.recv != "", lean: spec.lean}
		sc := newIofScope(nil)
		info := &iofFn{lean: spec.lean, method: g.method}
		var params []string
		if g.method {
			ns := decl.Recv.List[0].Names
			if len(ns) != 1 || ns[0].Name == "_" {
				g.refuse(decl, "receiver without a name")
			}
			g.recv = ns[0].Name
			sc.vars[g.recv] = &iofVar{kind: "deleg", lean: "d"}
			params = append(params, "(d : Gts.CacheProto.Delegate φ κ)")
		}
		for _, p := range decl.Type.Params.List {
			k := iofParamKind(g, p.Type)
			if len(p.Names) == 0 {
				g.refuse(p, "parameter without a name")
			}
			for _, nm := range p.Names {
				info.params = append(info.params, k)
				if k == "hash" {
					sc.vars[nm.Name] = &iofVar{kind: "hash"}
					continue
				}
				v := g.declare(sc, nm.Name, k)
				params = append(params, fmt.Sprintf("(%s : %s)", v.lean, iofLeanType[k]))
			}
		}
		if decl.Type.Results != nil {
			for _, r := range decl.Type.Results.List {
				if len(r.Names) != 0 {
					g.refuse(r, "named results")
				}
				g.results = append(g.results, iofResultKind(g, r.Type))
			}
		}
		info.results = g.results
		body := g.block(sc, nil, decl.Body.List, nil, "  ")
		for _, a := range g.aux {
			b.WriteString(a)
		}
		fmt.Fprintf(&b, "/-- cmd/gts/io.go: `%s` -/\ndef %s %s %s(s : σ) :\n    %s :=\n%s\n\n",
			g.fn, spec.lean, iofHeader, strings.Join(append(params, ""), " "), g.resultType(), body)
		key := spec.name
		if g.method {
			key = "ioDelegate." + spec.name
		}
		known[key] = info
	}
	b.WriteString("end Gts.Gen.IoDelegateFn\n")
	return b.String(), nil
}
