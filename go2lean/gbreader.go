package main

// gbreader.go — the STRUCTURE of the seqio reader as regenerated facts (Gts/Gen/GbReaderFacts.lean,
// obligations of C07 and C01; expectation Gts/Spec/GbReaderTable.lean, bridge Gts/Bridge/GbReader.lean).
//
// The GenBank reader is built from go-pars combinators and hand-modelled (Gts/Model/GenBankParse.lean,
// InsdcParse.lean over Pars.lean).  What decides its behaviour besides the combinators themselves is
// the ORDER in which parsers are tried, the literals they are built from, and which of them pushes,
// pops, drops or clears a saved position on which path.  This generator writes all of that down:
//
//   - every reader function (the list `gbReaderFns`; a function of these files whose signature
//     mentions a pars type and that is not listed is REFUSED) in a NORMAL FORM, one line per
//     statement `(indent, kind, text)`:
//     locals are renamed in order of declaration (`v0, v1, …`), parameters by their type
//     (`state`, `result`, `gb`, `n0` …), so renaming locals changes nothing;
//     in a parser CONSTRUCTOR (result type pars.Parser / genbankSubparser) the variables of the
//     set-up part — `fieldNameParser := genbankFieldNameParser("DBLINK", depth)` — are INLINED
//     into the closure that uses them, so that a line of the closure reads
//     `if err := genbankFieldNameParser("DBLINK", n0)(state, pars.Void); err != nil`;
//     function literals become entries of their own (`genbankSourceParser/func1`);
//     kinds: func if else for range switch case default return state result parse assign call
//     var branch.
//   - derived tables: `dispatch` (the generators of GenBankParser in order of attempt, each with the
//     constructor and the literal of its field name), `stateOps` (every Push / Pop / Drop / Clear /
//     Advance with the innermost condition it stands under), the LOCUS `Seq` member by member, the
//     `Children(…)` selection and which child feeds which field, the `iota` block of QualifierType.
//
// Everything is AST only.  A statement or expression form the printer does not know is refused.

import (
	"fmt"
	"go/ast"
	"go/token"
	"path/filepath"
	"strconv"
	"strings"
)

type gbLine struct {
	ind        int
	kind, text string
}

type gbFn struct {
	name  string
	lines []gbLine
}

// the reader functions, per file, in the order of the generated module
var gbReaderFns = []struct {
	file  string
	names []string
}{
	{"seqio/genbank.go", []string{"genbankLocusParser", "tryAllParsers", "GenBankParser"}},
	{"seqio/genbank_subparsers.go", []string{
		"genbankFieldNameParser", "genbankFieldLineParser", "genbankFieldBodyParser", "genbankGenericFieldParser",
		"genbankExtraFieldParser", "genbankSubfieldNameParser", "genbankGenericSubfieldParser",
		"genbankDefinitionParser", "genbankAccessionParser", "genbankVersionParser", "genbankDBLinkPairParser",
		"genbankDBLinkParser", "genbankKeywordsParser", "genbankSourceParser", "genbankReferenceSubfieldParser",
		"genbankReferenceParser", "genbankCommentParser", "genbankFeatureParser", "genbankContigParser",
		"makeGenbankOriginParser"}},
	{"seqio/insdc.go", []string{
		"init", "RegisterQuotedQualifier", "RegisterLiteralQualifier", "RegisterToggleQualifier", "searchString",
		"IsQuotedQualifier", "IsLiteralQualifier", "IsToggleQualifier",
		"GetQualifierType", "qualifierNameParser", "quotedQualifierParser", "literalQualifierValueParser",
		"literalQualifierParser", "QualifierParser", "featureKeylineParser", "INSDCTableParser"}},
	{"seqio/reference.go", []string{"parseReferenceInfo"}},
	{"seqio/utils.go", []string{"dig"}},
}

// functions with a pars signature that other generators regenerate literally (gorigin*.go)
var gbReaderElsewhere = map[string]bool{"validateOrigin": true, "slowGenBankOriginParser": true}

// ---- scopes -----------------------------------------------------------------------------------------

type gbScope struct {
	parent *gbScope
	names  map[string]string // Go name -> canonical name, or the inlined text of a set-up variable
}

func (s *gbScope) lookup(n string) (string, bool) {
	for ; s != nil; s = s.parent {
		if v, ok := s.names[n]; ok {
			return v, true
		}
	}
	return "", false
}

func (s *gbScope) visible(canon string) bool {
	for ; s != nil; s = s.parent {
		for _, v := range s.names {
			if v == canon {
				return true
			}
		}
	}
	return false
}

type gbPrinter struct {
	src    *source
	top    string
	nvar   int
	nfunc  int
	ncount map[string]int
	fns    map[int]*gbFn // closures by number
	// stmtExt: statement forms of another generator that shares the normal form (iodelegate.go: `defer`);
	// nil for the reader
	stmtExt func(p *gbPrinter, sc *gbScope, s ast.Stmt, ind int, out *[]gbLine) bool
	// stems: parameter names by type of another generator (gpars.go: inside package pars the types are
	// unqualified); consulted before gbParamStem; nil for the reader
	stems map[string]string
	// exprExt: expression forms of another generator that shares the normal form (cmdfacts.go: the untyped
	// composite literal inside `[]tuple{…}`); asked before an expression is refused; nil for the reader
	exprExt func(p *gbPrinter, sc *gbScope, x ast.Expr) (string, bool)
}

func (p *gbPrinter) refuse(n ast.Node, format string, a ...interface{}) {
	panic(refusal{p.src.errAt(n, "%s: %s", p.top, fmt.Sprintf(format, a...)).Error()})
}

func (p *gbPrinter) open(s *gbScope) *gbScope { return &gbScope{parent: s, names: map[string]string{}} }

// canonical parameter names by type
var gbParamStem = map[string]string{
	"*pars.State": "state", "*pars.Result": "result", "*GenBank": "gb", "*Reference": "ref", "int": "n", "string": "s",
	"byte": "b", "interface{}": "q", "[]pars.Parser": "pp", "[]byte": "p", "pars.Position": "pos", "error": "err",
	"[]string": "ss", "...string": "ss",
}

func (p *gbPrinter) paramName(sc *gbScope, typ string) string {
	stem, ok := gbParamStem[typ]
	if s, own := p.stems[typ]; own {
		stem, ok = s, true
	}
	if !ok {
		stem = "a"
	}
	switch stem {
	case "state", "result", "gb", "ref":
		if !sc.visible(stem) {
			return stem
		}
	}
	k := p.ncount[stem]
	p.ncount[stem] = k + 1
	name := stem + strconv.Itoa(k)
	return name
}

func (p *gbPrinter) declare(sc *gbScope, id *ast.Ident) string {
	if id.Name == "_" {
		return "_"
	}
	c := "v" + strconv.Itoa(p.nvar)
	p.nvar++
	sc.names[id.Name] = c
	return c
}

// ---- types ------------------------------------------------------------------------------------------

func (p *gbPrinter) typ(x ast.Expr) string {
	switch t := x.(type) {
	case *ast.Ident:
		return t.Name
	case *ast.SelectorExpr:
		return p.typ(t.X) + "." + t.Sel.Name
	case *ast.StarExpr:
		return "*" + p.typ(t.X)
	case *ast.ArrayType:
		if t.Len == nil {
			return "[]" + p.typ(t.Elt)
		}
		if l, ok := t.Len.(*ast.BasicLit); ok {
			return "[" + l.Value + "]" + p.typ(t.Elt)
		}
	case *ast.MapType:
		return "map[" + p.typ(t.Key) + "]" + p.typ(t.Value)
	case *ast.InterfaceType:
		if t.Methods == nil || len(t.Methods.List) == 0 {
			return "interface{}"
		}
		if len(t.Methods.List) == 1 && len(t.Methods.List[0].Names) == 1 {
			if ft, ok := t.Methods.List[0].Type.(*ast.FuncType); ok {
				return "interface{ " + t.Methods.List[0].Names[0].Name + p.sigText(ft) + " }"
			}
		}
	case *ast.FuncType:
		return "func" + p.sigText(t)
	case *ast.Ellipsis:
		return "..." + p.typ(t.Elt)
	}
	p.refuse(x, "type expression %T", x)
	return ""
}

// sigText: a signature without names
func (p *gbPrinter) sigText(ft *ast.FuncType) string {
	var ps, rs []string
	if ft.Params != nil {
		for _, f := range ft.Params.List {
			n := len(f.Names)
			if n == 0 {
				n = 1
			}
			for i := 0; i < n; i++ {
				ps = append(ps, p.typ(f.Type))
			}
		}
	}
	if ft.Results != nil {
		for _, f := range ft.Results.List {
			n := len(f.Names)
			if n == 0 {
				n = 1
			}
			for i := 0; i < n; i++ {
				rs = append(rs, p.typ(f.Type))
			}
		}
	}
	out := "(" + strings.Join(ps, ", ") + ")"
	switch len(rs) {
	case 0:
	case 1:
		out += " " + rs[0]
	default:
		out += " (" + strings.Join(rs, ", ") + ")"
	}
	return out
}

// bindSig declares the parameters (and named results) of a function in sc and returns the
// signature text with the canonical names
func (p *gbPrinter) bindSig(sc *gbScope, ft *ast.FuncType) string {
	var ps, rs []string
	if ft.Params != nil {
		for _, f := range ft.Params.List {
			t := p.typ(f.Type)
			if len(f.Names) == 0 {
				ps = append(ps, t)
			}
			for _, n := range f.Names {
				if n.Name == "_" {
					ps = append(ps, "_ "+t)
					continue
				}
				c := p.paramName(sc, t)
				sc.names[n.Name] = c
				ps = append(ps, c+" "+t)
			}
		}
	}
	named := false
	if ft.Results != nil {
		for _, f := range ft.Results.List {
			t := p.typ(f.Type)
			if len(f.Names) == 0 {
				rs = append(rs, t)
			}
			for _, n := range f.Names {
				named = true
				c := p.paramName(sc, t)
				sc.names[n.Name] = c
				rs = append(rs, c+" "+t)
			}
		}
	}
	out := "(" + strings.Join(ps, ", ") + ")"
	switch {
	case len(rs) == 0:
	case len(rs) == 1 && !named:
		out += " " + rs[0]
	default:
		out += " (" + strings.Join(rs, ", ") + ")"
	}
	return out
}

// ---- expressions ------------------------------------------------------------------------------------

func gbAtomic(x ast.Expr) bool {
	switch x.(type) {
	case *ast.BinaryExpr, *ast.UnaryExpr, *ast.StarExpr, *ast.TypeAssertExpr:
		return false
	}
	return true
}

func (p *gbPrinter) expr(sc *gbScope, x ast.Expr) string {
	switch n := x.(type) {
	case *ast.Ident:
		if v, ok := sc.lookup(n.Name); ok {
			return v
		}
		return n.Name
	case *ast.BasicLit:
		return n.Value
	case *ast.ParenExpr:
		return "(" + p.expr(sc, n.X) + ")"
	case *ast.SelectorExpr:
		return p.expr(sc, n.X) + "." + n.Sel.Name
	case *ast.IndexExpr:
		return p.expr(sc, n.X) + "[" + p.expr(sc, n.Index) + "]"
	case *ast.SliceExpr:
		if n.Slice3 {
			p.refuse(x, "three-index slice")
		}
		lo, hi := "", ""
		if n.Low != nil {
			lo = p.expr(sc, n.Low)
		}
		if n.High != nil {
			hi = p.expr(sc, n.High)
		}
		return p.expr(sc, n.X) + "[" + lo + ":" + hi + "]"
	case *ast.StarExpr:
		return "*" + p.expr(sc, n.X)
	case *ast.UnaryExpr:
		return n.Op.String() + p.expr(sc, n.X)
	case *ast.BinaryExpr:
		return p.expr(sc, n.X) + " " + n.Op.String() + " " + p.expr(sc, n.Y)
	case *ast.TypeAssertExpr:
		if n.Type == nil {
			p.refuse(x, "type switch guard")
		}
		return p.expr(sc, n.X) + ".(" + p.typ(n.Type) + ")"
	case *ast.CallExpr:
		var fun string
		switch f := n.Fun.(type) {
		case *ast.ArrayType, *ast.MapType, *ast.InterfaceType, *ast.FuncType:
			fun = p.typ(f) // a conversion
		case *ast.ParenExpr:
			fun = "(" + p.expr(sc, f.X) + ")"
		default:
			fun = p.expr(sc, n.Fun)
		}
		args := make([]string, len(n.Args))
		for i, a := range n.Args {
			switch at := a.(type) {
			case *ast.ArrayType, *ast.MapType:
				args[i] = p.typ(at) // make([]T, n), make(map[K]V)
			default:
				args[i] = p.expr(sc, a)
			}
		}
		if n.Ellipsis.IsValid() {
			args[len(args)-1] += "..."
		}
		return fun + "(" + strings.Join(args, ", ") + ")"
	case *ast.CompositeLit:
		if n.Type == nil {
			if p.exprExt != nil {
				if t, ok := p.exprExt(p, sc, x); ok {
					return t
				}
			}
			p.refuse(x, "composite literal without a type")
		}
		_, isMap := n.Type.(*ast.MapType)
		elts := make([]string, len(n.Elts))
		for i, e := range n.Elts {
			if kv, ok := e.(*ast.KeyValueExpr); ok {
				key := ""
				if id, isID := kv.Key.(*ast.Ident); isID && !isMap {
					key = id.Name // a field name
				} else {
					key = p.expr(sc, kv.Key)
				}
				elts[i] = key + ": " + p.expr(sc, kv.Value)
			} else {
				elts[i] = p.expr(sc, e)
			}
		}
		return p.typ(n.Type) + "{" + strings.Join(elts, ", ") + "}"
	case *ast.FuncLit:
		return p.funcLit(sc, n)
	}
	p.refuse(x, "expression %T", x)
	return ""
}

// funcLit prints a function literal as an entry of its own and returns its name
func (p *gbPrinter) funcLit(sc *gbScope, n *ast.FuncLit) string {
	k := p.nfunc
	p.nfunc++
	name := "func" + strconv.Itoa(k)
	fn := &gbFn{name: p.top + "/" + name}
	p.fns[k] = fn
	in := p.open(sc)
	sig := p.bindSig(in, n.Type)
	fn.lines = append(fn.lines, gbLine{0, "func", sig})
	p.body(in, n.Type, n.Body.List, 1, &fn.lines)
	return name
}

// ---- statements -------------------------------------------------------------------------------------

func gbIsCtorType(ft *ast.FuncType, p *gbPrinter) bool {
	if ft.Results == nil || len(ft.Results.List) != 1 || len(ft.Results.List[0].Names) > 1 {
		return false
	}
	switch p.typ(ft.Results.List[0].Type) {
	case "pars.Parser", "genbankSubparser":
		return true
	}
	return false
}

// inlinable: the variables of a constructor's set-up part that are assigned at the top level of the
// body only, by plain `x := e` / `x = e` (also in parallel), never stored into from a nested
// statement or a function literal, never have their address taken, and are not re-assigned after a
// function literal that mentions them was created (closures capture variables, not values)
func (p *gbPrinter) inlinable(list []ast.Stmt) map[string]bool {
	cand := map[string]bool{}
	bad := map[string]bool{}
	for _, s := range list {
		as, ok := s.(*ast.AssignStmt)
		if !ok || (as.Tok != token.DEFINE && as.Tok != token.ASSIGN) || len(as.Lhs) != len(as.Rhs) {
			continue
		}
		all := true
		for _, l := range as.Lhs {
			if id, ok := l.(*ast.Ident); !ok || id.Name == "_" {
				all = false
			}
		}
		if !all {
			continue
		}
		for _, l := range as.Lhs {
			cand[l.(*ast.Ident).Name] = true
		}
	}
	markNested := func(n ast.Node) {
		ast.Inspect(n, func(x ast.Node) bool {
			switch m := x.(type) {
			case *ast.AssignStmt:
				if m.Tok != token.DEFINE {
					for _, l := range m.Lhs {
						if id := gbBaseIdent(l); id != "" {
							bad[id] = true
						}
					}
				}
			case *ast.IncDecStmt:
				if id := gbBaseIdent(m.X); id != "" {
					bad[id] = true
				}
			case *ast.UnaryExpr:
				if m.Op == token.AND {
					if id := gbBaseIdent(m.X); id != "" {
						bad[id] = true
					}
				}
			case *ast.RangeStmt:
				if m.Tok == token.ASSIGN {
					for _, l := range []ast.Expr{m.Key, m.Value} {
						if l != nil {
							if id := gbBaseIdent(l); id != "" {
								bad[id] = true
							}
						}
					}
				}
			}
			return true
		})
	}
	mentioned := map[string]bool{} // names mentioned by function literals seen so far
	for _, s := range list {
		as, isAssign := s.(*ast.AssignStmt)
		top := false
		if isAssign && (as.Tok == token.DEFINE || as.Tok == token.ASSIGN) && len(as.Lhs) == len(as.Rhs) {
			top = true
			for _, l := range as.Lhs {
				if _, ok := l.(*ast.Ident); !ok {
					top = false
				}
			}
		}
		if top {
			for _, l := range as.Lhs {
				if n := l.(*ast.Ident).Name; mentioned[n] {
					bad[n] = true
				}
			}
			for _, r := range as.Rhs {
				markNested(r)
			}
		} else {
			markNested(s)
		}
		ast.Inspect(s, func(x ast.Node) bool {
			if fl, ok := x.(*ast.FuncLit); ok {
				ast.Inspect(fl, func(y ast.Node) bool {
					if id, ok := y.(*ast.Ident); ok {
						mentioned[id.Name] = true
					}
					return true
				})
			}
			return true
		})
	}
	out := map[string]bool{}
	for n := range cand {
		if !bad[n] {
			out[n] = true
		}
	}
	return out
}

func gbBaseIdent(x ast.Expr) string {
	for {
		switch n := x.(type) {
		case *ast.Ident:
			return n.Name
		case *ast.SelectorExpr:
			x = n.X
		case *ast.IndexExpr:
			x = n.X
		case *ast.SliceExpr:
			x = n.X
		case *ast.ParenExpr:
			x = n.X
		case *ast.StarExpr:
			x = n.X
		default:
			return ""
		}
	}
}

// body prints the statements of a function body; in a constructor the set-up variables are inlined
func (p *gbPrinter) body(sc *gbScope, ft *ast.FuncType, list []ast.Stmt, ind int, out *[]gbLine) {
	var inl map[string]bool
	if gbIsCtorType(ft, p) {
		inl = p.inlinable(list)
	}
	for _, s := range list {
		if as, ok := s.(*ast.AssignStmt); ok && inl != nil && len(as.Lhs) == len(as.Rhs) &&
			(as.Tok == token.DEFINE || as.Tok == token.ASSIGN) {
			all := true
			for _, l := range as.Lhs {
				if id, ok := l.(*ast.Ident); !ok || !inl[id.Name] {
					all = false
				}
			}
			if all {
				texts := make([]string, len(as.Rhs))
				for i, r := range as.Rhs {
					t := p.expr(sc, r)
					if !gbAtomic(r) {
						t = "(" + t + ")"
					}
					texts[i] = t
				}
				for i, l := range as.Lhs {
					name := l.(*ast.Ident).Name
					if as.Tok == token.ASSIGN {
						if _, ok := sc.lookup(name); !ok {
							p.refuse(s, "assignment to %s, which is not a variable of the function", name)
						}
					}
					sc.names[name] = texts[i]
				}
				continue
			}
		}
		p.stmt(sc, s, ind, out)
	}
}

func (p *gbPrinter) block(sc *gbScope, list []ast.Stmt, ind int, out *[]gbLine) {
	in := p.open(sc)
	for _, s := range list {
		p.stmt(in, s, ind, out)
	}
}

// simple: the text of a simple statement (assignment, inc/dec, expression, define); declares
func (p *gbPrinter) simple(sc *gbScope, s ast.Stmt) (kind, text string) {
	switch n := s.(type) {
	case *ast.AssignStmt:
		rhs := make([]string, len(n.Rhs))
		for i, r := range n.Rhs {
			rhs[i] = p.expr(sc, r) // before the left side is declared
		}
		lhs := make([]string, len(n.Lhs))
		for i, l := range n.Lhs {
			if id, ok := l.(*ast.Ident); ok && n.Tok == token.DEFINE {
				if _, here := sc.names[id.Name]; here || id.Name == "_" {
					lhs[i] = p.expr(sc, l) // re-used variable of the same scope
				} else {
					lhs[i] = p.declare(sc, id)
				}
				continue
			}
			lhs[i] = p.expr(sc, l)
		}
		return "assign", strings.Join(lhs, ", ") + " " + n.Tok.String() + " " + strings.Join(rhs, ", ")
	case *ast.IncDecStmt:
		return "assign", p.expr(sc, n.X) + n.Tok.String()
	case *ast.ExprStmt:
		text := p.expr(sc, n.X)
		kind := "call"
		if call, ok := n.X.(*ast.CallExpr); ok {
			if sel, ok := call.Fun.(*ast.SelectorExpr); ok {
				switch p.expr(sc, sel.X) {
				case "state":
					kind = "state"
				case "result":
					kind = "result"
				}
			}
			if kind == "call" && len(call.Args) >= 1 && p.expr(sc, call.Args[0]) == "state" {
				kind = "parse"
			}
		}
		return kind, text
	}
	p.refuse(s, "statement %T where a simple statement is expected", s)
	return "", ""
}

func (p *gbPrinter) stmt(sc *gbScope, s ast.Stmt, ind int, out *[]gbLine) {
	add := func(kind, text string) { *out = append(*out, gbLine{ind, kind, text}) }
	switch n := s.(type) {
	case *ast.AssignStmt, *ast.IncDecStmt, *ast.ExprStmt:
		k, t := p.simple(sc, s)
		add(k, t)
	case *ast.DeclStmt:
		gd, ok := n.Decl.(*ast.GenDecl)
		if !ok || gd.Tok != token.VAR || len(gd.Specs) != 1 {
			p.refuse(s, "declaration")
		}
		vs := gd.Specs[0].(*ast.ValueSpec)
		vals := make([]string, len(vs.Values))
		for i, v := range vs.Values {
			vals[i] = p.expr(sc, v)
		}
		names := make([]string, len(vs.Names))
		for i, id := range vs.Names {
			names[i] = p.declare(sc, id)
		}
		text := strings.Join(names, ", ")
		if vs.Type != nil {
			text += " " + p.typ(vs.Type)
		}
		if len(vals) > 0 {
			text += " = " + strings.Join(vals, ", ")
		}
		add("var", text)
	case *ast.ReturnStmt:
		rs := make([]string, len(n.Results))
		for i, r := range n.Results {
			rs[i] = p.expr(sc, r)
		}
		add("return", strings.Join(rs, ", "))
	case *ast.BranchStmt:
		if n.Label != nil || (n.Tok != token.BREAK && n.Tok != token.CONTINUE) {
			p.refuse(s, "branch statement %s", n.Tok)
		}
		add("branch", n.Tok.String())
	case *ast.IfStmt:
		p.ifStmt(sc, n, ind, out)
	case *ast.ForStmt:
		in := p.open(sc)
		var parts [3]string
		if n.Init != nil {
			_, parts[0] = p.simple(in, n.Init)
		}
		if n.Cond != nil {
			parts[1] = p.expr(in, n.Cond)
		}
		if n.Post != nil {
			_, parts[2] = p.simple(in, n.Post)
		}
		text := parts[1]
		if n.Init != nil || n.Post != nil {
			text = parts[0] + "; " + parts[1] + "; " + parts[2]
		}
		add("for", text)
		p.block(in, n.Body.List, ind+1, out)
	case *ast.RangeStmt:
		in := p.open(sc)
		x := p.expr(sc, n.X)
		var lhs []string
		for _, l := range []ast.Expr{n.Key, n.Value} {
			if l == nil {
				continue
			}
			if id, ok := l.(*ast.Ident); ok && n.Tok == token.DEFINE {
				lhs = append(lhs, p.declare(in, id))
			} else {
				lhs = append(lhs, p.expr(sc, l))
			}
		}
		text := "range " + x
		if len(lhs) > 0 {
			text = strings.Join(lhs, ", ") + " " + n.Tok.String() + " range " + x
		}
		add("range", text)
		p.block(in, n.Body.List, ind+1, out)
	case *ast.SwitchStmt:
		in := p.open(sc)
		text := ""
		if n.Init != nil {
			_, t := p.simple(in, n.Init)
			text = t + "; "
		}
		if n.Tag != nil {
			text += p.expr(in, n.Tag)
		}
		add("switch", strings.TrimSpace(text))
		for _, c := range n.Body.List {
			cc := c.(*ast.CaseClause)
			if cc.List == nil {
				*out = append(*out, gbLine{ind + 1, "default", ""})
			} else {
				es := make([]string, len(cc.List))
				for i, e := range cc.List {
					es[i] = p.expr(in, e)
				}
				*out = append(*out, gbLine{ind + 1, "case", strings.Join(es, ", ")})
			}
			p.block(in, cc.Body, ind+2, out)
		}
	default:
		if p.stmtExt != nil && p.stmtExt(p, sc, s, ind, out) {
			return
		}
		p.refuse(s, "statement %T", s)
	}
}

func (p *gbPrinter) ifStmt(sc *gbScope, n *ast.IfStmt, ind int, out *[]gbLine) {
	in := p.open(sc)
	text := ""
	if n.Init != nil {
		_, t := p.simple(in, n.Init)
		text = t + "; "
	}
	text += p.expr(in, n.Cond)
	*out = append(*out, gbLine{ind, "if", text})
	p.block(in, n.Body.List, ind+1, out)
	switch e := n.Else.(type) {
	case nil:
	case *ast.BlockStmt:
		*out = append(*out, gbLine{ind, "else", ""})
		p.block(in, e.List, ind+1, out)
	case *ast.IfStmt:
		*out = append(*out, gbLine{ind, "else", ""})
		p.ifStmt(in, e, ind+1, out)
	default:
		p.refuse(n, "else branch %T", e)
	}
}

// ---- one top-level function or variable -------------------------------------------------------------

func gbPrintTop(src *source, name string) []gbFn {
	p := &gbPrinter{src: src, top: name, ncount: map[string]int{}, fns: map[int]*gbFn{}}
	main := gbFn{name: name}
	found := false
	for _, d := range src.file.Decls {
		switch dd := d.(type) {
		case *ast.FuncDecl:
			if dd.Recv != nil || dd.Name.Name != name || dd.Body == nil {
				continue
			}
			if found {
				refuse("%s: %s declared twice", src.name, name)
			}
			found = true
			sc := p.open(nil)
			sig := p.bindSig(sc, dd.Type)
			main.lines = append(main.lines, gbLine{0, "func", sig})
			p.body(sc, dd.Type, dd.Body.List, 1, &main.lines)
		case *ast.GenDecl:
			if dd.Tok != token.VAR {
				continue
			}
			for _, sp := range dd.Specs {
				vs := sp.(*ast.ValueSpec)
				for i, id := range vs.Names {
					if id.Name != name {
						continue
					}
					if found || len(vs.Values) != len(vs.Names) || vs.Type != nil {
						refuse("%s: variable %s: declaration form", src.name, name)
					}
					found = true
					main.lines = append(main.lines, gbLine{0, "var", p.expr(p.open(nil), vs.Values[i])})
				}
			}
		}
	}
	if !found {
		refuse("%s: %s not found", src.name, name)
	}
	out := []gbFn{main}
	for k := 0; k < p.nfunc; k++ {
		out = append(out, *p.fns[k])
	}
	return out
}

// mentionsPars: the signature (or, for a variable, the value) mentions a pars type
func gbMentionsPars(n ast.Node) bool {
	found := false
	ast.Inspect(n, func(x ast.Node) bool {
		if _, isBody := x.(*ast.BlockStmt); isBody {
			return false
		}
		if sel, ok := x.(*ast.SelectorExpr); ok && identName(sel.X) == "pars" {
			found = true
		}
		if id, ok := x.(*ast.Ident); ok && id.Name == "genbankSubparser" {
			found = true
		}
		return true
	})
	return found
}

// ---- the generator ----------------------------------------------------------------------------------

func gbMangle(s string) string { return strings.ReplaceAll(s, "/", "_") }

func genGbReaderFacts(repo string) (text string, err error) {
	defer recoverRefusal(&err)
	var all []gbFn
	srcs := map[string]*source{}
	for _, f := range gbReaderFns {
		src, perr := parseSource(filepath.Join(repo, filepath.FromSlash(f.file)))
		if perr != nil {
			return "", perr
		}
		srcs[f.file] = src
		listed := map[string]bool{}
		for _, n := range f.names {
			listed[n] = true
			all = append(all, gbPrintTop(src, n)...)
		}
		// a parser function that is not in the list: look at it
		for _, d := range src.file.Decls {
			switch dd := d.(type) {
			case *ast.FuncDecl:
				if dd.Recv == nil && !listed[dd.Name.Name] && !gbReaderElsewhere[dd.Name.Name] && gbMentionsPars(dd.Type) {
					refuse("%s: function %s has a pars signature and is not in the reader inventory of go2lean/gbreader.go", f.file, dd.Name.Name)
				}
			case *ast.GenDecl:
				if dd.Tok != token.VAR {
					continue
				}
				for _, sp := range dd.Specs {
					vs := sp.(*ast.ValueSpec)
					for i, id := range vs.Names {
						if i < len(vs.Values) && !listed[id.Name] && gbMentionsPars(vs.Values[i]) {
							refuse("%s: variable %s is built from pars combinators and is not in the reader inventory of go2lean/gbreader.go", f.file, id.Name)
						}
					}
				}
			}
		}
	}
	byName := map[string][]gbLine{}
	for _, f := range all {
		byName[f.name] = f.lines
	}

	b := strings.Builder{}
	b.WriteString("/-\n  GENERATED by go2lean (gbreader.go) from seqio/genbank.go, genbank_subparsers.go, insdc.go, reference.go,\n  utils.go - DO NOT EDIT.  Regenerated by bin/setup and by every bin/check run.\n")
	b.WriteString("  The reader functions in a normal form, one line per statement (indent, kind, text): locals renamed in\n  order of declaration, parameters by type, the set-up variables of a parser constructor inlined into the\n  closure that uses them, function literals as entries of their own; and the tables derived from it.\n")
	b.WriteString("  Compared with the expectation Gts/Spec/GbReaderTable.lean by Gts/Bridge/GbReader.lean.\n-/\n")
	b.WriteString("namespace Gts.Gen.GbReader\n\n")
	b.WriteString("/-- one statement: (indent, kind, text) -/\nabbrev Line := Nat × String × String\n\n")
	for _, f := range all {
		fmt.Fprintf(&b, "def fn_%s : List Line := [\n", gbMangle(f.name))
		for i, l := range f.lines {
			fmt.Fprintf(&b, "  (%d, %s, %s)%s\n", l.ind, leanString(l.kind), leanString(l.text), sepComma(i, len(f.lines)))
		}
		b.WriteString("]\n\n")
	}
	b.WriteString("/-- every reader function and function literal, in the order of the inventory -/\ndef fns : List (String × List Line) := [\n")
	for i, f := range all {
		fmt.Fprintf(&b, "  (%s, fn_%s)%s\n", leanString(f.name), gbMangle(f.name), sepComma(i, len(all)))
	}
	b.WriteString("]\n\n")

	// --- derived: state operations with the condition they stand under
	b.WriteString("/-- every operation on the saved positions / the buffer (`state.Push() Pop() Drop() Clear() Advance()` …):\n(function, operation, the innermost `if` / `for` / `case` / `else` header it stands under, \"\" = unconditional) -/\n")
	b.WriteString("def stateOps : List (String × String × String) := [\n")
	var ops [][3]string
	for _, f := range all {
		for i, l := range f.lines {
			if l.kind != "state" {
				continue
			}
			under := ""
			for j := i - 1; j >= 0; j-- {
				if f.lines[j].ind < l.ind {
					if f.lines[j].kind != "func" {
						under = strings.TrimSpace(f.lines[j].kind + " " + f.lines[j].text)
						if f.lines[j].kind == "else" {
							// name the `if` the else belongs to
							for m := j - 1; m >= 0; m-- {
								if f.lines[m].ind == f.lines[j].ind && f.lines[m].kind == "if" {
									under = "else of if " + f.lines[m].text
									break
								}
							}
						}
					}
					break
				}
			}
			ops = append(ops, [3]string{f.name, l.text, under})
		}
	}
	for i, o := range ops {
		fmt.Fprintf(&b, "  (%s, %s, %s)%s\n", leanString(o[0]), leanString(o[1]), leanString(o[2]), sepComma(i, len(ops)))
	}
	b.WriteString("]\n\n")

	gbDispatch(&b, srcs)
	gbLocus(&b, srcs["seqio/genbank.go"])
	gbQualifierTypes(&b, srcs["seqio/insdc.go"])
	b.WriteString("end Gts.Gen.GbReader\n")
	return b.String(), nil
}

// ---- dispatch table ---------------------------------------------------------------------------------

// the constructors a generator builds its field-name parser with
var gbNameCtors = map[string]bool{"genbankGenericFieldParser": true, "genbankFieldNameParser": true, "pars.String": true}

// gbDispatch: the `generators` list of GenBankParser, each entry with the first field-name
// constructor its function calls and that constructor's first argument
func gbDispatch(b *strings.Builder, srcs map[string]*source) {
	gsrc := srcs["seqio/genbank.go"]
	fd := findFunc(gsrc.file, "GenBankParser")
	if fd == nil {
		refuse("genbank.go: GenBankParser not found")
	}
	// locals defined by a call: name -> callee
	localCall := map[string]*ast.CallExpr{}
	var gens *ast.CompositeLit
	var gensVar string
	for _, s := range fd.Body.List {
		as, ok := s.(*ast.AssignStmt)
		if !ok || as.Tok != token.DEFINE || len(as.Lhs) != 1 || len(as.Rhs) != 1 {
			continue
		}
		if call, ok := as.Rhs[0].(*ast.CallExpr); ok {
			localCall[identName(as.Lhs[0])] = call
		}
		if cl, ok := as.Rhs[0].(*ast.CompositeLit); ok && cl.Type != nil && exprString(cl.Type) == "[]genbankSubparser" {
			if gens != nil {
				refuse("genbank.go: GenBankParser: two lists of sub-parser generators")
			}
			gens, gensVar = cl, identName(as.Lhs[0])
		}
	}
	if gens == nil {
		refuse("genbank.go: GenBankParser: no `[]genbankSubparser{…}` list")
	}
	// the statements that turn the list into the parser: make, the range loop, tryAllParsers
	var subVar, depthArg, gbArg string
	okMake, okLoop, okTry := false, false, false
	for _, s := range fd.Body.List {
		switch n := s.(type) {
		case *ast.AssignStmt:
			if len(n.Lhs) == 1 && len(n.Rhs) == 1 {
				t := exprString(n.Rhs[0])
				if t == "make([]pars.Parser, len("+gensVar+"))" {
					subVar, okMake = identName(n.Lhs[0]), true
				}
				if okMake && t == "tryAllParsers("+subVar+")" {
					okTry = true
				}
			}
		case *ast.RangeStmt:
			if exprString(n.X) != gensVar || n.Key == nil || n.Value == nil || len(n.Body.List) != 1 {
				continue
			}
			as, ok := n.Body.List[0].(*ast.AssignStmt)
			if !ok || len(as.Lhs) != 1 || len(as.Rhs) != 1 || as.Tok != token.ASSIGN {
				continue
			}
			call, ok := as.Rhs[0].(*ast.CallExpr)
			if ok && exprString(as.Lhs[0]) == subVar+"["+identName(n.Key)+"]" && identName(call.Fun) == identName(n.Value) && len(call.Args) == 2 {
				gbArg, depthArg, okLoop = identName(call.Args[0]), identName(call.Args[1]), true
			}
		}
	}
	if !okMake || !okLoop || !okTry || gbArg == "" || depthArg == "" {
		refuse("genbank.go: GenBankParser: the generators are not turned into `tryAllParsers(subparsers)` by `subparsers := make([]pars.Parser, len(generators)); for i, generate := range generators { subparsers[i] = generate(gb, depth) }`")
	}
	sub := srcs["seqio/genbank_subparsers.go"]
	b.WriteString("/-- the `generators` of `GenBankParser` in the order in which `tryAllParsers` attempts them:\n(generator, the first field-name constructor its function calls, that constructor's first argument) -/\n")
	b.WriteString("def dispatch : List (String × String × String) := [\n")
	for i, e := range gens.Elts {
		name := identName(e)
		if name == "" {
			refuse("genbank.go: GenBankParser: generator %s is not a name", exprString(e))
		}
		shown := name
		if call, ok := localCall[name]; ok {
			name = identName(call.Fun)
			if len(call.Args) != 1 || identName(call.Args[0]) == "" {
				refuse("genbank.go: GenBankParser: generator %s is built from something else than one variable", exprString(e))
			}
			shown = name + "(length)" // gbLocus checks that the argument is the LOCUS child it calls `length`
		}
		gfd := findFunc(sub.file, name)
		if gfd == nil {
			refuse("genbank_subparsers.go: generator %s not found", name)
		}
		ctor, arg := gbFirstNameCtor(gfd)
		if ctor == "" {
			refuse("genbank_subparsers.go: %s: no field-name constructor (genbankGenericFieldParser, genbankFieldNameParser, pars.String) with a literal or pattern argument", name)
		}
		fmt.Fprintf(b, "  (%s, %s, %s)%s\n", leanString(shown), leanString(ctor), leanString(arg), sepComma(i, len(gens.Elts)))
	}
	b.WriteString("]\n\n")
}

// gbFirstNameCtor: the first call (source order) of a field-name constructor in fd whose first
// argument is a string literal, or a local variable defined by a call (the pattern of the extra field)
func gbFirstNameCtor(fd *ast.FuncDecl) (ctor, arg string) {
	defs := map[string]ast.Expr{}
	ast.Inspect(fd, func(x ast.Node) bool {
		if as, ok := x.(*ast.AssignStmt); ok && as.Tok == token.DEFINE && len(as.Lhs) == len(as.Rhs) {
			for i, l := range as.Lhs {
				if id := identName(l); id != "" {
					if _, seen := defs[id]; !seen {
						defs[id] = as.Rhs[i]
					}
				}
			}
		}
		return true
	})
	ast.Inspect(fd, func(x ast.Node) bool {
		if ctor != "" {
			return false
		}
		call, ok := x.(*ast.CallExpr)
		if !ok || !gbNameCtors[exprString(call.Fun)] || len(call.Args) < 1 {
			return true
		}
		if _, isLit := stringLiteral(call.Args[0]); isLit {
			ctor, arg = exprString(call.Fun), exprString(call.Args[0])
			return false
		}
		if id := identName(call.Args[0]); id != "" {
			if d, ok := defs[id]; ok {
				if _, isCall := d.(*ast.CallExpr); isCall {
					ctor, arg = exprString(call.Fun), exprString(d)
					return false
				}
			}
		}
		return true
	})
	return
}

// ---- LOCUS ------------------------------------------------------------------------------------------

// gbLocus: `var genbankLocusParser = pars.Seq(m0, …, mk).Children(i0, …)`, and the use GenBankParser
// makes of `result.Children[j]`
func gbLocus(b *strings.Builder, src *source) {
	x := valueDecl(src.file, token.VAR, "genbankLocusParser")
	outer, ok := x.(*ast.CallExpr)
	if !ok {
		refuse("genbank.go: genbankLocusParser is not `pars.Seq(…).Children(…)`")
	}
	sel, ok := outer.Fun.(*ast.SelectorExpr)
	if !ok || sel.Sel.Name != "Children" {
		refuse("genbank.go: genbankLocusParser is not `pars.Seq(…).Children(…)`")
	}
	seq, ok := sel.X.(*ast.CallExpr)
	if !ok || exprString(seq.Fun) != "pars.Seq" {
		refuse("genbank.go: genbankLocusParser is not `pars.Seq(…).Children(…)`")
	}
	p := &gbPrinter{src: src, top: "genbankLocusParser", ncount: map[string]int{}, fns: map[int]*gbFn{}}
	sc := p.open(nil)
	b.WriteString("/-- the members of the `pars.Seq` of `genbankLocusParser`, in order (function literals are the entries\n`genbankLocusParser/funcN` of `fns`) -/\ndef locusSeq : List String := [\n")
	for i, a := range seq.Args {
		fmt.Fprintf(b, "  %s%s\n", leanString(p.expr(sc, a)), sepComma(i, len(seq.Args)))
	}
	b.WriteString("]\n\n")
	var idx []string
	for _, a := range outer.Args {
		l, ok := a.(*ast.BasicLit)
		if !ok || l.Kind != token.INT {
			refuse("genbank.go: genbankLocusParser: Children(…) with a non-literal index")
		}
		idx = append(idx, l.Value)
	}
	fmt.Fprintf(b, "/-- the members `.Children(…)` keeps, in order -/\ndef locusChildren : List Nat := [%s]\n\n", strings.Join(idx, ", "))

	// uses of result.Children[j] in GenBankParser: variable := f(result.Children[j].X), then where the
	// variable goes: a field of the GenBankFields literal, the depth handed to the generators, the
	// length handed to makeGenbankOriginParser
	fd := findFunc(src.file, "GenBankParser")
	if fd == nil {
		refuse("genbank.go: GenBankParser not found")
	}
	// the name of the *pars.Result parameter
	resName := ""
	for _, f := range fd.Type.Params.List {
		if nodeText(f.Type) == "*pars.Result" && len(f.Names) == 1 {
			resName = f.Names[0].Name
		}
	}
	if resName == "" {
		refuse("genbank.go: GenBankParser has no *pars.Result parameter")
	}
	children := resName + ".Children"
	type use struct {
		child int
		form  string
	}
	uses := map[string]use{}
	var order []string
	for _, s := range fd.Body.List {
		as, ok := s.(*ast.AssignStmt)
		if !ok || as.Tok != token.DEFINE || len(as.Rhs) != 1 {
			continue
		}
		child, form, n := -1, "", 0
		ast.Inspect(as.Rhs[0], func(y ast.Node) bool {
			if ix, ok := y.(*ast.IndexExpr); ok && exprString(ix.X) == children {
				l, isLit := ix.Index.(*ast.BasicLit)
				if !isLit || l.Kind != token.INT {
					refuse("genbank.go: GenBankParser: result.Children[…] with a non-literal index")
				}
				child, _ = strconv.Atoi(l.Value)
				n++
			}
			return true
		})
		if n == 0 {
			continue
		}
		if n > 1 {
			refuse("genbank.go: GenBankParser: a statement reads two children of the LOCUS result")
		}
		form = strings.Replace(nodeText(as.Rhs[0]), children+"["+strconv.Itoa(child)+"]", "#", 1)
		v := identName(as.Lhs[0])
		if v == "" {
			refuse("genbank.go: GenBankParser: a LOCUS child is assigned to %s", exprString(as.Lhs[0]))
		}
		uses[v] = use{child, form}
		order = append(order, v)
	}
	// any other mention of result.Children is outside the shape
	total := 0
	ast.Inspect(fd, func(y ast.Node) bool {
		if ix, ok := y.(*ast.IndexExpr); ok && exprString(ix.X) == children {
			total++
		}
		return true
	})
	if total != len(order) {
		refuse("genbank.go: GenBankParser: result.Children[…] is read outside a `v := …` statement")
	}
	role := map[string]string{}
	ast.Inspect(fd, func(y ast.Node) bool {
		switch n := y.(type) {
		case *ast.CompositeLit:
			if n.Type != nil && exprString(n.Type) == "GenBankFields" {
				for _, e := range n.Elts {
					if kv, ok := e.(*ast.KeyValueExpr); ok {
						if v := identName(kv.Value); v != "" {
							if _, isUse := uses[v]; isUse {
								role[v] = "Fields." + identName(kv.Key)
							}
						}
					}
				}
			}
		case *ast.CallExpr:
			if identName(n.Fun) == "makeGenbankOriginParser" && len(n.Args) == 1 {
				if v := identName(n.Args[0]); v != "" {
					role[v] = "length"
				}
			}
		case *ast.RangeStmt:
			if len(n.Body.List) == 1 {
				if as, ok := n.Body.List[0].(*ast.AssignStmt); ok && len(as.Rhs) == 1 {
					if call, ok := as.Rhs[0].(*ast.CallExpr); ok && len(call.Args) == 2 && identName(call.Fun) == identName(n.Value) {
						if v := identName(call.Args[1]); v != "" {
							role[v] = "depth"
						}
					}
				}
			}
		}
		return true
	})
	b.WriteString("/-- what `GenBankParser` does with the children of the LOCUS result: (where the value goes — a field of\n`GenBankFields`, the `depth` handed to every generator, the `length` handed to `makeGenbankOriginParser` —,\nindex into `result.Children`, the expression with `#` for `result.Children[index]`) -/\n")
	b.WriteString("def locusUses : List (String × Nat × String) := [\n")
	for i, v := range order {
		r, ok := role[v]
		if !ok {
			refuse("genbank.go: GenBankParser: the LOCUS child %d goes into a variable that is neither a field of GenBankFields, the depth nor the length", uses[v].child)
		}
		fmt.Fprintf(b, "  (%s, %d, %s)%s\n", leanString(r), uses[v].child, leanString(uses[v].form), sepComma(i, len(order)))
	}
	b.WriteString("]\n\n")
}

// ---- QualifierType ----------------------------------------------------------------------------------

func gbQualifierTypes(b *strings.Builder, src *source) {
	m := iotaConsts(src, "QualifierType")
	if len(m) == 0 {
		refuse("insdc.go: no `const ( … QualifierType = iota … )` block")
	}
	names := make([]string, len(m))
	for n, i := range m {
		if i < 0 || i >= len(m) || names[i] != "" {
			refuse("insdc.go: QualifierType constants")
		}
		names[i] = n
	}
	b.WriteString("/-- the `iota` block of `QualifierType`: the constant with value `i` is entry `i`; `QualifierParser` indexes\nits `valueParsers` list with it -/\ndef qualifierTypes : List String := [")
	for i, n := range names {
		b.WriteString(leanString(n) + sepComma(i, len(names)))
		if i+1 < len(names) {
			b.WriteString(" ")
		}
	}
	b.WriteString("]\n\n")
}
