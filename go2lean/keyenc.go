package main

// Generator for the ENCODING of the cache-key payload (cmd/gts/io.go `exact`, `encodePayload`;
// property C14): lean/Gts/Gen/KeyEnc.lean.
//
// The two functions are read statement by statement into Lean functions over the payload values of
// the model (`Gts.KeyEnc.Value`: a Go `interface{}` holding a string, a []string, a bool, an
// integer or a []byte), with the two library calls as PARAMETERS (`quote` for
// strconv.QuoteToASCII, `marshal` for json.Marshal of a []tuple), so that the translator fixes no
// semantics of its own; lean/Gts/Bridge/KeyEnc.lean instantiates them with the model's
// `quoteToASCII` / JSON writer and proves the result equal to `Gts.KeyEnc.exact` /
// `Gts.KeyEnc.encodePayload`.
//
// Shapes accepted (every statement checked on the AST, anything else refused):
//
//	type tuple [2]interface{}
//
//	func exact(v interface{}) interface{} {
//	    switch w := v.(type) {                  // exactly the clauses string, []string, default
//	    case string:   return E                 // E over w : string
//	    case []string: <stmts>; return X        // X : []string
//	    default:       return w
//	    }
//	}
//
//	func encodePayload(tt []tuple) []byte { <stmts>; return P }      // P : []byte
//
//	stmts:  X := make([]T, len(Y)); for i, e := range Y { X[i] = E }   (T = string | tuple; the pair of
//	            statements is the element-wise image of Y, emitted as a structural recursion)
//	        P, err := json.Marshal(X); if err != nil { panic(err) }    (X : []tuple)
//	E:      an identifier | strconv.QuoteToASCII(E) | exact(E) | tuple{E, E} | t[0] | t[1]  (t : tuple)
//
// `strconv` and `json` must be the standard packages (import paths "strconv", "encoding/json",
// no alias).  The pre-1c2c272 body `p, err := json.Marshal(tt)` is inside the subset: it translates
// to `marshal tt`, and the bridge theorem fails.

import (
	"fmt"
	"go/ast"
	"go/parser"
	"go/token"
	"path/filepath"
	"strconv"
	"strings"
)

// keType is the type of a translated expression.
type keType string

const (
	keValue   keType = "value"   // interface{}
	keString  keType = "string"  // string
	keStrings keType = "strings" // []string
	keTuple   keType = "tuple"   // tuple = [2]interface{}
	keTuples  keType = "tuples"  // []tuple
	keBytes   keType = "bytes"   // []byte
)

var keLean = map[keType]string{
	keValue: "Value", keString: "Bytes", keStrings: "List Bytes", keTuple: "Value × Value",
	keTuples: "List (Value × Value)", keBytes: "Bytes",
}

type keVal struct {
	term string
	typ  keType
}

type keGen struct {
	fset    *token.FileSet
	file    *ast.File
	helpers []string // emitted loop helpers, in order
	nloops  map[string]int
	vars    map[string]keVal
	calls   map[string]bool // library functions called
}

var keReserved = map[string]bool{"quote": true, "marshal": true, "exact": true, "encodePayload": true,
	"rest_": true, "Value": true, "Bytes": true, "List": true}

func keName(n string) string {
	if leanKeywords[n] || keReserved[n] || strings.HasPrefix(n, "exactLoop") || strings.HasPrefix(n, "encodePayloadLoop") {
		return n + "_"
	}
	return n
}

// local refuses a Go local that would shadow one of the names the recognisers read literally.
func (g *keGen) local(id *ast.Ident) {
	switch id.Name {
	case "exact", "tuple", "strconv", "json", "make", "len", "panic", "nil", "string":
		refuse("%s: the local variable %s shadows a name the generator reads literally", g.at(id), id.Name)
	}
}

func (g *keGen) at(n ast.Node) string {
	p := g.fset.Position(n.Pos())
	return fmt.Sprintf("io.go:%d", p.Line)
}

// toValue injects a typed term into `interface{}`.
func (g *keGen) toValue(v keVal, n ast.Node) string {
	switch v.typ {
	case keValue:
		return v.term
	case keString:
		return "(Value.str " + v.term + ")"
	case keStrings:
		return "(Value.strs " + v.term + ")"
	}
	refuse("%s: a value of type %s is stored in an interface{}", g.at(n), v.typ)
	return ""
}

func (g *keGen) expr(x ast.Expr) keVal {
	switch n := x.(type) {
	case *ast.ParenExpr:
		return g.expr(n.X)
	case *ast.Ident:
		if v, ok := g.vars[n.Name]; ok {
			return v
		}
		refuse("%s: unknown identifier %s", g.at(n), n.Name)
	case *ast.CallExpr:
		fun := exprString(n.Fun)
		if n.Ellipsis.IsValid() || len(n.Args) != 1 {
			refuse("%s: call %s outside the subset", g.at(n), fun)
		}
		a := g.expr(n.Args[0])
		switch fun {
		case "strconv.QuoteToASCII":
			if a.typ != keString {
				refuse("%s: strconv.QuoteToASCII of a %s", g.at(n), a.typ)
			}
			g.calls[fun] = true
			return keVal{"(quote " + a.term + ")", keString}
		case "exact":
			if a.typ != keValue {
				refuse("%s: exact of a %s", g.at(n), a.typ)
			}
			return keVal{"(exact quote " + a.term + ")", keValue}
		}
		refuse("%s: call of %s outside the subset", g.at(n), fun)
	case *ast.CompositeLit:
		if exprString(n.Type) != "tuple" || len(n.Elts) != 2 {
			refuse("%s: composite literal outside the subset", g.at(n))
		}
		for _, e := range n.Elts {
			if _, ok := e.(*ast.KeyValueExpr); ok {
				refuse("%s: keyed tuple literal", g.at(n))
			}
		}
		a, b := g.expr(n.Elts[0]), g.expr(n.Elts[1])
		return keVal{"(" + g.toValue(a, n) + ", " + g.toValue(b, n) + ")", keTuple}
	case *ast.IndexExpr:
		t := g.expr(n.X)
		lit, ok := n.Index.(*ast.BasicLit)
		if t.typ != keTuple || !ok || lit.Kind != token.INT || (lit.Value != "0" && lit.Value != "1") {
			refuse("%s: index expression outside the subset", g.at(n))
		}
		if lit.Value == "0" {
			return keVal{t.term + ".1", keValue}
		}
		return keVal{t.term + ".2", keValue}
	}
	refuse("%s: expression %s outside the subset", g.at(x), exprString(x))
	return keVal{}
}

func keElemType(t ast.Expr) (elem, slice keType, ok bool) {
	switch exprString(t) {
	case "[]string":
		return keString, keStrings, true
	case "[]tuple":
		return keTuple, keTuples, true
	}
	return "", "", false
}

// mapPair recognises `X := make([]T, len(Y)); for i, e := range Y { X[i] = E }` and binds X to the
// element-wise image of Y, computed by a fresh recursive helper.
func (g *keGen) mapPair(fn string, s1, s2 ast.Stmt) (string, bool) {
	as, ok := s1.(*ast.AssignStmt)
	if !ok || as.Tok != token.DEFINE || len(as.Lhs) != 1 || len(as.Rhs) != 1 {
		return "", false
	}
	mk, ok := as.Rhs[0].(*ast.CallExpr)
	if !ok || exprString(mk.Fun) != "make" {
		return "", false
	}
	x, ok := as.Lhs[0].(*ast.Ident)
	if !ok || len(mk.Args) != 2 {
		refuse("%s: make outside the subset", g.at(s1))
	}
	g.local(x)
	elem, slice, ok := keElemType(mk.Args[0])
	if !ok {
		refuse("%s: make of %s outside the subset", g.at(s1), exprString(mk.Args[0]))
	}
	ln, ok := mk.Args[1].(*ast.CallExpr)
	if !ok || exprString(ln.Fun) != "len" || len(ln.Args) != 1 {
		refuse("%s: the length of the fresh slice is not len(…)", g.at(s1))
	}
	src, ok := ln.Args[0].(*ast.Ident)
	if !ok {
		refuse("%s: the length of the fresh slice is not that of a variable", g.at(s1))
	}
	srcv := g.expr(src)
	var srcElem keType
	switch srcv.typ {
	case keStrings:
		srcElem = keString
	case keTuples:
		srcElem = keTuple
	default:
		refuse("%s: len of a %s", g.at(s1), srcv.typ)
	}
	rs, ok := s2.(*ast.RangeStmt)
	if !ok || rs.Tok != token.DEFINE || rs.Key == nil || rs.Value == nil {
		refuse("%s: `%s := make(…)` is not followed by `for i, e := range …`", g.at(s1), x.Name)
	}
	ri, ok1 := rs.Key.(*ast.Ident)
	re, ok2 := rs.Value.(*ast.Ident)
	rx, ok3 := rs.X.(*ast.Ident)
	if !ok1 || !ok2 || !ok3 || rx.Name != src.Name || ri.Name == "_" || re.Name == "_" || ri.Name == re.Name {
		refuse("%s: the loop does not range over %s with an index and an element", g.at(s2), src.Name)
	}
	g.local(ri)
	g.local(re)
	if len(rs.Body.List) != 1 {
		refuse("%s: loop body outside the subset", g.at(s2))
	}
	st, ok := rs.Body.List[0].(*ast.AssignStmt)
	if !ok || st.Tok != token.ASSIGN || len(st.Lhs) != 1 || len(st.Rhs) != 1 {
		refuse("%s: loop body outside the subset", g.at(s2))
	}
	ix, ok := st.Lhs[0].(*ast.IndexExpr)
	if !ok || exprString(ix.X) != x.Name || exprString(ix.Index) != ri.Name {
		refuse("%s: the loop does not store into %s[%s]", g.at(st), x.Name, ri.Name)
	}
	// the element expression reads the loop element only (the helper takes no other argument):
	// every other identifier is unknown inside it and refused
	saved := g.vars
	ename := keName(re.Name)
	g.vars = map[string]keVal{re.Name: {ename, srcElem}}
	body := g.expr(st.Rhs[0])
	g.vars = saved
	if body.typ != elem {
		refuse("%s: a %s is stored into a slice of %s", g.at(st), body.typ, elem)
	}
	g.nloops[fn]++
	helper := fn + "Loop"
	if g.nloops[fn] > 1 {
		helper += strconv.Itoa(g.nloops[fn])
	}
	g.helpers = append(g.helpers, fmt.Sprintf(
		"/-- io.go `%s`: `%s := make(%s, len(%s)); for %s, %s := range %s { %s[%s] = … }` — the fresh slice holds the\nimage of every element, in order -/\ndef %s (quote : Bytes → Bytes) : %s → %s\n  | [] => []\n  | %s :: rest_ => %s :: %s quote rest_\n",
		fn, x.Name, exprString(mk.Args[0]), src.Name, ri.Name, re.Name, src.Name, x.Name, ri.Name,
		helper, keLean[srcv.typ], keLean[slice], ename, body.term, helper))
	g.vars[x.Name] = keVal{"(" + helper + " quote " + srcv.term + ")", slice}
	return x.Name, true
}

// marshalPair recognises `P, err := json.Marshal(X); if err != nil { panic(err) }`.
func (g *keGen) marshalPair(s1, s2 ast.Stmt) bool {
	as, ok := s1.(*ast.AssignStmt)
	if !ok || as.Tok != token.DEFINE || len(as.Lhs) != 2 || len(as.Rhs) != 1 {
		return false
	}
	call, ok := as.Rhs[0].(*ast.CallExpr)
	if !ok || exprString(call.Fun) != "json.Marshal" {
		return false
	}
	p, ok1 := as.Lhs[0].(*ast.Ident)
	er, ok2 := as.Lhs[1].(*ast.Ident)
	if !ok1 || !ok2 || p.Name == "_" || er.Name == "_" || len(call.Args) != 1 || call.Ellipsis.IsValid() {
		refuse("%s: json.Marshal call outside the subset", g.at(s1))
	}
	g.local(p)
	g.local(er)
	a := g.expr(call.Args[0])
	if a.typ != keTuples {
		refuse("%s: json.Marshal of a %s", g.at(s1), a.typ)
	}
	is, ok := s2.(*ast.IfStmt)
	if !ok || is.Init != nil || is.Else != nil || exprString(is.Cond) != er.Name+" != nil" || len(is.Body.List) != 1 {
		refuse("%s: the error of json.Marshal is not checked by `if %s != nil { panic(%s) }`", g.at(s1), er.Name, er.Name)
	}
	es, ok := is.Body.List[0].(*ast.ExprStmt)
	if !ok || exprString(es.X) != "panic("+er.Name+")" {
		refuse("%s: the error of json.Marshal is not checked by `if %s != nil { panic(%s) }`", g.at(s1), er.Name, er.Name)
	}
	g.calls["json.Marshal"] = true
	g.vars[p.Name] = keVal{"(marshal " + a.term + ")", keBytes}
	return true
}

// stmts translates a statement list ending in `return X` and gives the returned value.
func (g *keGen) stmts(fn string, list []ast.Stmt) keVal {
	i := 0
	for i+1 < len(list) {
		if _, ok := g.mapPair(fn, list[i], list[i+1]); ok {
			i += 2
			continue
		}
		if g.marshalPair(list[i], list[i+1]) {
			i += 2
			continue
		}
		refuse("%s: statement outside the subset", g.at(list[i]))
	}
	if i != len(list)-1 {
		refuse("%s: the function does not end in a return statement", fn)
	}
	ret, ok := list[i].(*ast.ReturnStmt)
	if !ok || len(ret.Results) != 1 {
		refuse("%s: the last statement is not `return X`", g.at(list[i]))
	}
	return g.expr(ret.Results[0])
}

func keFunc(af *ast.File, name string) *ast.FuncDecl {
	var found *ast.FuncDecl
	for _, d := range af.Decls {
		if fd, ok := d.(*ast.FuncDecl); ok && fd.Recv == nil && fd.Name.Name == name {
			if found != nil {
				refuse("io.go: function %s declared twice", name)
			}
			found = fd
		}
	}
	if found == nil || found.Body == nil {
		refuse("io.go: function %s not found", name)
	}
	return found
}

// keSignature checks `func f(p T) R` and returns the parameter name.
func keSignature(fd *ast.FuncDecl, ptype, rtype string) string {
	ps := fd.Type.Params.List
	if fd.Type.TypeParams != nil || len(ps) != 1 || len(ps[0].Names) != 1 || exprString(ps[0].Type) != ptype ||
		fd.Type.Results == nil || len(fd.Type.Results.List) != 1 || len(fd.Type.Results.List[0].Names) != 0 ||
		exprString(fd.Type.Results.List[0].Type) != rtype {
		refuse("io.go: signature of %s is not func(%s) %s", fd.Name.Name, ptype, rtype)
	}
	return ps[0].Names[0].Name
}

func keTypeString(t ast.Expr) string {
	if it, ok := t.(*ast.InterfaceType); ok && (it.Methods == nil || len(it.Methods.List) == 0) {
		return "interface{}"
	}
	if at, ok := t.(*ast.ArrayType); ok {
		if at.Len == nil {
			return "[]" + keTypeString(at.Elt)
		}
		return "[" + exprString(at.Len) + "]" + keTypeString(at.Elt)
	}
	return exprString(t)
}

func genKeyEnc(repo string) (text string, err error) {
	defer func() {
		if r := recover(); r != nil {
			if rf, ok := r.(refusal); ok {
				err = fmt.Errorf("%s", rf.msg)
				return
			}
			panic(r)
		}
	}()
	fset := token.NewFileSet()
	af, perr := parser.ParseFile(fset, filepath.Join(repo, "cmd", "gts", "io.go"), nil, 0)
	if perr != nil {
		return "", perr
	}
	g := &keGen{fset: fset, file: af, nloops: map[string]int{}, calls: map[string]bool{}}

	// the packages behind `strconv.` and `json.`
	imports := map[string]string{} // local name -> path
	for _, im := range af.Imports {
		path, _ := strconv.Unquote(im.Path.Value)
		name := path[strings.LastIndex(path, "/")+1:]
		if im.Name != nil {
			name = im.Name.Name
		}
		imports[name] = path
	}
	if imports["strconv"] != "strconv" || imports["json"] != "encoding/json" {
		refuse("io.go: `strconv` / `json` are not the packages strconv and encoding/json")
	}
	// no declaration of the file may shadow them or `exact` / `tuple`
	tupleType := ""
	for _, d := range af.Decls {
		gd, ok := d.(*ast.GenDecl)
		if !ok {
			continue
		}
		for _, sp := range gd.Specs {
			switch s := sp.(type) {
			case *ast.TypeSpec:
				if s.Name.Name == "tuple" {
					if tupleType != "" || s.Assign.IsValid() || s.TypeParams != nil {
						refuse("io.go: type tuple outside the subset")
					}
					tupleType = keTypeString(s.Type)
				}
			case *ast.ValueSpec:
				for _, nm := range s.Names {
					if nm.Name == "strconv" || nm.Name == "json" || nm.Name == "exact" || nm.Name == "tuple" || nm.Name == "panic" || nm.Name == "make" || nm.Name == "len" {
						refuse("io.go: %s is redeclared", nm.Name)
					}
				}
			}
		}
	}
	if tupleType != "[2]interface{}" {
		refuse("io.go: type tuple is %q, not [2]interface{}", tupleType)
	}

	// --- exact
	fe := keFunc(af, "exact")
	pe := keSignatureIface(fe)
	if len(fe.Body.List) != 1 {
		refuse("io.go: the body of exact is not a single type switch")
	}
	ts, ok := fe.Body.List[0].(*ast.TypeSwitchStmt)
	if !ok || ts.Init != nil {
		refuse("io.go: the body of exact is not a single type switch")
	}
	bound := ""
	var guard ast.Expr
	switch a := ts.Assign.(type) {
	case *ast.AssignStmt:
		if len(a.Lhs) != 1 || len(a.Rhs) != 1 {
			refuse("io.go: exact: type switch guard outside the subset")
		}
		bound = a.Lhs[0].(*ast.Ident).Name
		g.local(a.Lhs[0].(*ast.Ident))
		guard = a.Rhs[0]
	default:
		refuse("io.go: exact: the type switch does not bind the value")
	}
	ta, ok := guard.(*ast.TypeAssertExpr)
	if !ok || ta.Type != nil || exprString(ta.X) != pe {
		refuse("io.go: exact: the type switch is not on the parameter")
	}
	arms := map[string]string{}
	for _, c := range ts.Body.List {
		cc := c.(*ast.CaseClause)
		key := "default"
		var typ keType = keValue
		if cc.List != nil {
			if len(cc.List) != 1 {
				refuse("%s: exact: a case with several types", g.at(cc))
			}
			key = keTypeString(cc.List[0])
			switch key {
			case "string":
				typ = keString
			case "[]string":
				typ = keStrings
			default:
				refuse("%s: exact: case %s outside the subset", g.at(cc), key)
			}
		}
		if _, dup := arms[key]; dup {
			refuse("%s: exact: case %s twice", g.at(cc), key)
		}
		if len(cc.Body) == 0 {
			refuse("%s: exact: empty case", g.at(cc))
		}
		// only the bound variable is in scope (reading the parameter itself inside a clause is refused)
		g.vars = map[string]keVal{bound: {keName(bound), typ}}
		res := g.stmts("exact", cc.Body)
		arms[key] = g.toValue(res, cc)
	}
	for _, k := range []string{"string", "[]string", "default"} {
		if _, ok := arms[k]; !ok {
			refuse("io.go: exact: no case %s", k)
		}
	}
	if len(arms) != 3 {
		refuse("io.go: exact: clauses other than string, []string, default")
	}
	exactHelpers := g.helpers
	g.helpers = nil

	// --- encodePayload
	fp := keFunc(af, "encodePayload")
	pp := keSignature(fp, "[]tuple", "[]byte")
	g.local(fp.Type.Params.List[0].Names[0])
	g.local(fe.Type.Params.List[0].Names[0])
	g.vars = map[string]keVal{pp: {keName(pp), keTuples}}
	res := g.stmts("encodePayload", fp.Body.List)
	if res.typ != keBytes {
		refuse("io.go: encodePayload returns a %s", res.typ)
	}
	payloadHelpers := g.helpers

	var calls []string
	for _, c := range []string{"strconv.QuoteToASCII", "json.Marshal"} {
		if g.calls[c] {
			calls = append(calls, c)
		}
	}

	b := strings.Builder{}
	b.WriteString("/-\n  GENERATED by go2lean (keyenc.go) from cmd/gts/io.go (`exact`, `encodePayload`) — do not edit.\n")
	b.WriteString("  The two functions statement by statement, over the payload values of the model; the library calls\n")
	b.WriteString("  strconv.QuoteToASCII and json.Marshal are the parameters `quote` and `marshal`.\n-/\n")
	b.WriteString("import Gts.Model.KeyEnc\nnamespace Gts.Gen.KeyEnc\nopen Gts.KeyEnc (Bytes Value)\nset_option linter.unusedVariables false\n\n")
	b.WriteString("/-- what the functions are made of -/\nstructure Frame where\n  /-- the declared type of `tuple` -/\n  tupleType : String\n  /-- the import paths behind `strconv.` and `json.` -/\n  packages : List String\n  /-- the library functions called (everything else is refused) -/\n  calls : List String\n  /-- what happens with the error of json.Marshal -/\n  onMarshalError : String\n  deriving DecidableEq, Repr\n\n")
	fmt.Fprintf(&b, "def keyEncFrame : Frame :=\n  { tupleType := %s, packages := %s, calls := %s,\n    onMarshalError := %s }\n\n",
		leanStr(tupleType), leanStrList([]string{imports["strconv"], imports["json"]}), leanStrList(calls), leanStr("panic(err)"))
	for _, h := range exactHelpers {
		b.WriteString(h + "\n")
	}
	bn := keName(bound)
	fmt.Fprintf(&b, "/-- io.go `exact`: the type switch `switch %s := %s.(type)` -/\ndef exact (quote : Bytes → Bytes) : Value → Value\n  | .str %s => %s\n  | .strs %s => %s\n  | %s => %s\n\n",
		bound, pe, bn, arms["string"], bn, arms["[]string"], bn, arms["default"])
	for _, h := range payloadHelpers {
		b.WriteString(h + "\n")
	}
	fmt.Fprintf(&b, "/-- io.go `encodePayload` -/\ndef encodePayload (quote : Bytes → Bytes) (marshal : List (Value × Value) → Bytes) (%s : List (Value × Value)) : Bytes :=\n  %s\n\n",
		keName(pp), res.term)
	b.WriteString("end Gts.Gen.KeyEnc\n")
	return b.String(), nil
}

// keSignatureIface checks `func exact(v interface{}) interface{}` and returns the parameter name.
func keSignatureIface(fd *ast.FuncDecl) string {
	ps := fd.Type.Params.List
	if fd.Type.TypeParams != nil || len(ps) != 1 || len(ps[0].Names) != 1 || keTypeString(ps[0].Type) != "interface{}" ||
		fd.Type.Results == nil || len(fd.Type.Results.List) != 1 || len(fd.Type.Results.List[0].Names) != 0 ||
		keTypeString(fd.Type.Results.List[0].Type) != "interface{}" {
		refuse("io.go: signature of %s is not func(interface{}) interface{}", fd.Name.Name)
	}
	return ps[0].Names[0].Name
}
