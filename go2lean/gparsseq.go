package main

// gparsseq.go — `pars.Seq`, `pars.Child`, `Parser.Child`, `pars.Exact` for the function-level translation of go-pars
// (gparsfn.go; Gts/Gen/Pars.lean; bridge Gts/Bridge/ParsSeq.lean, obligations of C07 / C08).
//
// What `Seq` and `Child` need beyond the subset of gparsfn.go (all hooks of that translator, every other shape is
// still refused):
//
//   - `[]Result` is a `List ResultV` (type `results`); `make([]Result, len(ps))` is `List.replicate ps.length .unset`
//     (a zero `Result{}` holds nothing); `result.SetChildren(v)` is the value `.children v` — the NEW constructor of
//     `ResultV` in the prelude (a nested inductive: `DecidableEq` is written out there, it cannot be derived);
//   - `p(state, &v[i])`: the cell is read (`goIdx`, `none` = the index panic), the parser runs on it, the cell is
//     written back (`goSet`);
//   - `for i, p := range ps` over a list of parsers: `rangeLoopIdx` of the prelude (`rangeLoop` with the index);
//   - `result.Children` read from a `*Result`: `resultChildren result`, `none` = the nil slice — READING: a
//     `.children c` is made by `SetChildren(v)` with `v` from `make` only (this translator emits no other one), so
//     its slice is never nil, and every other value has no children: `result.Children == nil` is `.isNone`,
//     `result.Children[i]` binds it (indexing the nil slice panics);
//   - `*result = x`: the result is the value `x`;
//   - `errNoChildren` (a package variable made by `errors.New`) is an error VALUE: `env.mkErr`;
//   - `Parser.Map/func0` a second time as `parsMapP`, its `Map` parameter read as a mapping that MAY PANIC
//     (`ResultV → Option (ResultV × Option ε)`: `Child(i)` indexes) — the same statements, the more general type;
//   - `Parser.Child` and `Exact` are COMPOSITIONS (`return p.Map(Child(i))`, `p := AsParser(q); return Seq(Head, p,
//     End).Map(Child(1))`): a definition whose body is that expression over the translated functions.

import (
	"fmt"
	"go/ast"
	"go/token"
	"strconv"
	"strings"
)

func init() {
	pfGoTypes["[]Result"] = "results"
	pfLeanTypes["results"] = "List ResultV"
	pfLeanTypes["mapfnP"] = "ResultV → Option (ResultV × Option ε)"
}

const parsPreludeResultDoc = `;
` + "`SetChildren(v)`" + ` likewise (` + "`pars_Result_SetChildren`" + `): ` + "`.children v`" + `, made from a slice that ` + "`make`" + ` built only (never nil)`

const parsPreludeChildren = `
/- ` + "`ResultV`" + ` is nested (a result holds results): ` + "`DecidableEq`" + ` cannot be derived and is written out, structurally, so that
` + "`decide`" + ` evaluates it. -/
mutual
/-- equality of two results is decidable -/
def ResultV.decEq : (a b : ResultV) → Decidable (a = b)
  | .unset, .unset => isTrue rfl
  | .token p, .token q => if h : p = q then isTrue (h ▸ rfl) else isFalse (fun h' => h (by injection h'))
  | .int p, .int q => if h : p = q then isTrue (h ▸ rfl) else isFalse (fun h' => h (by injection h'))
  | .str p, .str q => if h : p = q then isTrue (h ▸ rfl) else isFalse (fun h' => h (by injection h'))
  | .children p, .children q =>
    match ResultV.decEqL p q with
    | isTrue h => isTrue (h ▸ rfl)
    | isFalse h => isFalse (fun h' => h (by injection h'))
  | .unset, .token _ | .unset, .int _ | .unset, .str _ | .unset, .children _
  | .token _, .unset | .token _, .int _ | .token _, .str _ | .token _, .children _
  | .int _, .unset | .int _, .token _ | .int _, .str _ | .int _, .children _
  | .str _, .unset | .str _, .token _ | .str _, .int _ | .str _, .children _
  | .children _, .unset | .children _, .token _ | .children _, .int _ | .children _, .str _ => isFalse nofun
/-- equality of two lists of results is decidable -/
def ResultV.decEqL : (a b : List ResultV) → Decidable (a = b)
  | [], [] => isTrue rfl
  | a :: as, b :: bs =>
    match ResultV.decEq a b, ResultV.decEqL as bs with
    | isTrue h1, isTrue h2 => isTrue (h1 ▸ h2 ▸ rfl)
    | isFalse h1, _ => isFalse (fun h' => h1 (by injection h'))
    | _, isFalse h2 => isFalse (fun h' => h2 (by injection h'))
  | [], _ :: _ | _ :: _, [] => isFalse nofun
end

/-- the instance looks at the two constructors first, without recursion (so that ` + "`decide`" + ` on a computed result evaluates as it does
for a derived instance); only the children are compared by the recursive function -/
instance : DecidableEq ResultV := fun a b =>
  match a, b with
  | .unset, .unset => isTrue rfl
  | .token p, .token q => if h : p = q then isTrue (h ▸ rfl) else isFalse (fun h' => h (by injection h'))
  | .int p, .int q => if h : p = q then isTrue (h ▸ rfl) else isFalse (fun h' => h (by injection h'))
  | .str p, .str q => if h : p = q then isTrue (h ▸ rfl) else isFalse (fun h' => h (by injection h'))
  | .children p, .children q =>
    match ResultV.decEqL p q with
    | isTrue h => isTrue (h ▸ rfl)
    | isFalse h => isFalse (fun h' => h (by injection h'))
  | .unset, .token _ | .unset, .int _ | .unset, .str _ | .unset, .children _
  | .token _, .unset | .token _, .int _ | .token _, .str _ | .token _, .children _
  | .int _, .unset | .int _, .token _ | .int _, .str _ | .int _, .children _
  | .str _, .unset | .str _, .token _ | .str _, .int _ | .str _, .children _
  | .children _, .unset | .children _, .token _ | .children _, .int _ | .children _, .str _ => isFalse nofun

/-- ` + "`result.Children`" + ` read from a ` + "`*Result`" + `: ` + "`none`" + ` = the nil slice (every value that is not ` + "`.children`" + `; a ` + "`.children c`" + ` holds
the slice ` + "`make`" + ` built, which is not nil even when it is empty) -/
def resultChildren : ResultV → Option (List ResultV)
  | .children c => some c
  | _ => none
`

const parsPreludeRangeIdx = `
/-- ` + "`for i, x := range xs { body }`" + `; rest: ` + "`rangeLoop`" + ` with the index of the element (counted from the given start) -/
def rangeLoopIdx {α σ R : Type} (body : Int → α → σ → Option (Flow σ R)) (exit : σ → Option R) : Int → List α → σ → Option R
  | _, [], s => exit s
  | i, x :: xs, s =>
    match body i x s with
    | none => none
    | some (.next s') => rangeLoopIdx body exit (i + 1) xs s'
    | some (.done s') => exit s'
    | some (.ret r) => some r
`

// resultVar: x is a variable of type *Result
func (c *pfCtx) resultVar(x ast.Expr) string {
	if id, ok := x.(*ast.Ident); ok {
		if v, isVar := c.vars[id.Name]; isVar && v.typ == "Result" {
			return id.Name
		}
	}
	return ""
}

// childrenOf: x is `r.Children` for a *Result variable r
func (c *pfCtx) childrenOf(x ast.Expr) string {
	if sel, ok := x.(*ast.SelectorExpr); ok && sel.Sel.Name == "Children" {
		return c.resultVar(sel.X)
	}
	return ""
}

// pfErrVar: name is a package variable `var name = errors.New("…")`
func (g *pfGen) errVar(name string) bool {
	d, ok := g.pk.byName[name]
	if !ok || d.kind != "var" {
		return false
	}
	call, ok := d.value.(*ast.CallExpr)
	if !ok || nodeText(call.Fun) != "errors.New" || len(call.Args) != 1 {
		return false
	}
	_, lit := call.Args[0].(*ast.BasicLit)
	return lit
}

// seqExpr: the expression forms of `Seq` / `Child` (hook at the head of pfCtx.expr)
func (c *pfCtx) seqExpr(x ast.Expr) (pfVal, bool) {
	switch n := x.(type) {
	case *ast.Ident:
		if _, isVar := c.vars[n.Name]; !isVar && c.g.errVar(n.Name) {
			return pfVal{"(some env.mkErr)", "error"}, true
		}
	case *ast.BinaryExpr:
		// r.Children == nil / != nil
		if (n.Op == token.EQL || n.Op == token.NEQ) && identName(n.Y) == "nil" {
			if r := c.childrenOf(n.X); r != "" {
				test := ".isNone"
				if n.Op == token.NEQ {
					test = ".isSome"
				}
				return pfVal{"((resultChildren " + r + ")" + test + " = true)", "prop"}, true
			}
		}
	case *ast.IndexExpr:
		if r := c.childrenOf(n.X); r != "" {
			i := c.expr(n.Index)
			if i.typ != "int" {
				c.refuse(x, "index of type %s", i.typ)
			}
			cs := c.bindPartial("resultChildren " + r)
			return pfVal{c.bindPartial("goIdx " + cs + " " + pfArg(i.lean)), "Result"}, true
		}
	}
	return pfVal{}, false
}

// cellRef: x is `&v[i]` for a variable v of type []Result
func (c *pfCtx) cellRef(x ast.Expr) (v string, idx ast.Expr, ok bool) {
	u, isU := x.(*ast.UnaryExpr)
	if !isU || u.Op != token.AND {
		return "", nil, false
	}
	ix, isIx := u.X.(*ast.IndexExpr)
	if !isIx {
		return "", nil, false
	}
	id, isId := ix.X.(*ast.Ident)
	if !isId || c.vars[id.Name].typ != "results" {
		return "", nil, false
	}
	return id.Name, ix.Index, true
}

// seqCall: the call forms of `Seq` / `Child` (hook at the head of pfCtx.call)
func (c *pfCtx) seqCall(n *ast.CallExpr) ([]pfVal, bool) {
	switch nodeText(n.Fun) {
	case "len":
		if len(n.Args) == 1 && identName(n.Args[0]) != "" {
			if v, isVar := c.vars[identName(n.Args[0])]; isVar && (v.typ == "parsers" || v.typ == "results") {
				return []pfVal{{"(" + identName(n.Args[0]) + ".length : Int)", "int"}}, true
			}
		}
	case "make":
		// make([]Result, len(x)): one unset result per element of x
		if len(n.Args) == 2 && nodeText(n.Args[0]) == "[]Result" {
			if ln, ok := n.Args[1].(*ast.CallExpr); ok && nodeText(ln.Fun) == "len" && len(ln.Args) == 1 {
				if v, isVar := c.vars[identName(ln.Args[0])]; isVar && (v.typ == "parsers" || v.typ == "results") {
					return []pfVal{{"(List.replicate " + identName(ln.Args[0]) + ".length ResultV.unset)", "results"}}, true
				}
			}
			c.refuse(n, "make([]Result, n) with n that is not the length of a slice")
		}
	}
	if id, ok := n.Fun.(*ast.Ident); ok {
		v, isVar := c.vars[id.Name]
		// p(state, &v[i])
		if isVar && v.typ == "parser" && len(n.Args) == 2 {
			if cells, idx, isCell := c.cellRef(n.Args[1]); isCell {
				st := identName(n.Args[0])
				if st == "" || c.vars[st].typ != "State" {
					c.refuse(n, "a parser applied to something else than the state")
				}
				i := c.expr(idx)
				if i.typ != "int" {
					c.refuse(n, "index of type %s", i.typ)
				}
				cell := c.bindPartial("goIdx " + cells + " " + pfArg(i.lean))
				t := c.bindPartial(id.Name + " " + st + " " + cell)
				c.assignPath(n, st, nil, t+".1")
				back := c.bindPartial("goSet " + cells + " " + pfArg(i.lean) + " " + t + ".2.1")
				c.assignPath(n, cells, nil, back)
				return []pfVal{{t + ".2.2", "error"}}, true
			}
		}
		// f(result) for a mapping that may panic
		if isVar && v.typ == "mapfnP" && len(n.Args) == 1 {
			rs := c.resultVar(n.Args[0])
			if rs == "" {
				c.refuse(n, "a mapping applied to something else than the result")
			}
			t := c.bindPartial(id.Name + " " + rs)
			c.assignPath(n, rs, nil, t+".1")
			return []pfVal{{t + ".2", "error"}}, true
		}
	}
	// result.SetChildren(v)
	if sel, ok := n.Fun.(*ast.SelectorExpr); ok && sel.Sel.Name == "SetChildren" && len(n.Args) == 1 {
		if rs := c.resultVar(sel.X); rs != "" {
			a := identName(n.Args[0])
			if a == "" || c.vars[a].typ != "results" {
				c.refuse(n, "SetChildren of something that is not a []Result variable")
			}
			c.assignPath(n, rs, nil, "ResultV.children "+a)
			return nil, true
		}
	}
	return nil, false
}

// seqAssign: `*result = x` (hook at the head of pfCtx.assign)
func (c *pfCtx) seqAssign(n *ast.AssignStmt) bool {
	if n.Tok != token.ASSIGN || len(n.Lhs) != 1 || len(n.Rhs) != 1 {
		return false
	}
	st, ok := n.Lhs[0].(*ast.StarExpr)
	if !ok {
		return false
	}
	rs := c.resultVar(st.X)
	if rs == "" {
		c.refuse(n, "store through a pointer that is not the result")
	}
	v := c.expr(n.Rhs[0])
	if v.typ != "Result" {
		c.refuse(n, "a %s stored as the result", v.typ)
	}
	c.assignPath(n, rs, nil, v.lean)
	return true
}

// seqAssigned: `&v[i]` handed to a call changes v (hook in pfCtx.assignedIn)
func (c *pfCtx) seqAssigned(a ast.Expr, out map[string]bool) {
	if v, _, ok := c.cellRef(a); ok {
		out[v] = true
	}
}

// seqRange: `for i, p := range ps { … }` over a list of parsers: `rangeLoopIdx` of the prelude (hook at the head of
// pfCtx.rangeStmt; the un-keyed form stays with rangeParsers)
func (c *pfCtx) seqRange(n *ast.RangeStmt, rest []ast.Stmt, k func(c *pfCtx) string) (string, bool) {
	key, elem := identName(n.Key), identName(n.Value)
	if n.Tok != token.DEFINE || key == "" || key == "_" || elem == "" || elem == "_" {
		return "", false
	}
	p := c.expr(n.X)
	if p.typ != "parsers" {
		c.refuse(n, "a keyed range over a %s", p.typ)
	}
	if c.inLoop {
		c.refuse(n, "nested loop")
	}
	if _, shadow := c.vars[key]; shadow {
		c.refuse(n, "the index %s shadows a variable", key)
	}
	head := c.flush()
	as := c.assignedIn([]ast.Node{n.Body})
	if as[key] || as[elem] {
		c.refuse(n, "the loop assigns its index or its element")
	}
	var loopVs, fixed []string
	for _, v := range c.order {
		if as[v] {
			loopVs = append(loopVs, v)
		} else {
			fixed = append(fixed, v)
		}
	}
	if len(loopVs) == 0 {
		c.refuse(n, "a loop that assigns nothing")
	}
	lts := make([]string, len(loopVs))
	for i, v := range loopVs {
		lts[i] = c.vars[v].typ
	}
	sigma := pfTupleType(lts)
	retT := pfTupleType(c.f.retTypes())
	*c.nk++
	id := *c.nk
	bodyName := fmt.Sprintf("%s_body%d", c.f.lean, id)
	exitName := fmt.Sprintf("%s_exit%d", c.f.lean, id)
	fixedB, fixedA := "", ""
	for _, v := range fixed {
		fixedB += " (" + v + " : " + pfLeanTypes[c.vars[v].typ] + ")"
		fixedA += " " + v
	}
	unpack := ""
	for i, v := range loopVs {
		unpack += "let " + v + " : " + pfLeanTypes[c.vars[v].typ] + " := " + pfProj("s_", i, len(loopVs)) + "\n"
	}
	gens := ""
	if c.f.env {
		gens += " env"
	}
	if c.f.fuel {
		gens += " fuel"
	}
	ex := c.clone()
	exitBody := ex.stmts(rest, k)
	c.g.out = append(c.g.out, fmt.Sprintf("/-- %s: behind the loop `for %s, %s := range %s` -/\n%s :=\n%s\n", c.f.doc, key, elem, nodeText(n.X),
		c.f.header(exitName, fixedB+" (s_ : "+sigma+") : "+c.resultType()), pfIndent(unpack+exitBody)))
	b := c.clone()
	b.inLoop, b.loopVs = true, loopVs
	b.flowT = "(" + sigma + ") (" + retT + ")"
	b.declare(key, "int")
	b.declare(elem, "parser")
	bodyText := b.stmts(n.Body.List, func(e *pfCtx) string { return "some (Flow.next " + pfArg(pfTuple(loopVs)) + ")" })
	c.g.out = append(c.g.out, fmt.Sprintf("/-- %s: one round of the loop `for %s, %s := range %s` -/\n%s :=\n%s\n", c.f.doc, key, elem, nodeText(n.X),
		c.f.header(bodyName, fixedB+" ("+key+" : Int) ("+elem+" : "+pfLeanTypes["parser"]+") (s_ : "+sigma+") : Option (Flow "+b.flowT+")"), pfIndent(unpack+bodyText)))
	if !c.f.partial {
		refuse("go-pars: %s: a loop in a function that cannot panic", c.f.key)
	}
	return head + "rangeLoopIdx (" + bodyName + gens + fixedA + ") (" + exitName + gens + fixedA + ") 0 " + pfArg(p.lean) + " " + pfTuple(loopVs), true
}

// seqUsesEnv: the body names an error variable of the package
func (g *pfGen) seqUsesEnv(f *pfFunc) bool {
	found := false
	for _, s := range f.body {
		ast.Inspect(s, func(x ast.Node) bool {
			if id, ok := x.(*ast.Ident); ok && g.errVar(id.Name) {
				found = true
			}
			return true
		})
	}
	return found
}

// ---- the second reading of Parser.Map and the compositions --------------------------------------------------------

// loadMapP: `Parser.Map/func0` with its mapping read as one that may panic
func (g *pfGen) loadMapP() *pfFunc {
	f := g.loadFunc("Parser.Map/func0", "parsMapP")
	n := 0
	for i := range f.params {
		if f.params[i].typ == "mapfn" {
			f.params[i].typ = "mapfnP"
			n++
		}
	}
	if n != 1 {
		refuse("go-pars: Parser.Map/func0: %d parameters of type Map", n)
	}
	f.key = "Parser.Map/func0 (mapping that may panic)"
	f.doc = f.d.file + " `Parser.Map/func0`, the mapping read as one that may panic (`Child(i)`)"
	return f
}

// the compositions: constructors whose body is set-up + `return <parser expression>`
var pfCompositions = []struct{ key, lean string }{
	{"Parser.Child", "parsParserChild"},
	{"Exact", "parsExact"},
}

type pfComp struct {
	g    *pfGen
	key  string
	vars map[string]string // parser / int variables in scope
}

func (k *pfComp) refuse(n ast.Node, format string, a ...interface{}) {
	refuse("go-pars: %s: %s: %s", k.key, fmt.Sprintf(format, a...), nodeText(n))
}

// parserFn: a translated top-level parser function (`func X(state *State, result *Result) error`) as a GoParser
func (k *pfComp) parserFn(n ast.Node, name string) string {
	f, ok := k.g.funcs[name]
	if !ok || strings.Contains(f.key, "/") || len(f.params) != 2 || f.params[0].typ != "State" || f.params[1].typ != "Result" ||
		!f.params[0].ptr || !f.params[1].ptr || len(f.results) != 1 || f.results[0] != "error" {
		k.refuse(n, "%s is not a translated parser", name)
	}
	if f.fuel {
		k.refuse(n, "%s has a loop (the composition has no fuel)", name)
	}
	if f.partial {
		return "(" + f.callPrefix() + ")"
	}
	return "(fun s_ r_ => some (" + f.callPrefix() + " s_ r_))"
}

func (k *pfComp) parser(x ast.Expr) string {
	switch n := x.(type) {
	case *ast.ParenExpr:
		return k.parser(n.X)
	case *ast.Ident:
		if t, ok := k.vars[n.Name]; ok {
			if t != "parser" {
				k.refuse(x, "a %s where a parser is expected", t)
			}
			return n.Name
		}
		return k.parserFn(x, n.Name)
	case *ast.CallExpr:
		if sel, ok := n.Fun.(*ast.SelectorExpr); ok && sel.Sel.Name == "Map" && len(n.Args) == 1 {
			mp, ok := k.g.funcs["Parser.Map/func0 (mapping that may panic)"]
			if !ok {
				k.refuse(x, "Parser.Map is not translated")
			}
			return "(" + mp.callPrefix() + " " + k.parser(sel.X) + " " + k.mapping(n.Args[0]) + ")"
		}
		if id, ok := n.Fun.(*ast.Ident); ok && id.Name == "Seq" && !n.Ellipsis.IsValid() {
			if _, shadow := k.vars["Seq"]; shadow {
				k.refuse(x, "Seq is a variable")
			}
			sq, ok := k.g.funcs["Seq/func0"]
			if !ok || len(sq.params) != 3 || sq.params[0].typ != "parsers" {
				k.refuse(x, "Seq is not translated")
			}
			ps := make([]string, len(n.Args))
			for i, a := range n.Args {
				ps[i] = k.parser(a)
			}
			return "(" + sq.callPrefix() + " [" + strings.Join(ps, ", ") + "])"
		}
	}
	k.refuse(x, "parser expression")
	return ""
}

func (k *pfComp) mapping(x ast.Expr) string {
	call, ok := x.(*ast.CallExpr)
	if !ok || identName(call.Fun) != "Child" || len(call.Args) != 1 {
		k.refuse(x, "mapping expression")
	}
	if _, shadow := k.vars["Child"]; shadow {
		k.refuse(x, "Child is a variable")
	}
	ch, ok := k.g.funcs["Child/func0"]
	if !ok || len(ch.params) != 2 || ch.params[0].typ != "int" || ch.params[1].typ != "Result" {
		k.refuse(x, "Child is not translated")
	}
	var arg string
	switch a := call.Args[0].(type) {
	case *ast.BasicLit:
		if _, err := strconv.Atoi(a.Value); a.Kind != token.INT || err != nil {
			k.refuse(x, "argument of Child")
		}
		arg = a.Value
	case *ast.Ident:
		if k.vars[a.Name] != "int" {
			k.refuse(x, "argument of Child")
		}
		arg = a.Name
	default:
		k.refuse(x, "argument of Child")
	}
	return "(" + ch.callPrefix() + " " + arg + ")"
}

func (g *pfGen) compose(key, lean string) {
	d, ok := g.pk.byName[key]
	if !ok || d.kind != "func" {
		refuse("go-pars: function %s not found", key)
	}
	fd := d.fd
	k := &pfComp{g: g, key: key, vars: map[string]string{}}
	binders := ""
	declare := func(name, typ string) {
		c := &pfCtx{g: g, f: &pfFunc{key: key}, vars: map[string]pfVar{}}
		c.declare(name, typ) // the reserved names
		if _, dup := k.vars[name]; dup {
			refuse("go-pars: %s: %s declared twice", key, name)
		}
		k.vars[name] = typ
		binders += " (" + name + " : " + pfLeanTypes[typ] + ")"
	}
	if fd.Recv != nil {
		r := fd.Recv.List[0]
		if nodeText(r.Type) != "Parser" || len(r.Names) != 1 {
			refuse("go-pars: %s: receiver", key)
		}
		declare(r.Names[0].Name, "parser")
	}
	iface := map[string]bool{}
	if fd.Type.Params != nil {
		for _, p := range fd.Type.Params.List {
			switch nodeText(p.Type) {
			case "int":
				for _, n := range p.Names {
					declare(n.Name, "int")
				}
			case "interface{}":
				for _, n := range p.Names {
					iface[n.Name] = true // reaches the parser through AsParser only
				}
			default:
				refuse("go-pars: %s: parameter of type %s", key, nodeText(p.Type))
			}
		}
	}
	if fd.Type.Results == nil || len(fd.Type.Results.List) != 1 || nodeText(fd.Type.Results.List[0].Type) != "Parser" {
		refuse("go-pars: %s: does not return one Parser", key)
	}
	list := fd.Body.List
	if len(list) == 0 {
		refuse("go-pars: %s: empty body", key)
	}
	for _, s := range list[:len(list)-1] {
		as, ok := s.(*ast.AssignStmt)
		if !ok || as.Tok != token.DEFINE || len(as.Lhs) != 1 || len(as.Rhs) != 1 || identName(as.Lhs[0]) == "" {
			refuse("go-pars: %s: a set-up statement that is not `name := AsParser(q)`: %s", key, nodeText(s))
		}
		call, ok := as.Rhs[0].(*ast.CallExpr)
		if !ok || nodeText(call.Fun) != "AsParser" || len(call.Args) != 1 || !iface[identName(call.Args[0])] {
			refuse("go-pars: %s: a set-up statement that is not `name := AsParser(q)`: %s", key, nodeText(s))
		}
		delete(iface, identName(call.Args[0])) // each parameter gives one parser
		declare(identName(as.Lhs[0]), "parser")
	}
	ret, ok := list[len(list)-1].(*ast.ReturnStmt)
	if !ok || len(ret.Results) != 1 {
		refuse("go-pars: %s: the last statement is not `return <parser>`", key)
	}
	body := k.parser(ret.Results[0])
	g.out = append(g.out, fmt.Sprintf("/-- %s `%s`: the composition `%s` -/\ndef %s {ρ ε : Type} (env : Env ρ ε)%s : GoParser ρ ε :=\n  %s\n",
		d.file, key, nodeText(ret.Results[0]), lean, binders, body))
}
